"""Reproduction (documentation only) for DESIGN.md section 6 #8: a TLS 1.3 client that
offered only rsa_pss_rsae_sha256 completes against a server signing with rsa_pss_rsae_sha512.
Run: cd /verif/triage && /venv/bin/python c05_client13_unoffered_scheme.py"""
from loop import *
from tlslite import tlsconnection
c,k=creds()
cset=HandshakeSettings(); cset.rsaSigHashes=['sha256']; cset.rsaSchemes=['pss']; cset.ecdsaSigHashes=['sha256']; cset.more_sig_schemes=[]; cset.minVersion=(3,4)
orig=tlsconnection.TLSConnection._pickServerKeyExchangeSig
def evil(settings, clientHello, certList=None, private_key=None, version=(3,3), check_alt=True):
    return 'rsa_pss_rsae_sha512', certList, private_key      # not offered by the client
def s(conn):
    tlsconnection.TLSConnection._pickServerKeyExchangeSig=staticmethod(evil)
    try:
        conn.handshakeServer(certChain=c, privateKey=k)
    finally:
        tlsconnection.TLSConnection._pickServerKeyExchangeSig=staticmethod(orig)
    conn.write(b'x'); conn.close(); return conn.serverSigAlg
def cl(conn):
    conn.handshakeClientCert(settings=cset)
    alg=conn.serverSigAlg
    conn.read(min=1,max=1); conn.close(); return ('client completed; server signed with',alg)
print(run(s,cl))
