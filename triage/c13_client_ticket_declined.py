"""Reproduction (documentation only): a TLS 1.2 client that offers a session ticket treats the
handshake as resumed even when the server declined the ticket (other ticket key), and the
connection breaks instead of falling back to a full handshake.
Run: cd /verif/triage && /venv/bin/python c13_client_ticket_declined.py"""
from loop import *
c,k=creds()
def mk(key):
    s=HandshakeSettings(); s.maxVersion=(3,3); s.ticketKeys=[key]; s.ticket_count=1; return s
cs=HandshakeSettings(); cs.maxVersion=(3,3)
sess={}
def s1(conn):
    conn.handshakeServer(certChain=c, privateKey=k, settings=mk(bytearray(b'A'*32))); conn.write(b'x'); conn.close(); return 'ok1'
def c1(conn):
    conn.handshakeClientCert(settings=cs); conn.read(min=1,max=1); conn.close(); sess['s']=conn.session; return ('tickets', len(conn.session.tls_1_0_tickets), 'sid', bytes(conn.session.sessionID))
print(run(s1,c1))
def s2(conn):
    conn.handshakeServer(certChain=c, privateKey=k, settings=mk(bytearray(b'B'*32))); conn.write(b'y'); conn.close(); return ('server resumed', conn.resumed)
def c2(conn):
    conn.handshakeClientCert(settings=cs, session=sess['s']); conn.read(min=1,max=1); conn.close(); return ('client resumed', conn.resumed)
r=run(s2,c2)
print({k_:(v if 'tb' not in k_ else v.splitlines()[-1]) for k_,v in r.items()})
