"""Reproduction (documentation only): TLS 1.3 ClientHello offering psk_ke only (so supported_groups is
not mandatory for the sanity checks), with a key_share for a group the server does not accept and
NO supported_groups extension.  Expected: an alert.  The HRR branch of _serverGetClientHello
dereferences the absent supported_groups extension.
Run: cd /verif/triage && /venv/bin/python c08_psk_ke_no_groups.py"""
import sys
sys.path.insert(0, '/verif/triage')
from c08_nullfield_more import raw_client, s, c, k
from tlslite.extensions import *
from tlslite.constants import *
exts = [SupportedVersionsExtension().create([(3, 4)]), SignatureAlgorithmsExtension().create([(8, 4)]),
        ClientKeyShareExtension().create([KeyShareEntry().create(0x7777, bytearray(32))]),
        PskKeyExchangeModesExtension().create([0]),
        PreSharedKeyExtension().create([PskIdentity().create(bytearray(b'unknown'), 0)], [bytearray(32)])]
r = raw_client(exts, settings=s)
print(r)
r2 = raw_client(exts)
print(r2)
