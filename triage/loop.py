"""In-memory loopback helper for the reproductions in this directory
(documentation only; no check imports or runs this)."""
import socket, threading, sys, time, traceback
sys.path.insert(0,'/repo')
from tlslite.api import *
from tlslite.handshakesettings import HandshakeSettings
from tlslite.utils.keyfactory import parsePEMKey
def creds(cert='/repo/tests/serverX509Cert.pem', key='/repo/tests/serverX509Key.pem'):
    c=X509CertChain(); c.parsePemList(open(cert).read())
    k=parsePEMKey(open(key).read(), private=True)
    return c,k
def run(server_fn, client_fn, timeout=20):
    a,b=socket.socketpair()
    a.settimeout(timeout); b.settimeout(timeout)
    res={}
    def srv():
        try:
            conn=TLSConnection(a); res['srv']=server_fn(conn)
        except BaseException as e:
            res['srv_exc']=e; res['srv_tb']=traceback.format_exc()
            try: a.close()
            except: pass
    t=threading.Thread(target=srv); t.start()
    try:
        conn=TLSConnection(b); res['cli']=client_fn(conn)
    except BaseException as e:
        res['cli_exc']=e; res['cli_tb']=traceback.format_exc()
        try: b.close()
        except: pass
    t.join(timeout)
    return res
if __name__=='__main__':
    c,k=creds()
    def s(conn):
        conn.handshakeServer(certChain=c, privateKey=k); d=conn.read(min=5,max=5); conn.write(d.upper()); conn.close(); return conn.version
    def cl(conn):
        conn.handshakeClientCert(); conn.write(b'hello'); r=conn.read(min=5,max=5); conn.close(); return conn.version, r
    print(run(s,cl))
