"""C08: a TLS 1.3 server asks for a client certificate with signature algorithms none of which
the client's key can produce (here: only ed25519, the client holds an RSA key).  The peer is
modelled by overriding the signature_algorithms extension of the CertificateRequest the server
writes.  Expected: an alert (handshake_failure).  Observed on the unrepaired tree: TypeError from
getattr(SignatureScheme, None) in _clientTLS13Handshake - no alert is sent.
(documentation only; no check imports or runs this)"""
import sys
sys.path.insert(0, '/verif/triage')
from loop import *
from tlslite import messages
from tlslite.extensions import SignatureAlgorithmsExtension
from tlslite.constants import SignatureScheme
c, k = creds()
orig = messages.CertificateRequest.create
def create(self, certificate_types=None, certificate_authorities=None, sig_algs=None, context=b'', extensions=None):
    if extensions:
        extensions = [SignatureAlgorithmsExtension().create([SignatureScheme.ed25519])
                      if isinstance(e, SignatureAlgorithmsExtension) else e for e in extensions]
    if extensions and sig_algs is not None:
        sig_algs = [SignatureScheme.ed25519]
    return orig(self, certificate_types, certificate_authorities, sig_algs, context, extensions)
messages.CertificateRequest.create = create
def s(conn):
    st = HandshakeSettings(); st.minVersion = (3, 4)
    try:
        conn.handshakeServer(certChain=c, privateKey=k, reqCert=True, settings=st)
    except Exception as e:
        return "server: %r" % e
    return "server done"
def cl(conn):
    st = HandshakeSettings(); st.minVersion = (3, 4)
    conn.handshakeClientCert(certChain=c, privateKey=k, settings=st)
    return "client done"
r = run(s, cl)
exc = r.get('cli_exc')
print("client:", repr(exc) if exc else r.get('cli'))
print("server:", r.get('srv'), r.get('srv_exc'))
from tlslite.errors import TLSError
ok = exc is None or isinstance(exc, TLSError)
print("PROPERTY", "HOLDS" if ok else "VIOLATED: client raised %s" % type(exc).__name__)
sys.exit(0 if ok else 1)
