"""Reproduction (documentation only): after a HelloRetryRequest the second ClientHello's
pre_shared_key extension replaces the first one's without being sanity-checked again; an empty
payload there (identities == None) makes the server raise TypeError in _serverTLS13Handshake.
Run: cd /verif/triage && /venv/bin/python c08_hrr_second_hello_psk.py"""
from loop import *
from tlslite.messages import ClientHello, ServerHello, RecordHeader3
from tlslite.extensions import *
from tlslite.constants import *
from tlslite.keyexchange import ECDHKeyExchange
from tlslite.utils.cryptomath import getRandomBytes
from tlslite.utils.codec import Parser
c,k=creds()
def empty(t): return TLSExtension(extType=t).create(t, bytearray(0))
a,b=socket.socketpair(); a.settimeout(10); b.settimeout(10)
res={}
st=HandshakeSettings(); st.pskConfigs=[(b'id', b'\x00'*32)]
def srv():
    try:
        conn=TLSConnection(a); conn.handshakeServer(certChain=c, privateKey=k, settings=st); res['srv']='completed'
    except BaseException as e:
        res['srv_exc']=repr(e)[:160]; res['type']=type(e).__name__
t=threading.Thread(target=srv); t.start()
rnd=getRandomBytes(32); sid=getRandomBytes(32)
suites=[CipherSuite.TLS_AES_128_GCM_SHA256]
def hello(ks, extra, psk):
    exts=[SupportedVersionsExtension().create([(3,4)]), SignatureAlgorithmsExtension().create([(8,4)]),
          SupportedGroupsExtension().create([GroupName.secp256r1]), ClientKeyShareExtension().create(ks),
          PskKeyExchangeModesExtension().create([1])]+extra+[psk]
    return ClientHello().create((3,3), rnd, sid, suites, extensions=exts)
def send(msg):
    d=msg.write(); b.sendall(RecordHeader3().create((3,3),22,len(d)).write()+d)
psk1=PreSharedKeyExtension().create([PskIdentity().create(bytearray(b'id'),0)],[bytearray(32)])
send(hello([], [], psk1))
hdr=b.recv(5); body=b''
while len(body)<int.from_bytes(hdr[3:5],'big'): body+=b.recv(4096)
p=Parser(bytearray(body)); p.get(1)
hrr=ServerHello().parse(p)
print('got HRR:', hrr.random==TLS_1_3_HRR, [ExtensionType.toStr(e.extType) for e in hrr.extensions])
cookie=hrr.getExtension(ExtensionType.cookie)
kex=ECDHKeyExchange(GroupName.secp256r1,(3,4)); priv=kex.get_random_private_key()
share=KeyShareEntry().create(GroupName.secp256r1, kex.calc_public_value(priv), priv)
send(hello([share], [cookie] if cookie else [], empty(ExtensionType.pre_shared_key)))
try: res['reply']=bytes(b.recv(100))[:7].hex()
except Exception as e: res['reply_exc']=repr(e)
t.join(10); b.close()
print(res)
