"""Reproduction (documentation only): post-handshake client authentication does not apply the
server's key-size policy - a server that requests PHA with settings.minKeySize=4096 records a
1024-bit client key (rule C03.KEYPOLICY, _handle_srv_pha).
Run: cd /verif/triage && /venv/bin/python c03_pha_keysize_policy.py"""
from loop import *
c,k=creds()
cc,ck=creds('/repo/tests/clientX509Cert.pem','/repo/tests/clientX509Key.pem')
print('client key bits',len(cc.getEndEntityPublicKey()))
sset=HandshakeSettings(); sset.minKeySize=4096
def s(conn):
    conn.handshakeServer(certChain=c, privateKey=k, settings=sset)
    for _ in conn.request_post_handshake_auth(sset): pass
    d=conn.read(min=1,max=1)
    ch=conn.session.clientCertChain
    conn.close(); return ('server PHA done', conn.version if conn.version!=(0,0) else 'closed', ch is not None and len(ch.getEndEntityPublicKey()))
def cl(conn):
    conn.handshakeClientCert(certChain=cc, privateKey=ck)
    conn.read(min=0,max=0)          # process the CertificateRequest
    conn.write(b'x')
    conn.close(); return 'client completed'
r=run(s,cl)
print({k2:(v if not k2.endswith('tb') else v.strip().splitlines()[-1]) for k2,v in r.items()})
