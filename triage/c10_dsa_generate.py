"""Observation from seed round 7 (not a listed finding): Python_DSAKey.generate() builds domain parameters
in which q does not divide p-1, so its own signatures do not verify.  Run: PYTHONPATH=/repo python this."""
from tlslite.utils.python_dsakey import Python_DSAKey
k = Python_DSAKey.generate(1024, 160)
print("q | p-1:", (int(k.p) - 1) % int(k.q) == 0)
sig = k.hashAndSign(b"message", "sha1")
ok = k.hashAndVerify(sig, b"message", "sha1")
print("own signature verifies:", ok)
raise SystemExit(0 if ok else 1)
