"""Reproduction (documentation only) for DESIGN.md section 6 #7 and #2: crafted
ClientHello messages make the server raise TypeError / AttributeError and send no alert.
Run: cd /verif/triage && /venv/bin/python c08_clienthello_typeerror_attributeerror.py"""
from loop import *
from tlslite.messages import ClientHello, RecordHeader3
from tlslite.extensions import *
from tlslite.constants import *
from tlslite.utils.cryptomath import getRandomBytes
c,k=creds()
def raw_client(exts, version=(3,3)):
    a,b=socket.socketpair(); a.settimeout(10); b.settimeout(10)
    res={}
    def srv():
        try:
            conn=TLSConnection(a); conn.handshakeServer(certChain=c, privateKey=k); res['srv']='completed'
        except BaseException as e:
            res['srv_exc']=repr(e)[:200]; res['type']=type(e).__name__
    t=threading.Thread(target=srv); t.start()
    ch=ClientHello().create(version, getRandomBytes(32), bytearray(0), [CipherSuite.TLS_AES_128_GCM_SHA256, CipherSuite.TLS_ECDHE_RSA_WITH_AES_128_GCM_SHA256, CipherSuite.TLS_RSA_WITH_AES_128_CBC_SHA], extensions=exts)
    data=ch.write()
    b.sendall(RecordHeader3().create((3,1),22,len(data)).write()+data)
    try: res['reply']=bytes(b.recv(100))[:7].hex()
    except Exception as e: res['reply_exc']=repr(e)
    t.join(10); b.close()
    return res
print('empty supported_versions:', raw_client([SupportedVersionsExtension().create(None), SignatureAlgorithmsExtension().create([(4,1)])]))
print('empty psk identity     :', raw_client([SupportedVersionsExtension().create([(3,4)]), SignatureAlgorithmsExtension().create([(8,4)]), SupportedGroupsExtension().create([GroupName.secp256r1]),
     ClientKeyShareExtension().create([]), PskKeyExchangeModesExtension().create([1]),
     PreSharedKeyExtension().create([PskIdentity().create(bytearray(0),0)],[bytearray(32)])]))
