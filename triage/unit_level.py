"""Unit-level reproductions for DESIGN.md section 6 (documentation only; not part of any check).
Run: cd /verif/triage && /venv/bin/python unit_level.py"""
import sys
sys.path.insert(0, '/repo')
from tlslite.handshakesettings import HandshakeSettings
from tlslite.constants import CipherSuite, AlertDescription
from tlslite.extensions import SRPExtension, SupportedVersionsExtension, \
    ServerKeyShareExtension
from tlslite.messages import ServerKeyExchange
from tlslite.utils.codec import Parser

# 1  C19: validate() mutates its receiver
s = HandshakeSettings()
before = list(s.cipherImplementations)
s.validate()
print("#1 C19 receiver before/after validate():", before, s.cipherImplementations)

# 2  C08: undefined enum member used on an error path
print("#2 C08 AlertDescription has decoder_error:",
      hasattr(AlertDescription, "decoder_error"))

# 3  C20: AEAD suite classified as HMAC-SHA384
print("#3 C20 canonicalMacName DHE_DSS_AES256_GCM / DHE_RSA_AES256_GCM:",
      CipherSuite.canonicalMacName(
          CipherSuite.TLS_DHE_DSS_WITH_AES_256_GCM_SHA384),
      CipherSuite.canonicalMacName(
          CipherSuite.TLS_DHE_RSA_WITH_AES_256_GCM_SHA384))

# 5  C15: trailing bytes accepted inside an extension
try:
    e = SRPExtension().parse(Parser(bytearray(b'\x03abcXYZ')))
    print("#5 C15 SRP extension with 3 trailing bytes parses to:", e.identity)
except BaseException as exc:   # after fix bf78fb0
    print("#5 C15 SRP extension with 3 trailing bytes raises:", type(exc).__name__)

# 6  C08: assert on a parsed byte
try:
    ServerKeyExchange(CipherSuite.TLS_ECDHE_RSA_WITH_AES_128_GCM_SHA256,
                      (3, 3)).parse(
        Parser(bytearray(b'\x00\x00\x04\x01\x00\x17\x00')))
except BaseException as exc:
    print("#6 C08 SKE with curve_type=1 raises:", type(exc).__name__)

# 7  C08: empty payloads parse to None fields that are later dereferenced
print("#7 C08 empty supported_versions ->",
      SupportedVersionsExtension().parse(Parser(bytearray())).versions,
      "; empty server key_share ->",
      ServerKeyShareExtension().parse(Parser(bytearray())).server_share)

# 12  C08: unknown certificate signature OID -> KeyError out of the parser
from tlslite.x509 import X509
from tlslite.utils.pem import dePem
der = dePem(open('/repo/tests/serverX509Cert.pem').read(), "CERTIFICATE")
oid = bytearray(b'\x06\x09\x2a\x86\x48\x86\xf7\x0d\x01\x01')
pos = der.find(oid)
mutated = bytearray(der)
mutated[pos + len(oid)] = 0x7f          # last arc of the signature algorithm OID
while mutated.find(oid, pos + 1) != -1:  # both occurrences (tbs + outer)
    pos = mutated.find(oid, pos + 1)
    if mutated[pos + len(oid)] in (0x05, 0x0b, 0x0c, 0x0d, 0x0e):
        mutated[pos + len(oid)] = 0x7f
try:
    X509().parseBinary(mutated)
    print("#12 C08 parsed?!")
except BaseException as exc:
    print("#12 C08 certificate with unknown signature OID raises:",
          type(exc).__name__)
