"""C08 (documentation only): a TLS 1.3 server presents an RSA certificate but labels its
CertificateVerify with an ECDSA scheme the client offered.  Expected: an alert.
Run: /venv/bin/python /verif/triage/c08_client13_scheme_keytype_mismatch.py"""
import sys
sys.path.insert(0, '/verif/triage')
from loop import *
from tlslite import messages
from tlslite.constants import SignatureScheme
from tlslite.errors import TLSError
c, k = creds()
orig = messages.CertificateVerify.create
def create(self, signature, signature_algorithm=None):
    if self.version >= (3, 4):
        signature_algorithm = SignatureScheme.ecdsa_secp256r1_sha256
    return orig(self, signature, signature_algorithm)
messages.CertificateVerify.create = create
def s(conn):
    st = HandshakeSettings(); st.minVersion = (3, 4)
    try:
        conn.handshakeServer(certChain=c, privateKey=k, settings=st)
    except Exception as e:
        return "server: %r" % e
    return "server done"
def cl(conn):
    st = HandshakeSettings(); st.minVersion = (3, 4)
    conn.handshakeClientCert(settings=st)
    return "client done"
r = run(s, cl)
exc = r.get('cli_exc')
print("client:", repr(exc) if exc else r.get('cli'))
print("server:", r.get('srv'), r.get('srv_exc'))
ok = exc is not None and isinstance(exc, TLSError)
print("PROPERTY", "HOLDS" if ok else "VIOLATED: client raised %s" % (type(exc).__name__ if exc else "nothing"))
sys.exit(0 if ok else 1)
