"""C13 (documentation only): a TLS 1.3 ticket issued for SNI a.example is offered in a ClientHello
for b.example (a foreign client; emulated by editing the client's cached session).  Expected per
C13: not resumed - a full handshake instead (as the TLS <= 1.2 path refuses an SNI change).
Run: /venv/bin/python /verif/triage/c13_tls13_ticket_other_sni.py"""
import sys
sys.path.insert(0, '/verif/triage')
from loop import *
c, k = creds()
keys = [bytearray(b'\x01' * 32)]
state = {}
def srv(conn):
    st = HandshakeSettings(); st.minVersion = (3, 4); st.ticketKeys = keys; st.ticket_count = 1
    conn.handshakeServer(certChain=c, privateKey=k, settings=st)
    conn.write(b'x')
    try: conn.read(min=1, max=1)
    except Exception: pass
    return (conn.session.serverName, conn.resumed if hasattr(conn, 'resumed') else None,
            conn.session.serverCertChain is not None)
def cl1(conn):
    st = HandshakeSettings(); st.minVersion = (3, 4)
    conn.handshakeClientCert(serverName="a.example", settings=st)
    conn.read(min=1, max=1)      # picks up the NewSessionTicket too
    state['session'] = conn.session
    conn.write(b'y'); conn.close()
    return len(conn.session.tickets)
r1 = run(srv, cl1)
print("first:", r1.get('srv'), r1.get('cli'), r1.get('srv_exc'), r1.get('cli_exc'))
sess = state['session']
sess.serverName = "b.example"          # what a client without tlslite's own consistency check would do
def cl2(conn):
    st = HandshakeSettings(); st.minVersion = (3, 4)
    conn.handshakeClientCert(serverName="b.example", session=sess, settings=st)
    conn.read(min=1, max=1); conn.write(b'y'); conn.close()
    return conn.resumed
r2 = run(srv, cl2)
print("second:", r2.get('srv'), "client resumed:", r2.get('cli'), r2.get('srv_exc'), r2.get('cli_exc'))
resumed = bool(r2.get('cli'))
print("PROPERTY", "VIOLATED: ticket issued for a.example resumed a connection for b.example" if resumed else "HOLDS (full handshake)")
sys.exit(1 if resumed else 0)
