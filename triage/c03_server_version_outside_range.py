"""C03: a server whose HandshakeSettings say maxVersion=(3, 1) or (3, 2) negotiates TLS 1.2 with a
default client (before the fix): validate() only stripped (3, 4) from `versions`, and the server
picks the first entry of `versions` that the client's supported_versions lists.  Likewise a
ServerHello below the server's minVersion is sent when the client's supported_versions has a gap.

run: PYTHONPATH=/repo /venv/bin/python triage/c03_server_version_outside_range.py   (exit 1 = defect present)
"""
import socket, sys, threading
from tlslite.api import TLSConnection, X509, X509CertChain, parsePEMKey
from tlslite import HandshakeSettings

d = '/repo/tests/'
chain = X509CertChain([X509().parse(open(d + 'serverX509Cert.pem').read())])
key = parsePEMKey(open(d + 'serverX509Key.pem').read(), private=True)


def run(ss, cs):
    a, b = socket.socketpair()
    res = {}

    def srv():
        c = TLSConnection(a)
        try:
            c.handshakeServer(certChain=chain, privateKey=key, settings=ss)
            res['s'] = c.version
        except Exception as e:
            res['s'] = repr(e)
        try:
            c.close()
        except Exception:
            pass
    t = threading.Thread(target=srv)
    t.start()
    c = TLSConnection(b)
    try:
        c.handshakeClientCert(settings=cs)
        res['c'] = c.version
    except Exception as e:
        res['c'] = repr(e)
    try:
        c.close()
    except Exception:
        pass
    t.join()
    return res


bad = 0
for smax in [(3, 1), (3, 2), (3, 3)]:
    ss = HandshakeSettings()
    ss.maxVersion = smax
    r = run(ss, HandshakeSettings())
    print('server maxVersion', smax, '->', r)
    if isinstance(r.get('s'), tuple) and r['s'] > smax:
        bad += 1
for smin in [(3, 2), (3, 3)]:
    ss = HandshakeSettings()
    ss.minVersion = smin
    ss.maxVersion = (3, 3)
    cs = HandshakeSettings()
    cs.versions = [(3, 4), (3, 1)]
    cs.eccCurves = ['secp256r1', 'x25519']
    r = run(ss, cs)
    print('server minVersion', smin, 'client supported_versions [(3,4),(3,1)] ->', r)
    if 'downgrade' in str(r.get('c')) or (isinstance(r.get('s'), tuple) and r['s'] < smin):
        bad += 1        # the server answered with a version below its minimum
sys.exit(1 if bad else 0)
