"""Reproduction (documentation only): a server configured with a delegated credential receives a
ClientHello whose delegated_credential extension has an empty payload (sigalgs == None) and raises
TypeError in _serverTLS13Handshake instead of sending an alert (rule C08.NULLFIELD).
The credential objects are stand-ins: the failure happens before they are used.
Run: cd /verif/triage && /venv/bin/python c08_server_empty_dc_ext.py"""
from loop import *
import types
from tlslite.messages import ClientHello, RecordHeader3
from tlslite.extensions import *
from tlslite.constants import *
from tlslite.keyexchange import ECDHKeyExchange
from tlslite.utils.cryptomath import getRandomBytes
c,k=creds()
def empty(t): return TLSExtension(extType=t).create(t, bytearray(0))
a,b=socket.socketpair(); a.settimeout(10); b.settimeout(10)
res={}
dc=types.SimpleNamespace(cred=types.SimpleNamespace(dc_cert_verify_algorithm=SignatureScheme.rsa_pss_rsae_sha256))
def srv():
    try:
        conn=TLSConnection(a); conn.handshakeServer(certChain=c, privateKey=k, dc_key=k, del_cred=dc); res['srv']='completed'
    except BaseException as e:
        res['srv_exc']=repr(e)[:160]; res['type']=type(e).__name__
t=threading.Thread(target=srv); t.start()
kex=ECDHKeyExchange(GroupName.secp256r1,(3,4)); priv=kex.get_random_private_key()
share=KeyShareEntry().create(GroupName.secp256r1, kex.calc_public_value(priv), priv)
exts=[SupportedVersionsExtension().create([(3,4)]), SignatureAlgorithmsExtension().create([(8,4)]),
      SupportedGroupsExtension().create([GroupName.secp256r1]), ClientKeyShareExtension().create([share]),
      empty(ExtensionType.delegated_credential)]
ch=ClientHello().create((3,3), getRandomBytes(32), getRandomBytes(32), [CipherSuite.TLS_AES_128_GCM_SHA256], extensions=exts)
d=ch.write(); b.sendall(RecordHeader3().create((3,3),22,len(d)).write()+d)
try: res['reply']=bytes(b.recv(100))[:7].hex()
except Exception as e: res['reply_exc']=repr(e)
t.join(10); b.close()
print(res)
