"""Reproduction (documentation only) for DESIGN.md section 6 #4: a TLS 1.3 server
accepts a session ticket older than settings.ticketLifetime.
Run: cd /verif/triage && /venv/bin/python c13_tls13_expired_ticket.py"""
from loop import *
c,k=creds()
sset=HandshakeSettings(); sset.ticketKeys=[bytearray(b'\x11'*32)]; sset.ticketLifetime=1; sset.ticket_count=1
state={}
def s1(conn):
    conn.handshakeServer(certChain=c, privateKey=k, settings=sset)
    conn.write(b'x'); 
    try: conn.read(min=1,max=1)
    except Exception as e: pass
    conn.close(); return ('resumed',conn.resumed)
def c1(conn):
    conn.handshakeClientCert()
    conn.read(min=1,max=1)   # processes NST too
    state['session']=conn.session
    conn.write(b'y'); conn.close(); return len(conn.session.tickets)
print(run(s1,c1))
sess=state['session']
print('tickets',[(t.ticket_lifetime) for t in sess.tickets])
time.sleep(2.5)
for t in sess.tickets: t.ticket_lifetime=100000   # misbehaving client keeps expired ticket
def s2(conn):
    conn.handshakeServer(certChain=c, privateKey=k, settings=sset)
    r=conn.resumed
    conn.write(b'x'); conn.close(); return ('server resumed',r)
def c2(conn):
    conn.handshakeClientCert(session=sess)
    r=conn.resumed
    conn.read(min=1,max=1); conn.close(); return ('client resumed',r)
print(run(s2,c2))
