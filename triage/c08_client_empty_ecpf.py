"""Reproduction (documentation only): a server that sends the ec_point_formats extension with an
empty payload in its (TLS 1.2) ServerHello makes the tlslite-ng client raise TypeError after the
Finished exchange (rule C08.NULLFIELD, _handshakeClientAsyncHelper `ext_s.formats`).
Run: cd /verif/triage && /venv/bin/python c08_client_empty_ecpf.py"""
from loop import *
from tlslite.messages import ServerHello
from tlslite.extensions import TLSExtension
from tlslite.constants import ExtensionType
c,k=creds()
def s(conn):
    orig=conn._sendMsg
    def evil(msg, *a, **kw):
        if isinstance(msg, ServerHello) and msg.extensions:
            msg.extensions=[e if e.extType!=ExtensionType.ec_point_formats else
                            TLSExtension(extType=ExtensionType.ec_point_formats).create(ExtensionType.ec_point_formats, bytearray(0))
                            for e in msg.extensions]
        return orig(msg, *a, **kw)
    conn._sendMsg=evil
    st=HandshakeSettings(); st.maxVersion=(3,3)
    conn.handshakeServer(certChain=c, privateKey=k, settings=st); conn.close(); return 'server done'
def cl(conn):
    st=HandshakeSettings(); st.maxVersion=(3,3)
    conn.handshakeClientCert(settings=st); conn.close(); return 'client done'
r=run(s,cl)
print({k_:(v if 'tb' not in k_ else v.strip().splitlines()[-1]) for k_,v in r.items()})
