"""Reproduction (documentation only): TLS 1.3 client failure paths that raise an
internal exception type / an unrelated exception and send no alert.
Run: cd /verif/triage && /venv/bin/python c08_client13_no_alert.py"""
from loop import *
import threading
from tlslite import messages, extensions
c, k = creds()

def is_server_thread():
    return threading.current_thread().name == 'srv-thread'

def run_named(server_fn, client_fn):
    a, b = socket.socketpair(); a.settimeout(10); b.settimeout(10)
    res = {}
    def srv():
        try:
            conn = TLSConnection(a); res['srv'] = server_fn(conn)
        except BaseException as e:
            res['srv_exc'] = repr(e)[:120]
            try: a.close()
            except Exception: pass
    t = threading.Thread(target=srv, name='srv-thread'); t.start()
    try:
        conn = TLSConnection(b); res['cli'] = client_fn(conn)
    except BaseException as e:
        res['cli_exc_type'] = type(e).__mro__[0].__name__
        res['cli_exc_bases'] = [x.__name__ for x in type(e).__mro__[1:4]]
        res['cli_exc'] = repr(e)[:120]
    t.join(10)
    return res

def server(conn):
    conn.handshakeServer(certChain=c, privateKey=k); conn.close(); return 'completed'
def client(conn):
    conn.handshakeClientCert(); conn.close(); return 'completed'

# (a) server sends a wrong Finished
orig_create = messages.Finished.create
def bad_create(self, verify_data):
    if is_server_thread():
        verify_data = bytearray(verify_data); verify_data[0] ^= 1
    return orig_create(self, verify_data)
messages.Finished.create = bad_create
print('(a) bad server Finished :', run_named(server, client))
messages.Finished.create = orig_create

# (b) server sends an empty key_share extension in ServerHello
orig_ext = extensions.ServerKeyShareExtension.extData
extensions.ServerKeyShareExtension.extData = property(
    lambda self: bytearray(0) if is_server_thread() else orig_ext.fget(self))
print('(b) empty server key_share:', run_named(server, client))
extensions.ServerKeyShareExtension.extData = orig_ext
