"""Reproduction (documentation only) for DESIGN.md section 6 #9: minKeySize=4096 rejects a
1024-bit client key in TLS 1.2 but not in TLS 1.3.
Run: cd /verif/triage && /venv/bin/python c03_server13_keysize_policy.py"""
from loop import *
c,k=creds()
cc,ck=creds('/repo/tests/clientX509Cert.pem','/repo/tests/clientX509Key.pem')
print('client key bits',len(cc.getEndEntityPublicKey()))
for maxv in [(3,3),(3,4)]:
    sset=HandshakeSettings(); sset.minKeySize=4096; sset.maxVersion=maxv
    def s(conn):
        conn.handshakeServer(certChain=c, privateKey=k, settings=sset, reqCert=True)
        v=conn.version; ch=conn.session.clientCertChain
        conn.write(b'x'); conn.close(); return ('server completed',v, ch is not None and len(ch.getEndEntityPublicKey()))
    def cl(conn):
        conn.handshakeClientCert(certChain=cc, privateKey=ck)
        conn.read(min=1,max=1); conn.close(); return 'client completed'
    r=run(s,cl)
    print(maxv,{k2:(v if not k2.endswith('tb') else '...') for k2,v in r.items()})
