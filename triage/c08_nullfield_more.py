"""Reproduction (documentation only): further ClientHello extension payloads that parse to a None
field and are dereferenced by the server without a test (found by rule C08.NULLFIELD).
Run: cd /verif/triage && /venv/bin/python c08_nullfield_more.py"""
from loop import *
from tlslite.messages import ClientHello, RecordHeader3
from tlslite.extensions import *
from tlslite.constants import *
from tlslite.utils.cryptomath import getRandomBytes
c,k=creds()
def raw_client(exts, version=(3,3), settings=None, suites=None):
    a,b=socket.socketpair(); a.settimeout(10); b.settimeout(10)
    res={}
    def srv():
        try:
            conn=TLSConnection(a); conn.handshakeServer(certChain=c, privateKey=k, settings=settings); res['srv']='completed'
        except BaseException as e:
            res['srv_exc']=repr(e)[:160]; res['type']=type(e).__name__
    t=threading.Thread(target=srv); t.start()
    ch=ClientHello().create(version, getRandomBytes(32), bytearray(0), suites or [CipherSuite.TLS_AES_128_GCM_SHA256, CipherSuite.TLS_ECDHE_RSA_WITH_AES_128_GCM_SHA256, CipherSuite.TLS_RSA_WITH_AES_128_CBC_SHA], extensions=exts)
    data=ch.write()
    b.sendall(RecordHeader3().create((3,1),22,len(data)).write()+data)
    try: res['reply']=bytes(b.recv(100))[:7].hex()
    except Exception as e: res['reply_exc']=repr(e)
    t.join(10); b.close()
    return res
def empty(t): return TLSExtension(extType=t).create(t, bytearray(0))
s=HandshakeSettings(); s.pskConfigs=[(b'id', b'\x00'*32)]
base=[SupportedVersionsExtension().create([(3,4)]), SignatureAlgorithmsExtension().create([(8,4)]), SupportedGroupsExtension().create([GroupName.secp256r1])]
# 1. psk_ke only + key_share with empty payload
print('psk_ke + empty key_share     :', raw_client(base+[empty(ExtensionType.key_share), PskKeyExchangeModesExtension().create([0]),
     PreSharedKeyExtension().create([PskIdentity().create(bytearray(b'id'),0)],[bytearray(32)])], settings=s))
# 2. TLS 1.2 ClientHello with empty ec_point_formats handled? (checked) - empty delegated_credential
print('empty delegated_credential   :', raw_client(base+[ClientKeyShareExtension().create([]), empty(ExtensionType.delegated_credential)]))
# 3. empty supported_groups in a TLS 1.2 hello
print('TLS1.2 empty supported_groups:', raw_client([SignatureAlgorithmsExtension().create([(4,1)]), empty(ExtensionType.supported_groups)]))
# 4. empty ALPN
print('empty ALPN                   :', raw_client([SignatureAlgorithmsExtension().create([(4,1)]), empty(ExtensionType.alpn)]))
# 5. empty signature_algorithms in TLS 1.3 hello
print('TLS1.3 empty sig_algs        :', raw_client([SupportedVersionsExtension().create([(3,4)]), empty(ExtensionType.signature_algorithms), SupportedGroupsExtension().create([GroupName.secp256r1]), ClientKeyShareExtension().create([])]))
print('TLS1.3 empty sig_algs_cert   :', raw_client(base+[ClientKeyShareExtension().create([]), empty(ExtensionType.signature_algorithms_cert)]))
# 7. TLS 1.2 ClientHello (no supported_versions) carrying an empty pre_shared_key extension, server has PSKs
print('TLS1.2 hello + empty PSK ext :', raw_client([SignatureAlgorithmsExtension().create([(4,1)]), SupportedGroupsExtension().create([GroupName.secp256r1]),
      empty(ExtensionType.pre_shared_key)], settings=s))
