"""C17 - closure, truncation and transport failures are contained and reported faithfully."""
import ast

from ..index import AnalysisError, attr_chain, norm, own_nodes
from ..query import calls_in, call_name, is_value_yield, lines, falsy_edges
from ..condeval import check_cond
from .common import borrowed, resolved_text
from .common import (TLSCONN, TLSREC, nodes_with_call, consumes_of, getmsg_nodes, dead_edge_labels,
                     must_pass)

EXPLANATION = (
    "Shutdown typestate rules on the control-flow graphs of the record-layer coroutines. "
    "SHUTDOWN-ARG: each _shutdown call site passes literal False (non-resumable) unless it is an "
    "orderly path of _decrefAsync, is control-dependent on `description == close_notify`, or is the "
    "ignoreAbruptClose opt-in. ALERT: in _getMsg's alert arm every path shuts down (resumably only "
    "for close_notify) and then raises TLSRemoteAlert. EOF: an empty socket read raises "
    "TLSAbruptCloseError; readAsync swallows exactly the close_notify remote alert and re-raises an "
    "abrupt close unless ignoreAbruptClose; every re-raising outer handler shuts down non-resumably "
    "first. CLOSED: writeAsync, write_heartbeat and send_keyupdate_request start with the closed "
    "gate; `closed` is written only by __init__, _shutdown(True) and _handshakeDone(False); no "
    "handshake I/O follows _handshakeDone. WRAP: handshake wrapper catch-all and the send-failure "
    "branch shut down before raising; BufferedSocket.flush empties its queue before the send can "
    "fail; _shutdown closes the record layer, marks closed and closes the socket when asked.")
NOT_DECIDED = ("a transport fault at every concrete I/O index of every handshake flavour (needs "
               "executions); what the peer observes")
TECHNIQUE = "CFG typestate / must-precede queries over shutdown call sites and exception handlers; finite-domain guard evaluation"


def _handler_of(g, n):
    """innermost (try, handler ast, handler node) whose body contains node n."""
    best = None
    for (tr, h, hn) in g.handlers:
        for s in h.body:
            for x in ast.walk(s):
                if x is n.ast:
                    best = (tr, h, hn)
    return best


def _controlling_tests(g, n):
    """tests from which n is reachable on exactly one label (cheap control dependence):
    returns list of (test, label)."""
    out = []
    for t in g.nodes:
        if t.kind != "test":
            continue
        reach = {}
        for lbl in ("T", "F"):
            st = g.succ_on(t, lbl)
            reach[lbl] = bool(st) and n.id in g.reach(st, blocked=[t])
        if reach["T"] != reach["F"]:
            out.append((t, "T" if reach["T"] else "F"))
    return out


def rule_shutdown_arg(ctx):
    R = "C17.SHUTDOWN-ARG"
    count = 0
    for fi in ctx.index.all_functions():
        if fi.name == "_shutdown":
            continue
        g = None
        for x in own_nodes(fi.node):
            if isinstance(x, ast.Call) and call_name(x) == "_shutdown" and attr_chain(x.func) == "self._shutdown":
                count += 1
                if g is None:
                    g = ctx.an.cfg(fi)
                node = [n for n in g.nodes if n.kind == "stmt" and any(c is x for c in calls_in(n.ast))]
                arg = x.args[0] if x.args else None
                a = norm(arg) if arg is not None else "<missing>"
                ok, why = False, ""
                if a == "False":
                    ok = True
                elif a == "True" and node:
                    ctl = _controlling_tests(g, node[0])
                    if fi.qname == TLSREC + "_decrefAsync":
                        ok = True
                    elif any(norm(t.expr) == "alert.description == AlertDescription.close_notify" and l == "T"
                             for t, l in ctl):
                        ok = True
                    elif any(norm(t.expr) == "not self.ignoreAbruptClose" and l == "F" for t, l in ctl):
                        h = _handler_of(g, node[0])
                        ok = h is not None and "TLSAbruptCloseError" in norm(h[1].type or ast.Name(id=""))
                    why = "resumable shutdown outside an orderly-close context"
                elif a == "alert.description == AlertDescription.close_notify" or \
                        (node and a == resolved_text(fi.node, arg) == "alert.description == AlertDescription.close_notify"):
                    ok = True      # resumable exactly for an orderly close_notify
                elif a == "self.ignoreAbruptClose":
                    h = _handler_of(g, node[0]) if node else None
                    ok = fi.qname == TLSREC + "writeAsync" and h is not None
                    why = "ignoreAbruptClose passed outside the write failure handler"
                else:
                    why = "argument %s is neither a literal nor the ignoreAbruptClose opt-in" % a
                ctx.check(R, ok, fi.qname, x,
                          "%s: the session stays resumable after an abnormal termination" % (why or a),
                          fi.loc(x), what="%s %s" % (fi.short, norm(x)))
    ctx.require(count >= 9, "C17.SHUTDOWN-ARG: %d _shutdown call sites, floor 9 (14 on the confirmed tree)" % count)
    sh = ctx.index.func(TLSREC + "_shutdown")
    src = [norm(s) for s in sh.node.body]
    need = ["self._recordLayer.shutdown()", "self.closed = True"]
    for s_ in need:
        ctx.check(R, s_ in src, sh.qname, s_, "_shutdown must unconditionally do `%s`" % s_, sh.loc())
    okc = any(isinstance(s, ast.If) and norm(s.test) == "self.closeSocket" and
              any(norm(b) == "self.sock.close()" for b in s.body) for s in sh.node.body)
    ctx.check(R, okc, sh.qname, "if self.closeSocket: self.sock.close()",
              "_shutdown must close the socket when closeSocket is set", sh.loc())


def rule_alert(ctx):
    R = "C17.ALERT"
    fi = ctx.index.func(TLSREC + "_getMsg")
    g = ctx.an.cfg(fi)
    src = [n for n in g.nodes if n.kind == "stmt" and norm(n.ast) == "alert = Alert().parse(p)"]
    if not src:
        raise AnalysisError("C17.ALERT: alert arm of _getMsg not found")
    shut = nodes_with_call(g, "_shutdown")
    raises = [n for n in g.nodes if n.kind == "raise" and "TLSRemoteAlert(alert)" in norm(n.ast)]
    ctx.require(len(raises) >= 1, "C17.ALERT: raise TLSRemoteAlert(alert) not found")
    # from the alert parse, anything other than that raise must be unreachable on normal edges
    seen = g.reach(g.normal_succ(src[0]), blocked=raises, follow_exc=False)
    leaks = [n for n in g.nodes if n.id in seen and (is_value_yield(n) or n is g.exit or
                                                      (n.kind == "consume" and call_name(n.call) == "_getNextRecord"))]
    ctx.check(R, not leaks, fi.qname, "received alert always surfaces as TLSRemoteAlert",
              "after receiving an alert record _getMsg can continue (yield / read on) without raising "
              "TLSRemoteAlert", fi.loc(leaks[0].ast) if leaks and leaks[0].ast is not None else fi.loc(src[0].ast),
              path=lines(g.path(seen, leaks[0].id)) if leaks else None)
    # inside `if level == warning or description == close_notify:` the chain
    # `if description == close_notify: .. elif level == warning: ..` is exhaustive: when the
    # disjunction of the inner tests is implied by the outer test (decided over the finite
    # domain of both operands) the fall-through edge of the last inner test is infeasible
    cut = set()
    outer = [x for x in g.nodes if x.kind == "test" and "alert.level == AlertLevel.warning" in norm(x.expr)
             and "close_notify" in norm(x.expr)]
    inner1 = [x for x in g.nodes if x.kind == "test" and norm(x.expr) == "alert.description == AlertDescription.close_notify"]
    inner2 = [x for x in g.nodes if x.kind == "test" and norm(x.expr) == "alert.level == AlertLevel.warning"]
    if outer and inner1 and inner2:
        from ..condeval import ev
        dom = [(lv, ds) for lv in (1, 2) for ds in (0, 40)]
        implied = True
        for lv, ds in dom:
            env = {"alert.level": lv, "AlertLevel.warning": 1, "alert.description": ds,
                   "AlertDescription.close_notify": 0}
            if ev(outer[0].expr, env) and not (ev(inner1[0].expr, env) or ev(inner2[0].expr, env)):
                implied = False
        if implied:
            cut.add((inner2[0].id, "F"))
    must_pass(ctx, R, fi, g, src, raises, shut, "connection shut down before the alert is raised",
              "a received alert is raised to the caller without shutting the connection down", cut=cut)
    # the send of the courtesy close_notify may fail with socket.error only
    hs = [(tr, h, hn) for (tr, h, hn) in g.handlers if norm(h.type or ast.Name(id="")) == "socket.error"
          and [norm(b) for b in h.body] == ["pass"]]
    ctx.check(R, len(hs) == 1, fi.qname, "only socket.error is swallowed while answering close_notify",
              "the alert arm must swallow exactly socket.error of its courtesy close_notify", fi.loc())
    # level/description classification
    t = [x for x in g.nodes if x.kind == "test" and "alert.level == AlertLevel.warning" in norm(x.expr)
         and "close_notify" in norm(x.expr)]
    if t:
        check_cond(ctx, R, fi, t[0].ast, t[0].expr,
                   {"alert.level": [1, 2], "AlertLevel.warning": [1],
                    "alert.description": [0, 40], "AlertDescription.close_notify": [0]},
                   lambda e: e["alert.level"] == 1 or e["alert.description"] == 0,
                   "courtesy close_notify answered for warnings and close_notify only",
                   "only warning-level alerts and close_notify are answered with close_notify")


def rule_eof(ctx):
    R = "C17.EOF"
    fr = ctx.index.func("recordlayer:RecordSocket._sockRecvAll")
    g = ctx.an.cfg(fr)
    recv = [n for n in g.nodes if n.kind == "stmt" and "self.sock.recv(" in norm(n.ast)]
    # the chunk variable is whatever receives sock.recv(); the buffer whatever it is appended to
    chunk = norm(recv[0].ast.targets[0]) if recv and isinstance(recv[0].ast, ast.Assign) else "socketBytes"
    app = [n for n in g.nodes if n.kind == "stmt" and isinstance(n.ast, ast.AugAssign) and isinstance(n.ast.op, ast.Add)
           and chunk in {x.id for x in ast.walk(n.ast.value) if isinstance(x, ast.Name)}]
    tests = [t for t in g.nodes if t.kind == "test" and norm(t.expr) in ("len(%s) == 0" % chunk, "not %s" % chunk)]
    eff = [t for t in tests if "T" in dead_edge_labels(g, t, app)]
    okraise = any(n.kind == "raise" and "TLSAbruptCloseError" in norm(n.ast) for n in g.nodes)
    if not recv or not app:
        raise AnalysisError("C17.EOF: _sockRecvAll anchors not found")
    must_pass(ctx, R, fr, g, recv, app, eff, "EOF (empty read) raises before data is appended",
              "an empty read (peer closed the transport) is not turned into TLSAbruptCloseError")
    ctx.check(R, okraise, fr.qname, "raise TLSAbruptCloseError()", "EOF must raise TLSAbruptCloseError", fr.loc())
    fi = ctx.index.func(TLSREC + "readAsync")
    g = ctx.an.cfg(fi)
    for (tr, h, hn) in g.handlers:
        ty = norm(h.type or ast.Name(id=""))
        if ty == "TLSRemoteAlert":
            tests = [t for t in g.nodes if t.kind == "test" and t.ast in h.body]
            ok = len(h.body) == 1 and len(tests) == 1
            if ok:
                t = tests[0]
                seen = g.reach(g.succ_on(t, "T"), follow_exc=False)
                reraises = all(x.kind in ("raise",) for x in g.nodes if x.id in seen and x.ast in t.ast.body)
                ok = reraises and not t.ast.orelse and any(isinstance(b, ast.Raise) and b.exc is None for b in t.ast.body)
                ctx.check(R, ok, fi.qname, "remote alert re-raised unless it is close_notify",
                          "the remote-alert handler of readAsync must re-raise", fi.loc(h))
                check_cond(ctx, R, fi, t.ast, t.expr,
                           {"alert.description": [0, 10, 90], "AlertDescription.close_notify": [0],
                            "alert.level": [1, 2], "AlertLevel.warning": [1], "AlertLevel.fatal": [2]},
                           lambda e: e["alert.description"] != 0,
                           "close_notify is the only remote alert read() turns into end-of-data",
                           "read() must surface every remote alert except close_notify (a warning such as "
                           "user_canceled must not look like an orderly end of data)")
            else:
                ctx.fail(R, fi.qname, "TLSRemoteAlert handler of readAsync",
                         "handler shape not recognised (must be `if description != close_notify: raise`)", fi.loc(h))
        elif ty == "TLSAbruptCloseError":
            from .common import run_block
            from ..condeval import Unknown
            try:
                strict = run_block(h.body, {"self.ignoreAbruptClose": False})
                lax = run_block(h.body, {"self.ignoreAbruptClose": True})
                ok = strict == ("raise", ["raise"]) and lax == ("fall", ["self._shutdown(True)"])
            except (Unknown, TypeError):
                ok = False
            ctx.check(R, ok, fi.qname, "abrupt close re-raised unless ignoreAbruptClose",
                      "a transport EOF without close_notify must reach the reader as TLSAbruptCloseError "
                      "unless the user opted out", fi.loc(h))


def rule_postfail(ctx):
    """every catch-all handler that re-raises shuts the connection down non-resumably first."""
    R = "C17.POSTFAIL"
    table = [(TLSREC + "readAsync", "False"), (TLSREC + "writeAsync", "self.ignoreAbruptClose"),
             (TLSREC + "_decrefAsync", "False"), (TLSCONN + "_handshakeWrapperAsync", "False")]
    for q, arg in table:
        fi = ctx.index.func(q)
        g = ctx.an.cfg(fi)
        found = False
        for (tr, h, hn) in g.handlers:
            ty = norm(h.type) if h.type is not None else "<bare>"
            if ty not in ("<bare>", "Exception"):
                continue
            found = True
            body = [norm(b) for b in h.body]
            ok = len(body) == 2 and body[0] == "self._shutdown(%s)" % arg and body[1] == "raise"
            ctx.check(R, ok, fi.qname, "catch-all: self._shutdown(%s); raise" % arg,
                      "the catch-all handler of %s must shut the connection down (%s) and re-raise; found %s"
                      % (fi.short, arg, body), fi.loc(h))
            # it must enclose the whole operation: the try is the first/only statement of substance
            is_outer = any(s is tr for s in fi.node.body) or (
                any(isinstance(s, ast.If) and tr in s.body for s in fi.node.body))
            ctx.check(R, is_outer, fi.qname, "catch-all encloses the whole operation",
                      "the shutdown-on-failure handler no longer encloses the whole operation", fi.loc(tr))
        ctx.require(found, "C17.POSTFAIL: catch-all handler of %s not found" % q)
        gexit = [h for (tr, h, hn) in g.handlers if norm(h.type or ast.Name(id="")) == "GeneratorExit"]
        ctx.check(R, len(gexit) >= 1 and [norm(b) for b in gexit[0].body] == ["raise"], fi.qname,
                  "GeneratorExit passes through", "GeneratorExit must be re-raised untouched", fi.loc())
    fs = ctx.index.func(TLSREC + "_sendMsgThroughSocket")
    g = ctx.an.cfg(fs)
    raises = [n for n in g.nodes if n.kind == "raise" and "TLSRemoteAlert" in norm(n.ast)]
    shut = nodes_with_call(g, "_shutdown")
    hn = [hn for (tr, h, hn) in g.handlers if norm(h.type or ast.Name(id="")) == "socket.error"]
    if not hn or not raises:
        raise AnalysisError("C17.POSTFAIL: _sendMsgThroughSocket anchors not found")
    must_pass(ctx, R, fs, g, hn, raises, shut, "send failure during handshake: shutdown before raising peer alert",
              "a send failure during the handshake raises the peer's alert without shutting down")
    # ... and the peer's pending alert is read BEFORE the socket is shut down (afterwards the read
    # fails with a local error and what the caller sees depends on how the peer's bytes were chunked)
    reads = consumes_of(g, "_getNextRecord")
    if not reads:
        raise AnalysisError("C17.POSTFAIL: _getNextRecord consumption not found in _sendMsgThroughSocket")
    seen = g.reach(hn, blocked=reads)
    early = [x for x in shut if x.id in seen and x.id in g.reach_back(reads)]
    ctx.check(R, not early, fs.qname, "send failure during handshake: the peer's alert is read before _shutdown",
              "after a failed handshake write the connection is shut down before the pending record (the peer's "
              "alert) is read: the read then hits a closed socket and the caller gets a local error instead of "
              "the peer's alert, depending on transport timing", fs.loc(early[0].ast) if early else fs.loc())
    # outside the handshake the handler re-raises the socket error at once (decided by walking the handler
    # with the content type bound; nothing is run)
    from ..condeval import outcomes
    from .common import dead_edge_labels as _del
    ok = True
    for ct_ in (21, 23, 24):
        seen_raises, read_first = [], []

        def visit(n, ve, taint, seen_raises=seen_raises):
            if n.kind == "raise":
                seen_raises.append(norm(n.ast))
        out, both = outcomes(g, fs.node, {"msg.contentType": ct_, "ContentType.handshake": 22},
                             lambda t_: _del(g, t_, [g.exit]), start=hn, visit=visit)
        if {x for x, tt in out} != {"raise"} or seen_raises != ["raise"]:
            ok = False
    ctx.check(R, ok, fs.qname, "send failure outside the handshake re-raises the socket error",
              "a socket error while sending application data must be re-raised", fs.loc())
    # the fatal alert of _sendError really leaves: callers build flights with write buffering on, so the
    # alert is either sent unbuffered (buffering switched off on every path to the send) or flushed
    # before the exception is raised - closing the socket is not guaranteed (closeSocket=False)
    se = ctx.index.func(TLSREC + "_sendError")
    gs = ctx.an.cfg(se)
    sends = consumes_of(gs, "_sendMsg")
    rs = [n for n in gs.nodes if n.kind == "raise" and "TLSLocalAlert" in norm(n.ast)]
    if not sends or not rs:
        raise AnalysisError("C17.POSTFAIL: _sendError anchors not found")
    off = [n for n in gs.nodes if n.kind == "stmt" and norm(n.ast) == "self.sock.buffer_writes = False"]
    on = [n for n in gs.nodes if n.kind == "stmt" and isinstance(n.ast, ast.Assign)
          and any(attr_chain(t) == "self.sock.buffer_writes" for t in n.ast.targets) and n not in off]
    flushes = [n for n in gs.nodes if n.kind == "stmt" and "self.sock.flush()" in norm(n.ast)]
    unbuffered = not on and sends[0].id not in gs.reach([gs.entry], blocked=off)
    flushed = all(r.id not in gs.reach(gs.normal_succ(sends[0]), blocked=flushes, follow_exc=False) for r in rs) \
        and bool(flushes)
    ctx.check(R, unbuffered or flushed, se.qname, "the fatal alert is written through (unbuffered or flushed)",
              "_sendError can queue its alert in the write buffer and raise without flushing it: with "
              "closeSocket=False (or a transport that is not closed) the peer never receives the fatal alert",
              se.loc(sends[0].ast) if sends[0].ast is not None else se.loc())


def rule_closed(ctx):
    R = "C17.CLOSED"
    for q, sinkname in ((TLSREC + "writeAsync", "_sendMsg"), (TLSREC + "write_heartbeat", "_sendMsg"),
                        (TLSREC + "send_keyupdate_request", "_sendMsg")):
        fi = ctx.index.func(q)
        g = ctx.an.cfg(fi)
        sinks = consumes_of(g, sinkname)
        tests = [t for t in g.nodes if t.kind == "test" and norm(t.expr) == "self.closed"]
        eff = [t for t in tests if "T" in dead_edge_labels(g, t, sinks)]
        must_pass(ctx, R, fi, g, [g.entry], sinks, eff, "closed gate before sending in " + fi.short,
                  "%s can send on a closed connection" % fi.short, start_after=False)
        ok = any(n.kind == "raise" and "TLSClosedConnectionError" in norm(n.ast) for n in g.nodes)
        ctx.check(R, ok, fi.qname, "raises TLSClosedConnectionError", "a write on a closed connection must "
                  "raise TLSClosedConnectionError", fi.loc())
    n = 0
    for f in ctx.index.all_functions():
        if f.module.name not in ("tlsrecordlayer", "tlsconnection"):
            continue
        for x in own_nodes(f.node):
            if isinstance(x, ast.Assign) and any(attr_chain(t) == "self.closed" for t in x.targets):
                n += 1
                v = norm(x.value)
                ok = (f.name == "__init__" and v == "True") or (f.name == "_shutdown" and v == "True") or \
                    (f.name == "_handshakeDone" and v == "False")
                ctx.check(R, ok, f.qname, x, "`closed` is written outside __init__/_shutdown/_handshakeDone "
                          "or with the wrong value", f.loc(x))
    ctx.require(n >= 3, "C17.CLOSED: writes of self.closed not found")
    # reads on a closed connection return what is buffered: loop guard includes `not self.closed`
    fr = ctx.index.func(TLSREC + "readAsync")
    ok = any(isinstance(x, ast.While) and norm(x.test).endswith("and (not self.closed)") for x in own_nodes(fr.node))
    ctx.check(R, ok, fr.qname, "read loop stops when the connection is closed",
              "readAsync must stop reading records once the connection is closed", fr.loc())
    # no handshake I/O after completion in a flow
    for f in ctx.index.all_functions():
        if f.module.name != "tlsconnection":
            continue
        g = ctx.an.cfg(f)
        for d in nodes_with_call(g, "_handshakeDone"):
            if f.name == "_handshakeDone":
                continue
            seen = g.reach(g.normal_succ(d))
            late = [c for c in g.nodes if c.id in seen and c.kind in ("consume", "noreturn")
                    and call_name(c.call) in ("_getMsg", "_sendMsg", "_sendMsgs", "_getFinished", "_sendFinished")]
            ctx.check(R, not late, f.qname, "no handshake I/O after %s" % norm(d.ast),
                      "handshake messages are sent/received after the handshake was reported complete",
                      f.loc(late[0].ast) if late else f.loc(d.ast))


def rule_flush(ctx):
    R = "C17.FLUSH"
    fi = ctx.index.func("bufferedsocket:BufferedSocket.flush")
    g = ctx.an.cfg(fi)
    send = [n for n in g.nodes if n.ast is not None and n.kind == "stmt" and "self.socket.sendall(" in norm(n.ast)]
    clear = [n for n in g.nodes if n.kind == "stmt" and norm(n.ast) in ("self._write_queue.clear()",)]
    if not send:
        raise AnalysisError("C17.FLUSH: sendall in BufferedSocket.flush not found")
    must_pass(ctx, R, fi, g, [g.entry], send, clear, "write queue emptied before the send that may fail",
              "BufferedSocket.flush keeps the queued flight when sendall fails: close() (which flushes "
              "again) then fails before closing the socket and _shutdown never completes",
              start_after=False)
    for nm in ("close", "shutdown"):
        f = ctx.index.func("bufferedsocket:BufferedSocket." + nm)
        body = [norm(s) for s in f.node.body if not (isinstance(s, ast.Expr) and isinstance(s.value, ast.Constant))]
        ctx.check(R, body[:1] == ["self.flush()"] and body[-1] == "return self.socket.%s(%s)" % (
            nm, "how" if nm == "shutdown" else ""), f.qname, "%s flushes then delegates" % nm,
            "BufferedSocket.%s must flush and then %s the real socket" % (nm, nm), f.loc())


def rule_wrapper_handlers(ctx):
    """WRAPPER: a handshake that ends in any exception leaves the connection shut down and the session
    not resumable.  In _handshakeWrapperAsync every handler either calls _shutdown(False) or catches only
    what already did: GeneratorExit (the caller abandoned the coroutine) and the TLSAlert family (raised
    by _sendError / on a received alert, after their own _shutdown).  A wider class there - TLSError also
    covers TLSAbruptCloseError and TLSAuthenticationError - lets those failures through without shutdown."""
    R = "C17.WRAPPER"
    fi = ctx.index.func(TLSCONN + "_handshakeWrapperAsync")
    g = ctx.an.cfg(fi)
    outer = [(tr, h, hn) for (tr, h, hn) in g.handlers if any(
        isinstance(s_, ast.For) and norm(s_.iter) == "handshaker" for s_ in tr.body)]
    if not outer:
        raise AnalysisError("%s: the try around the handshaker loop not found" % R)
    n_catch_all = 0
    for tr, h, hn in outer:
        shuts = any(isinstance(x, ast.Call) and call_name(x) == "_shutdown" and x.args and norm(x.args[0]) == "False"
                    for s_ in h.body for x in ast.walk(s_))
        if h.type is None:
            n_catch_all += 1
            ctx.check(R, shuts, fi.qname, "catch-all handler shuts down", "the catch-all handler of the handshake "
                      "wrapper must call _shutdown(False)", fi.loc(h))
            continue
        if shuts:
            continue
        for e_ in (h.type.elts if isinstance(h.type, ast.Tuple) else [h.type]):
            nm = norm(e_)
            ok = nm == "GeneratorExit" or ctx.an.exc.is_sub(nm, "TLSAlert")
            ctx.check(R, ok, fi.qname, "handler for %s" % nm,
                      "the handshake wrapper lets `%s` pass without _shutdown(False); only GeneratorExit and the "
                      "TLSAlert family (which shut down where they are raised) may" % nm, fi.loc(h),
                      what="handler without shutdown catches only %s" % nm)
    if n_catch_all != 1:
        ctx.fail(R, fi.qname, "catch-all handler", "the handshake wrapper has no catch-all handler that shuts the "
                 "connection down", fi.loc())


def rule_alert_header(ctx):
    """ALERT-HEADER: a received record is taken for the peer's alert (and raised as TLSRemoteAlert) only
    on the strength of ITS OWN header: wherever `Alert().parse(p)` runs on a parser that came out of a
    record together with a header (`hdr, p = <record>`), a condition on that header's `type` guards it.
    A test on anything else (the message being sent, a flag) drops the peer's alert or misparses data."""
    from ..flow import reaching_defs
    from .c02 import _guards
    R = "C17.ALERT-HEADER"
    n = 0
    for fi in ctx.index.all_functions():
        if fi.module.name != "tlsrecordlayer":
            continue
        sites = [c for c in calls_in(fi.node) if call_name(c) == "parse" and isinstance(c.func, ast.Attribute)
                 and isinstance(c.func.value, ast.Call) and call_name(c.func.value) == "Alert"
                 and c.args and isinstance(c.args[0], ast.Name)]
        if not sites:
            continue
        g = ctx.an.cfg(fi)
        for c in sites:
            p = c.args[0].id
            cands = [nd for nd in g.nodes if nd.ast is not None and any(x is c for x in ast.walk(nd.ast))]
            if not cands:
                continue
            # the innermost CFG node that holds the call
            node = min(cands, key=lambda nd: (getattr(nd.ast, "end_lineno", 0) or 0) - (getattr(nd.ast, "lineno", 0) or 0))
            hdrs = set()
            for d in reaching_defs(g, node, p):
                a = d.ast
                if isinstance(a, ast.Assign) and len(a.targets) == 1 and isinstance(a.targets[0], ast.Tuple) \
                        and len(a.targets[0].elts) == 2 and all(isinstance(x, ast.Name) for x in a.targets[0].elts) \
                        and a.targets[0].elts[1].id == p:
                    hdrs.add(a.targets[0].elts[0].id)
            if not hdrs:
                continue
            n += 1
            stmt = next((s_ for s_ in ast.walk(fi.node) if isinstance(s_, ast.stmt) and not isinstance(s_, (ast.If, ast.For, ast.While, ast.Try, ast.With, ast.FunctionDef))
                         and any(x is c for x in ast.walk(s_))), None)
            guards = _guards(fi.node, stmt) or []
            ok = any(isinstance(x, ast.Attribute) and x.attr == "type" and isinstance(x.value, ast.Name) and x.value.id in hdrs
                     for t_, pol in guards for x in ast.walk(t_))
            ctx.check(R, ok, fi.qname, c,
                      "`%s` parses the received record as an alert without a test of that record's own header "
                      "(`%s.type`); its guards are: %s" % (norm(c), "/".join(sorted(hdrs)),
                                                          "; ".join(norm(t_) for t_, _ in guards)[:200] or "none"),
                      fi.loc(c), what="%s: alert parsed under a test of the received header" % fi.short)
    if n < 3:
        raise AnalysisError("%s: only %d alert-parsing sites with a header found (confirmed 3)" % (R, n))


RULES = [
    ("C17.ALERT-HEADER", "quick", rule_alert_header),
    ("C17.WRAPPER", "quick", rule_wrapper_handlers),
    ("C17.SHUTDOWN-ARG", "quick", rule_shutdown_arg),
    ("C17.ALERT", "quick", rule_alert),
    ("C17.EOF", "quick", rule_eof),
    ("C17.POSTFAIL", "quick", rule_postfail),
    ("C17.CLOSED", "quick", rule_closed),
    ("C17.FLUSH", "quick", rule_flush),
    ("C17.SAME-SESSION", "quick", borrowed("c13", "rule_srv_gates", "C13.SRV-GATES", "C17.SAME-SESSION")),
    # a session marked not resumable by a fatal error is never offered or accepted again
    ("C17.INVALIDATE", "quick", borrowed("c13", "rule_invalidate", "C13.INVALIDATE", "C17.INVALIDATE")),
]
