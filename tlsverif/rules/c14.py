"""C14 - results do not depend on how the transport chunks, delays or blocks."""
import ast

from ..index import AnalysisError, attr_chain, norm, own_nodes
from ..query import calls_in, call_name, is_value_yield
from ..condeval import check_cond
from .common import borrowed
from .common import (TLSCONN, TLSREC, RECLAYER, nodes_with_call, consumes_of, dead_edge_labels,
                     must_pass, rule_consume)
from . import c01

EXPLANATION = (
    "Suspension-discipline rules. CONSUME: every one of the ~320 generator call sites is consumed by "
    "an accepted idiom, so a suspended sub-operation is always resumed by its consumer and its 0/1 "
    "(want read / want write) indication is forwarded unchanged. WOULDBLOCK: in _sockSendAll every "
    "suspension yields 1 (want write), the would-block handler retries the same data and a partial "
    "send keeps exactly the unsent tail; in _sockRecvAll every suspension yields 0 (want read), each "
    "recv asks for exactly the missing bytes, data is delivered only when complete and EOF raises; any "
    "other socket error is re-raised. DRAIN: the blocking calls are pure drains of their asynchronous "
    "counterparts. SEAMS: buffer seams are complementary (C01.SPLIT) and transcript updates use whole "
    "messages on both sides (C04.TRANSCRIPT) so results do not depend on record boundaries. ASM: "
    "AsyncStateMachine's inReadEvent and inWriteEvent resume the same set of pending operations in "
    "the same priority order, every entry point checks the single-operation invariant inside a "
    "clearing handler, and each _do*Op clears its slot on completion.")
NOT_DECIDED = ("equality of outcomes across concrete schedules of recv/send sizes and would-block "
               "occurrences (needs executions); behaviour of user transports")
TECHNIQUE = ("idiom classification of generator consumption, yield-direction typestate on socket loops, sibling "
             "agreement; fragmentation by interpreting _sendMsg's source over sample message lengths (checker's own "
             "AST evaluator)")


def rule_consume_c14(ctx):
    rule_consume(ctx, "C14.CONSUME")


def _yield_consts(g):
    return [n for n in g.nodes if n.kind == "stmt" and isinstance(n.ast, ast.Expr)
            and isinstance(n.ast.value, ast.Yield) and isinstance(n.ast.value.value, ast.Constant)]


def rule_wouldblock(ctx):
    R = "C14.WOULDBLOCK"
    fs = ctx.index.func("recordlayer:RecordSocket._sockSendAll")
    g = ctx.an.cfg(fs)
    ys = _yield_consts(g)
    ctx.require(len(ys) >= 2, "C14.WOULDBLOCK: suspension points of _sockSendAll not found")
    for y in ys:
        ctx.check(R, y.ast.value.value.value == 1, fs.qname, "send suspension yields 1 (want write) #%d" % y.line,
                  "_sockSendAll suspends with %r: an event loop driven by the indication would wait for the "
                  "wrong direction and stall" % y.ast.value.value.value, fs.loc(y.ast))
    hs = [(tr, h, hn) for (tr, h, hn) in g.handlers if norm(h.type or ast.Name(id="")) == "socket.error"]
    from .common import run_block, module_constants
    from ..condeval import Unknown
    ERR = {"errno.EWOULDBLOCK": 11, "errno.EAGAIN": 35}
    consts = module_constants(ctx, "recordlayer", ERR)

    def handler_ok(h, token):
        """the handler's body, decided for each errno: suspend + retry for the two would-block codes,
        re-raise for anything else"""
        try:
            res = {}
            for code in (11, 35, 104, 32):
                env = dict(consts)
                env[(h.name or "why") + ".args[0]"] = code
                res[code] = run_block(h.body, env)
        except (Unknown, TypeError):
            return False
        retry = ("continue", ["yield %d" % token, "continue"])
        return res[11] == retry and res[35] == retry and res[104] == ("raise", ["raise"]) and res[32] == ("raise", ["raise"])
    ok = len(hs) == 1 and handler_ok(hs[0][1], 1)
    ctx.check(R, ok, fs.qname, "would-block on send: yield 1, retry; other errors re-raised",
              "the send error handler must suspend with 1 and retry for EWOULDBLOCK/EAGAIN and re-raise "
              "everything else", fs.loc())
    src = [norm(n.ast) for n in g.nodes if n.kind in ("stmt",) and n.ast is not None]
    from .common import pmatch
    b_ = pmatch(["$n = self.sock.send(data)", "data = data[$n:]"], src)
    ok = b_ is not None
    t = [x for x in g.nodes if x.kind == "test" and b_ and norm(x.expr) == "%s == len(data)" % b_["n"]]
    ok = ok and bool(t) and any(m.kind == "return" for m in g.succ_on(t[0], "T"))
    ctx.check(R, ok, fs.qname, "complete send returns; partial send keeps the unsent tail",
              "_sockSendAll must return when everything was sent and otherwise keep exactly data[bytesSent:]",
              fs.loc())
    # the retry sends the SAME data: no re-binding of data on the would-block path
    fr = ctx.index.func("recordlayer:RecordSocket._sockRecvAll")
    gr = ctx.an.cfg(fr)
    ys = _yield_consts(gr)
    ctx.require(len(ys) >= 1, "C14.WOULDBLOCK: suspension points of _sockRecvAll not found")
    for y in ys:
        ctx.check(R, y.ast.value.value.value == 0, fr.qname, "receive suspension yields 0 (want read) #%d" % y.line,
                  "_sockRecvAll suspends with %r instead of 0 (want read)" % y.ast.value.value.value, fr.loc(y.ast))
    from .common import resolved_text
    src = [norm(n.ast) for n in gr.nodes if n.kind == "stmt" and n.ast is not None]
    rsrc = src + [resolved_text(fr.node, n.ast) for n in gr.nodes if n.kind == "stmt" and n.ast is not None
                  and isinstance(n.ast, ast.Assign)]
    rb = pmatch(["$c = self.sock.recv(length - len($b))", "$b += bytearray($c)"], rsrc + src)
    if rb is None:      # the request size hoisted into a local: resolve the call's argument
        for n in gr.nodes:
            if n.kind == "stmt" and isinstance(n.ast, ast.Assign) and isinstance(n.ast.value, ast.Call) \
                    and norm(n.ast.value.func) == "self.sock.recv" and n.ast.value.args:
                arg = resolved_text(fr.node, n.ast.value.args[0])
                rb = pmatch(["length - len($b)"], [arg])
                if rb is not None:
                    rb["c"] = norm(n.ast.targets[0])
                    if ("%s += bytearray(%s)" % (rb["b"], rb["c"])) not in src:
                        rb = None
    ctx.check(R, rb is not None, fr.qname,
              "each recv asks for exactly the missing bytes",
              "_sockRecvAll must request exactly length - len(buf) bytes (more would swallow the next record, "
              "a constant would depend on chunking)", fr.loc())
    B = rb["b"] if rb else "buf"
    vy = [n for n in gr.nodes if is_value_yield(n) and norm(n.ast) == "yield %s" % B]
    t = [x for x in gr.nodes if x.kind == "test" and norm(x.expr) == "len(%s) == length" % B]
    okd = bool(t) and len(vy) == 2 and any(v in gr.succ_on(t[0], "T") for v in vy)
    z = [x for x in gr.nodes if x.kind == "test" and norm(x.expr) == "length == 0"]
    okd = okd and bool(z) and any(v in gr.succ_on(z[0], "T") for v in vy)
    ctx.check(R, okd, fr.qname, "data delivered only when complete", "_sockRecvAll must deliver the buffer exactly "
              "when it holds `length` bytes", fr.loc())
    hr = [(tr, h, hn) for (tr, h, hn) in gr.handlers if norm(h.type or ast.Name(id="")) == "socket.error"]
    ok = len(hr) == 1 and handler_ok(hr[0][1], 0)
    ctx.check(R, ok, fr.qname, "would-block on receive: yield 0, retry; other errors re-raised",
              "the receive error handler must suspend with 0 and retry for EWOULDBLOCK/EAGAIN and re-raise "
              "everything else", fr.loc())
    app = [n for n in gr.nodes if n.kind == "stmt" and rb and norm(n.ast) == "%s += bytearray(%s)" % (rb["b"], rb["c"])]
    ctx.check(R, len(app) == 1, fr.qname, "received bytes appended in order", "received bytes must be appended "
              "to the buffer", fr.loc())


def rule_drain(ctx):
    R = "C14.DRAIN"
    pairs = [(TLSREC + "read", "readAsync"), (TLSREC + "write", "writeAsync"), (TLSREC + "close", "_decrefAsync"),
             (TLSCONN + "handshakeServer", "handshakeServerAsync"),
             (TLSREC + "send_heartbeat_request", "write_heartbeat")]
    for q, gen in pairs:
        fi = ctx.index.func(q)
        body = [s for s in fi.node.body if not (isinstance(s, ast.Expr) and isinstance(s.value, ast.Constant))]
        loops = [s for s in ast.walk(fi.node) if isinstance(s, ast.For)]
        ok = len(loops) == 1 and isinstance(loops[0].iter, ast.Call) and call_name(loops[0].iter) == gen
        if ok:
            lb = loops[0].body
            ok = (len(lb) == 1 and isinstance(lb[0], ast.Pass)) or \
                 (q.endswith(".read") and all(isinstance(s, (ast.Pass, ast.Return, ast.Expr, ast.Assign)) for s in lb))
        others = [s for s in body if not isinstance(s, (ast.For, ast.Return, ast.If))]
        ctx.check(R, ok, fi.qname, "%s is a pure drain of %s" % (fi.short, gen),
                  "the blocking call %s no longer simply drains %s: blocking and asynchronous use would "
                  "behave differently" % (fi.short, gen), fi.loc())
    for nm in ("handshakeClientAnonymous", "handshakeClientSRP", "handshakeClientCert"):
        fi = ctx.index.func(TLSCONN + nm)
        loops = [s for s in ast.walk(fi.node) if isinstance(s, ast.For) and norm(s.iter) == "handshaker"]
        ok = len(loops) == 1 and len(loops[0].body) == 1 and isinstance(loops[0].body[0], ast.Pass)
        asg = [s for s in own_nodes(fi.node) if isinstance(s, ast.Assign) and norm(s.targets[0]) == "handshaker"
               and call_name(s.value) == "_handshakeClientAsync"]
        ctx.check(R, ok and len(asg) == 1, fi.qname, "%s drains _handshakeClientAsync unless async_" % nm,
                  "%s must create the asynchronous handshaker and, in blocking mode, simply drain it" % nm, fi.loc())


def rule_asm(ctx):
    R = "C14.ASM"
    cls = ctx.index.cls("integration.asyncstatemachine:AsyncStateMachine")
    def chain(fn):
        out = []
        for n in own_nodes(fn.node):
            if isinstance(n, ast.Try):
                for s in n.body:
                    if isinstance(s, ast.If):
                        cur = s
                        while True:
                            out.append((norm(cur.test), [norm(b) for b in cur.body]))
                            if len(cur.orelse) == 1 and isinstance(cur.orelse[0], ast.If):
                                cur = cur.orelse[0]
                            else:
                                out.append(("else", [norm(b) for b in cur.orelse]))
                                break
        return out
    r, w = chain(cls.methods["inReadEvent"]), chain(cls.methods["inWriteEvent"])
    want = [("self.handshaker", ["self._doHandshakeOp()"]), ("self.closer", ["self._doCloseOp()"]),
            ("self.reader", ["self._doReadOp()"]), ("self.writer", ["self._doWriteOp()"])]
    for nm, c in (("inReadEvent", r), ("inWriteEvent", w)):
        f = cls.methods[nm]
        ctx.check(R, c[:4] == want, f.qname, "%s resumes handshake, close, read, write - whichever is pending" % nm,
                  "%s must resume the pending operation whatever it is (a read may be waiting to write its "
                  "close_notify/KeyUpdate reply, a write may be waiting to read): arms found %s" % (nm, [a for a, _ in c]),
                  f.loc())
    ctx.check(R, [a for a, _ in r[:4]] == [a for a, _ in w[:4]], cls.qname, "read and write events agree on pending operations",
              "inReadEvent and inWriteEvent disagree on which pending operations they resume", cls.methods["inWriteEvent"].loc())
    for nm in ("inReadEvent", "inWriteEvent", "setHandshakeOp", "setCloseOp", "setWriteOp"):
        f = cls.methods[nm]
        tr = [n for n in own_nodes(f.node) if isinstance(n, ast.Try)]
        ok = len(tr) == 1 and isinstance(tr[0].body[0], ast.Expr) and call_name(tr[0].body[0].value) == "_checkAssert" \
            and len(tr[0].handlers) == 1 and tr[0].handlers[0].type is None and \
            [norm(b) for b in tr[0].handlers[0].body] == ["self._clear()", "raise"]
        ctx.check(R, ok, f.qname, "%s: _checkAssert first, failures clear the machine and propagate" % nm,
                  "%s must check the single-active-operation invariant first and, on any failure, clear all "
                  "pending operations and re-raise" % nm, f.loc())
    for nm, slot in (("_doHandshakeOp", "handshaker"), ("_doCloseOp", "closer"), ("_doWriteOp", "writer")):
        f = cls.methods[nm]
        tr = [n for n in own_nodes(f.node) if isinstance(n, ast.Try)]
        ok = len(tr) == 1 and [norm(b) for b in tr[0].body] == ["self.result = next(self.%s)" % slot] and \
            norm(tr[0].handlers[0].type) == "StopIteration" and \
            [norm(b) for b in tr[0].handlers[0].body][:2] == ["self.%s = None" % slot, "self.result = None"]
        ctx.check(R, ok, f.qname, "%s advances its generator once and clears the slot on completion" % nm,
                  "%s must call next() on self.%s once, record the indication and clear the slot when the "
                  "operation finished" % (nm, slot), f.loc())
    f = cls.methods["_doReadOp"]
    src = [norm(s) for s in own_nodes(f.node) if isinstance(s, (ast.Assign, ast.Expr))]
    ok = "self.result = next(self.reader)" in src and "self.reader = None" in src and "self.outReadEvent(readBuffer)" in src
    ctx.check(R, ok, f.qname, "_doReadOp delivers the data and clears the slot", "_doReadOp must deliver the read "
              "data through outReadEvent and clear the reader", f.loc())
    # which indications finish a read: 0 (wants read) and 1 (wants write) both keep it pending
    from .common import spec_rows
    spec_rows(ctx, R, f.qname, [
        dict(what="_doReadOp keeps the read pending on 0 and on 1, finishes it on data",
             dom={"self.result": [0, 1, b"x", b""]}, abort=lambda e: False,
             effects={"self.reader = None": lambda e: e["self.result"] not in (0, 1)},
             msg="a read that yields 0 (waiting to read) or 1 (waiting to write its own reply) is still in "
                 "progress; anything else is the data and ends the operation")])
    # the machine gets no further read event for plaintext already decrypted and buffered: one read
    # must be able to deliver a whole maximum-size record, independent of any negotiated/outgoing size
    from ..condeval import ev, Unknown
    nreads = 0
    for m in cls.methods.values():
        for c in calls_in(m.node):
            if call_name(c) != "readAsync":
                continue
            nreads += 1
            arg = c.args[0] if c.args else next((k.value for k in c.keywords if k.arg == "max"), None)
            try:
                val = None if arg is None else ev(arg, {})
                ok = val is None or val >= 2 ** 14
                why = "asks for %r bytes" % val
            except (Unknown, TypeError):
                ok, why = False, "asks for `%s` bytes, a run-time quantity" % norm(arg)
            ctx.check(R, ok, m.qname, "readAsync request covers a whole maximum-size record",
                      "AsyncStateMachine %s: a record larger than the request leaves its tail buffered with no "
                      "socket event to deliver it (the result then depends on how the peer's writes were "
                      "chunked into records)" % why, m.loc(c))
    ctx.require(nreads >= 1, "C14.ASM: readAsync call of AsyncStateMachine not found")
    for nm, val in (("wantsReadEvent", 0), ("wantsWriteEvent", 1)):
        f = cls.methods[nm]
        # decided by evaluating the accessor's body for each indication (nothing is run)
        from ..condeval import _call, Rec, Unknown
        try:
            got = {r: _call(f, [Rec(result=r)], {"__index__": ctx.index}) for r in (None, 0, 1, 2)}
            ok = got[None] is None and all(bool(got[r]) == (r == val) for r in (0, 1, 2))
        except (Unknown, TypeError, AttributeError):
            ok = False
        ctx.check(R, ok, f.qname, "%s reports result == %d" % (nm, val),
                  "%s must report exactly the indication %d" % (nm, val), f.loc())


def rule_seams(ctx):
    c01.rule_split(_R(ctx, "C01.SPLIT", "C14.SEAMS"))
    c01.rule_frag(_R(ctx, "C01.FRAG", "C14.SEAMS"))      # message -> records seam on the send side
    ms = ctx.index.func("messagesocket:MessageSocket.flush") if ctx.index.has_func("messagesocket:MessageSocket.flush") else None
    if ms is not None:
        src = [norm(s) for s in own_nodes(ms.node) if isinstance(s, ast.Assign)]
        ok = any(s.startswith("msg_data = data[:self.recordSize]") or "[:self.recordSize]" in s for s in src) and \
            any("[self.recordSize:]" in s for s in src)
        ctx.check("C14.SEAMS", ok, ms.qname, "MessageSocket.flush fragments with complementary slices",
                  "MessageSocket.flush must split its queue at recordSize without loss", ms.loc())
    # handshake messages are re-assembled independently of record boundaries
    nr = ctx.index.func(TLSREC + "_getNextRecord")
    g = ctx.an.cfg(nr)
    add = [n for n in g.nodes if n.kind == "stmt" and "self._defragmenter.add_data(header.type, parser.bytes)" in norm(n.ast)]
    get = [n for n in g.nodes if n.kind == "stmt" and "self._defragmenter.get_message()" in norm(n.ast)]
    rec = consumes_of(g, "_getNextRecordFromSocket")
    ctx.check("C14.SEAMS", bool(add) and bool(get) and bool(rec), nr.qname,
              "records feed the defragmenter; complete messages are taken from it",
              "_getNextRecord must buffer handshake/alert/CCS fragments and deliver complete messages", nr.loc())
    if get and rec:
        # buffered complete messages are delivered before another record is read
        seen = g.reach([g.entry], blocked=get)
        ctx.check("C14.SEAMS", rec[0].id not in seen, nr.qname, "buffered messages drained before the next read",
                  "a new record can be read while complete messages are still buffered (order would depend on "
                  "how messages were packed into records)", nr.loc())


class _R(object):
    def __init__(self, ctx, old, new):
        self._c, self._o, self._n = ctx, old, new

    def __getattr__(self, k):
        return getattr(self._c, k)

    def _r(self, rule):
        return self._n if rule == self._o else rule

    def ok(self, rule, *a, **k):
        return self._c.ok(self._r(rule), *a, **k)

    def fail(self, rule, *a, **k):
        return self._c.fail(self._r(rule), *a, **k)

    def check(self, rule, *a, **k):
        return self._c.check(self._r(rule), *a, **k)

    def require(self, *a, **k):
        return self._c.require(*a, **k)


def rule_forward(ctx):
    """FORWARD: the blocking entry points are thin wrappers that hand their own parameters to the
    generator versions; blocking and step-wise use must therefore mean the same call.  Wherever a method
    of TLSConnection / TLSRecordLayer passes three or more of its own parameters, by position, to another
    method of the same class family that has parameters of those names, each name stands at the position
    of the callee's parameter of that name (a swapped pair hands `checker` in as `reqCAs`)."""
    R = "C14.FORWARD"
    fams = [f for f in ctx.index.all_functions() if f.cls is not None and f.cls.name in ("TLSConnection", "TLSRecordLayer")]
    by_name = {}
    for f in fams:
        by_name.setdefault(f.name, []).append(f)
    n = 0
    for f in fams:
        own = {a.arg for a in f.node.args.args}
        for c in calls_in(f.node):
            nm = call_name(c)
            if not (isinstance(c.func, ast.Attribute) and isinstance(c.func.value, ast.Name) and c.func.value.id == "self"
                    and nm in by_name and len(by_name[nm]) == 1):
                continue
            callee = [a.arg for a in by_name[nm][0].node.args.args][1:]
            passed = [(i, a.id) for i, a in enumerate(c.args) if isinstance(a, ast.Name) and a.id in own and a.id in callee]
            if len(passed) < 3:
                continue
            n += 1
            wrong = [(i, a, callee.index(a)) for i, a in passed if i < len(callee) and callee[i] != a]
            ctx.check(R, not wrong, f.qname, c,
                      "%s passes its parameter `%s` to %s at position %d, where %s expects `%s` (its `%s` is at "
                      "position %d): the two ways of making the same call no longer mean the same" % (
                          f.short, wrong[0][1] if wrong else "", nm, (wrong[0][0] + 1) if wrong else 0, nm,
                          callee[wrong[0][0]] if wrong else "", wrong[0][1] if wrong else "",
                          (wrong[0][2] + 1) if wrong else 0), f.loc(c),
                      what="%s forwards its parameters to %s in the callee's order" % (f.short, nm))
    if n < 5:
        raise AnalysisError("%s: only %d forwarding calls found" % (R, n))


RULES = [
    ("C14.FORWARD", "quick", rule_forward),
    ("C14.CONSUME", "quick", rule_consume_c14),
    ("C14.WOULDBLOCK", "quick", rule_wouldblock),
    ("C14.DRAIN", "quick", rule_drain),
    ("C14.ASM", "quick", rule_asm),
    ("C14.SEAMS", "quick", rule_seams),
    ("C14.POSTFAIL", "quick", borrowed("c17", "rule_postfail", "C17.POSTFAIL", "C14.POSTFAIL")),
    # how the byte stream is cut into records must not matter below TLS 1.3: the record-boundary gates
    ("C14.RECORD-GATES", "quick", borrowed("c06", "rule_record_gates", "C06.RECORD-GATES", "C14.RECORD-GATES")),
]
