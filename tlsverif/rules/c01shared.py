"""Record-layer bookkeeping rules shared by C01 and C02 (DIR, SEQ, AAD, ROLE) and C16 (KU)."""
import ast
import re

from ..index import AnalysisError, attr_chain, norm, own_nodes
from ..query import calls_in, call_name
from .common import RECLAYER

SEND_SIDE = ["_macThenEncrypt", "_encryptThenMAC", "_encryptThenSeal", "_ssl2Encrypt", "sendRecord",
             "changeWriteState", "calcTLS1_3KeyUpdate_reciever"]
RECV_SIDE = ["_decryptStreamThenMAC", "_decryptThenMAC", "_macThenDecrypt", "_decryptAndUnseal",
             "_decryptSSL2", "recvRecord", "changeReadState", "calcTLS1_3KeyUpdate_sender"]
WRITE_STATES = {"_writeState", "_pendingWriteState"}
READ_STATES = {"_readState", "_pendingReadState"}


def _self_attrs(fn):
    return {x.attr for x in ast.walk(fn) if isinstance(x, ast.Attribute)
            and isinstance(x.value, ast.Name) and x.value.id == "self"}


def rule_dir(ctx, R):
    """send-side functions touch only write states, receive-side only read states."""
    for nm in SEND_SIDE:
        fi = ctx.index.func(RECLAYER + nm)
        bad = _self_attrs(fi.node) & READ_STATES
        ctx.check(R, not bad, fi.qname, "%s uses only the write direction's state" % nm,
                  "send-side function %s touches %s: the two directions must never share keys or sequence "
                  "numbers (a reflected record would verify)" % (nm, sorted(bad)), fi.loc())
    for nm in RECV_SIDE:
        fi = ctx.index.func(RECLAYER + nm)
        bad = _self_attrs(fi.node) & WRITE_STATES
        ctx.check(R, not bad, fi.qname, "%s uses only the read direction's state" % nm,
                  "receive-side function %s touches %s" % (nm, sorted(bad)), fi.loc())


def rule_seq(ctx, R):
    cs = ctx.index.func("recordlayer:ConnectionState.getSeqNumBytes")
    src = [norm(s) for s in cs.node.body if not (isinstance(s, ast.Expr) and isinstance(s.value, ast.Constant))]
    ok = src == ["writer = Writer()", "writer.add(self.seqnum, 8)", "self.seqnum += 1", "return writer.bytes"]
    ctx.check(R, ok, cs.qname, "getSeqNumBytes: encode 8 bytes, then increment by one",
              "getSeqNumBytes must return the current 64-bit sequence number and then increment it by "
              "exactly one; it does: %s" % src, cs.loc())
    users = ["_macThenEncrypt", "_encryptThenMAC", "_encryptThenSeal", "_ssl2Encrypt",
             "_decryptStreamThenMAC", "_decryptThenMAC", "_macThenDecrypt", "_decryptAndUnseal", "_decryptSSL2"]
    for nm in users:
        fi = ctx.index.func(RECLAYER + nm)
        g = ctx.an.cfg(fi)
        calls = [n for n in g.nodes if n.expr is not None and
                 any(call_name(c) == "getSeqNumBytes" for c in calls_in(n.expr))]
        side = "_writeState" if nm in SEND_SIDE else "_readState"
        ok = len(calls) == 1 and ("self.%s.getSeqNumBytes()" % side) in norm(calls[0].ast)
        if ok:
            seen = g.reach(g.normal_succ(calls[0]))
            ok = calls[0].id not in seen           # not in a loop: at most once per record
        ctx.check(R, ok, fi.qname, "%s consumes one sequence number of its own direction" % nm,
                  "%s must take exactly one sequence number per record from self.%s (found %d call sites): "
                  "sender and receiver would fall out of step" % (nm, side, len(calls)), fi.loc())
        # every normal return with a MAC/AEAD context present passed the call
        if calls:
            ctxattr = "macContext" if nm in ("_macThenEncrypt", "_encryptThenMAC", "_decryptStreamThenMAC",
                                             "_macThenDecrypt") else None
            from ..query import falsy_edges
            cut = set()
            if ctxattr:
                cut |= falsy_edges(g, "self.%s.%s" % (side, ctxattr))     # paths on which a MAC context exists
            if nm == "_decryptThenMAC":
                cut |= falsy_edges(g, "self._readState.encContext")
            # rejection flags (`macGood = False`): C02.GATE-STREAM shows they lead only to a raise
            rej = [n for n in g.nodes if n.kind == "stmt" and isinstance(n.ast, ast.Assign)
                   and isinstance(n.ast.value, ast.Constant) and n.ast.value.value is False
                   and norm(n.ast.targets[0]).endswith("Good")]
            seen = g.reach([g.entry], blocked=calls + rej, cut=cut, follow_exc=False)
            rets = [n for n in g.nodes if n.kind == "return" and n.id in seen]
            early_ok = all(_is_public_reject(g, r) for r in rets)
            ctx.check(R, not rets or early_ok, fi.qname, "%s: no accepting path skips the sequence number" % nm,
                      "%s can return a protected/accepted record without consuming a sequence number" % nm,
                      fi.loc(rets[0].ast) if rets else fi.loc())


def _is_public_reject(g, r):
    return False


def rule_aad(ctx, R):
    """sender and receiver build the same MAC input and AEAD additional data."""
    cm = ctx.index.func(RECLAYER + "calculateMAC")
    def updates(fn_node, macname):
        out = []
        for st in ast.walk(fn_node):
            if isinstance(st, ast.Expr) and isinstance(st.value, ast.Call) and \
                    isinstance(st.value.func, ast.Attribute) and st.value.func.attr == "update" and \
                    norm(st.value.func.value) == macname:
                out.append((st.lineno, norm(st.value.args[0])))
        return [s for _, s in sorted(out)]
    snd = updates(cm.node, "mac")
    want_snd = ["compatHMAC(seqnumBytes)", "compatHMAC(bytearray([contentType]))",
                "compatHMAC(bytearray([self.version[0]]))", "compatHMAC(bytearray([self.version[1]]))",
                "compatHMAC(bytearray([len(data) // 256]))", "compatHMAC(bytearray([len(data) % 256]))",
                "compatHMAC(data)"]
    ctx.check(R, snd == want_snd, cm.qname, "MAC input = seq | type | version | length | data",
              "calculateMAC feeds %s; RFC 5246 6.2.3.1 requires seq_num, type, version, length, fragment" % snd,
              cm.loc())
    ver = [n for n in own_nodes(cm.node) if isinstance(n, ast.If) and norm(n.test) == "self.version != (3, 0)"]
    okv = len(ver) == 1 and [norm(s) for s in ver[0].body] == [
        "mac.update(compatHMAC(bytearray([self.version[0]])))", "mac.update(compatHMAC(bytearray([self.version[1]])))"]
    ctx.check(R, okv, cm.qname, "version bytes omitted only for SSLv3", "the version bytes are part of the MAC "
              "input for every version except SSLv3", cm.loc())
    ct = ctx.index.func("utils.constanttime:ct_check_cbc_mac_and_pad")
    rcv = updates(ct.node, "data_mac")
    want_rcv = ["compatHMAC(seqnumBytes)", "compatHMAC(bytearray([contentType]))",
                "compatHMAC(bytearray([version[0]]))", "compatHMAC(bytearray([version[1]]))",
                "compatHMAC(bytearray([mac_start >> 8]))", "compatHMAC(bytearray([mac_start & 255]))",
                "compatHMAC(data[:start_pos])"]
    ctx.check(R, rcv == want_rcv, ct.qname, "receiver's CBC MAC header has the sender's shape",
              "ct_check_cbc_mac_and_pad feeds %s as MAC header; the sender feeds seq | type | version | "
              "length (high, low byte) | data" % rcv, ct.loc())
    verr = [n for n in own_nodes(ct.node) if isinstance(n, ast.If) and norm(n.test) == "version != (3, 0)"
            and any("data_mac.update" in norm(s) for s in n.body)]
    ctx.check(R, len(verr) == 1, ct.qname, "receiver omits version bytes only for SSLv3",
              "receiver and sender disagree on when the version is part of the MAC input", ct.loc())
    # AEAD additional data
    es = ctx.index.func(RECLAYER + "_encryptThenSeal")
    du = ctx.index.func(RECLAYER + "_decryptAndUnseal")
    def auth(fn, seqname):
        out = {}
        for n in own_nodes(fn.node):
            if isinstance(n, ast.Assign) and norm(n.targets[0]) == "authData":
                out[n.lineno] = norm(n.value)
        return [v for k, v in sorted(out.items())]
    a_s, a_r = auth(es, "seqNumBytes"), auth(du, "seqnumBytes")
    ok_s = len(a_s) == 2 and a_s[0] == ("seqNumBytes + bytearray([contentType, self.version[0], self.version[1], "
                                        "len(buf) // 256, len(buf) % 256])")
    ok_r = len(a_r) == 2 and a_r[0] == ("seqnumBytes + bytearray([header.type, self.version[0], self.version[1], "
                                        "plaintextLen // 256, plaintextLen % 256])") and a_r[1] == "header.write()"
    ctx.check(R, ok_s, es.qname, "TLS 1.2 AEAD additional data (sender) = seq | type | version | plaintext length",
              "sender's AEAD additional data is %s" % a_s, es.loc())
    ctx.check(R, ok_r, du.qname, "TLS 1.2 AEAD additional data (receiver) = seq | type | version | plaintext length",
              "receiver's AEAD additional data is %s" % a_r, du.loc())
    pl = [n for n in own_nodes(du.node) if isinstance(n, ast.Assign) and norm(n.targets[0]) == "plaintextLen"]
    ctx.check(R, bool(pl) and norm(pl[0].value) == "len(buf) - self._readState.encContext.tagLength", du.qname,
              "receiver's plaintext length = ciphertext - tag", "the receiver must authenticate the plaintext "
              "length (ciphertext length minus tag length)", du.loc())
    # the sequence-number bytes are the implicit counter on both sides and are never re-bound
    for fn, nm, state in ((es, "seqNumBytes", "_writeState"), (du, "seqnumBytes", "_readState")):
        defs = [n for n in own_nodes(fn.node) if isinstance(n, (ast.Assign, ast.AugAssign)) and any(
            attr_chain(t) == nm for t in (n.targets if isinstance(n, ast.Assign) else [n.target]))]
        ok = len(defs) == 1 and norm(defs[0].value) == "self.%s.getSeqNumBytes()" % state
        ctx.check(R, ok, fn.qname, "%s is the implicit per-direction counter, bound once" % nm,
                  "%s must only ever hold the implicit sequence number of %s (it is bound %d times): if "
                  "the additional data or nonce followed a value carried in the record, replayed and "
                  "reordered records would verify" % (nm, state, len(defs)), fn.loc())
    # TLS 1.3 sender header: recreated record header with the output length
    ok13 = len(a_s) == 2 and a_s[1] == ("bytearray([contentType, self._recordSocket.version[0], "
                                        "self._recordSocket.version[1], out_len // 256, out_len % 256])")
    ol = [n for n in own_nodes(es.node) if isinstance(n, ast.Assign) and norm(n.targets[0]) == "out_len"]
    ok13 = ok13 and bool(ol) and norm(ol[0].value) == "len(buf) + self._writeState.encContext.tagLength"
    ctx.check(R, ok13, es.qname, "TLS 1.3 additional data (sender) = record header with ciphertext length",
              "TLS 1.3 sender's additional data must be the record header it is about to send", es.loc())
    # nonce: both use _getNonce(state, seq) under the same condition; explicit nonce = seq on send
    nons = [norm(n.value) for n in own_nodes(es.node) if isinstance(n, ast.Assign) and norm(n.targets[0]) == "nonce"]
    nonr = [norm(n.value) for n in own_nodes(du.node) if isinstance(n, ast.Assign) and norm(n.targets[0]) == "nonce"]
    ctx.check(R, nons == ["self._getNonce(self._writeState, seqNumBytes)"], es.qname,
              "sender's nonce from write state and sequence number", "sender nonce is %s" % nons, es.loc())
    ctx.check(R, sorted(nonr) == sorted(["self._readState.fixedNonce + buf[:explicitNonceLength]",
                                         "self._getNonce(self._readState, seqnumBytes)"]), du.qname,
              "receiver's nonce: explicit part for AES in TLS 1.2, else derived from the sequence number",
              "receiver nonce is %s" % nonr, du.loc())
    cs_ = [n for n in own_nodes(es.node) if isinstance(n, ast.If) and "'aes' in self._writeState.encContext.name" in norm(n.test)]
    cr_ = [n for n in own_nodes(du.node) if isinstance(n, ast.If) and "'aes' in self._readState.encContext.name" in norm(n.test)]
    ok = len(cs_) == 1 and len(cr_) == 1 and \
        norm(cs_[0].test).replace("_writeState", "_S") == norm(cr_[0].test).replace("_readState", "_S") and \
        [norm(s) for s in cs_[0].body] == ["buf = seqNumBytes + buf"]
    ctx.check(R, ok, es.qname, "explicit nonce sent iff the receiver expects one",
              "sender and receiver disagree on when the explicit AEAD nonce is carried in the record", es.loc())


def _side_of(expr, client_names, server_names):
    names = {x.id for x in ast.walk(expr) if isinstance(x, ast.Name)}
    c, s = bool(names & client_names), bool(names & server_names)
    if c and not s:
        return "client"
    if s and not c:
        return "server"
    if c and s:
        return "both"
    return None


def _arms(fn):
    for n in fn.body:
        if isinstance(n, ast.If) and norm(n.test) == "self.client":
            return n.body, n.orelse
    return None, None


def rule_role(ctx, R):
    """client writes with client keys and reads with server keys; the server the reverse."""
    # TLS <= 1.2: key block order of RFC 5246 6.3
    fi = ctx.index.func(RECLAYER + "calcPendingStates")
    slices = []
    for n in fi.node.body:
        if isinstance(n, ast.Assign) and isinstance(n.value, ast.Call) and call_name(n.value) == "getFixBytes" \
                and norm(n.value.func.value) == "parser":
            slices.append((norm(n.targets[0]), norm(n.value.args[0])))
    lens = [l for _, l in slices]
    ctx.check(R, lens == ["macLength", "macLength", "keyLength", "keyLength", "ivLength", "ivLength"], fi.qname,
              "key block sliced as mac, mac, key, key, iv, iv",
              "the key block must be cut into client MAC, server MAC, client key, server key, client IV, "
              "server IV (RFC 5246 6.3); lengths taken: %s" % lens, fi.loc())
    if len(slices) == 6:
        client_blocks = {slices[i][0] for i in (0, 2, 4)}
        server_blocks = {slices[i][0] for i in (1, 3, 5)}
        _check_states(ctx, R, fi, client_blocks, server_blocks)
    ol = [n for n in fi.node.body if isinstance(n, ast.Assign) and norm(n.targets[0]) == "outputLength"]
    ctx.check(R, bool(ol) and norm(ol[0].value) == "macLength * 2 + keyLength * 2 + ivLength * 2", fi.qname,
              "key block length = 2*(mac+key+iv)", "wrong key block length", fi.loc())
    kb = [n for n in fi.node.body if isinstance(n, ast.Assign) and norm(n.targets[0]) == "keyBlock"]
    ok = bool(kb) and "b'key expansion'" in norm(kb[0].value) and ("client_random=clientRandom" in norm(kb[0].value) or "clientRandom" in norm(kb[0].value)) \
        and ("server_random=serverRandom" in norm(kb[0].value) or "serverRandom" in norm(kb[0].value))
    ctx.check(R, ok, fi.qname, "key block from master secret with label and both randoms",
              "key expansion must use the 'key expansion' label with client and server randoms", fi.loc())
    # TLS 1.3
    f13 = ctx.index.func(RECLAYER + "calcTLS1_3PendingState")
    _check_states(ctx, R, f13, {"cl_traffic_secret"}, {"sr_traffic_secret"})
    f2 = ctx.index.func(RECLAYER + "calcSSL2PendingStates") if ctx.index.has_func(RECLAYER + "calcSSL2PendingStates") else None
    # key update
    for nm, attr, plan in (("calcTLS1_3KeyUpdate_sender", "_readState", {"T": "sr", "F": "cl"}),
                           ("calcTLS1_3KeyUpdate_reciever", "_writeState", {"T": "cl", "F": "sr"})):
        f = ctx.index.func(RECLAYER + nm)
        from .common import role_effects
        for lbl, flag in (("T", True), ("F", False)):
            side = plan[lbl]
            role = "client" if flag else "server"
            eff = role_effects(ctx, f, {"self.client": flag})
            calls = [c for c in eff["calls"] if c[0] == "_calcTLS1_3KeyUpdate"]
            ok = len(calls) == 1 and len(calls[0][1]) >= 2 and str(calls[0][1][1]) == side + "_app_secret"
            newsec = state = None
            if ok:
                tg = calls[0][2]
                ok = len(tg) == 1 and tg[0].startswith("(") and "," in tg[0]
                if ok:
                    newsec, state = [x.strip() for x in tg[0].strip("()").split(",")][:2]
            ctx.check(R, ok, f.qname, "%s as %s derives from the %s secret" % (nm, role, side),
                      "%s on the %s must derive the next generation from %s_app_secret" % (nm, role, side), f.loc())
            inst = {k: str(v) for k, v in eff["assign"].items() if k in ("self._readState", "self._writeState")}
            ok2 = inst == {"self." + attr: state}
            ctx.check(R, ok2, f.qname, "%s as %s installs the new state as %s" % (nm, role, attr),
                      "%s on the %s must install the new keys as self.%s only" % (nm, role, attr), f.loc())
            ok3 = False
            rets = eff["returns"]
            if len(rets) == 1 and isinstance(rets[0], tuple) and len(rets[0]) == 2:
                e0, e1 = str(rets[0][0]), str(rets[0][1])
                ok3 = (side == "cl" and e0 == newsec and e1 == "sr_app_secret") or \
                      (side == "sr" and e0 == "cl_app_secret" and e1 == newsec)
            ctx.check(R, ok3, f.qname, "%s as %s returns (client secret, server secret) with the updated one replaced" % (nm, role),
                      "%s on the %s must return the NEW %s secret in its position and the other secret "
                      "unchanged; a stale secret makes the next key update derive the same keys again"
                      % (nm, role, side), f.loc())
    ku = ctx.index.func(RECLAYER + "_calcTLS1_3KeyUpdate")
    src = " ".join(norm(s) for s in ku.node.body)
    ok = "HKDF_expand_label(app_secret, b'traffic upd', b'', prf_length, prf_name)" in src and \
        "HKDF_expand_label(new_app_secret, b'key', b'', key_length, prf_name)" in src and \
        "HKDF_expand_label(new_app_secret, b'iv', b'', iv_length, prf_name)" in src and \
        "return (new_app_secret, new_state)" in src
    ctx.check(R, ok, ku.qname, "next generation = HKDF-Expand-Label(secret, 'traffic upd'); keys from the new secret",
              "_calcTLS1_3KeyUpdate must derive the new secret with label 'traffic upd' and key/iv from the "
              "NEW secret, and return both", ku.loc())


def _check_states(ctx, R, fi, client_src, server_src):
    """state objects are filled consistently from one side's material and installed mirror-wise."""
    side = {}
    for n in own_nodes(fi.node):
        if isinstance(n, ast.Assign) and len(n.targets) == 1 and isinstance(n.targets[0], ast.Attribute) and \
                isinstance(n.targets[0].value, ast.Name) and n.targets[0].attr in ("macContext", "encContext", "fixedNonce"):
            st = n.targets[0].value.id
            s = _side_of(n.value, client_src, server_src)
            if s:
                side.setdefault(st, set()).add(s)
    ctx.check(R, len(side) == 2 and all(len(v) == 1 for v in side.values()) and
              {next(iter(v)) for v in side.values()} == {"client", "server"}, fi.qname,
              "each pending state is built from one side's key material only",
              "the pending states mix client and server key material: %s" % {k: sorted(v) for k, v in side.items()},
              fi.loc())
    from .common import role_effects
    for role, flag, wr, rd in (("client", True, "client", "server"), ("server", False, "server", "client")):
        eff = role_effects(ctx, fi, {"self.client": flag})
        got = {}
        for tgt in ("self._pendingWriteState", "self._pendingReadState"):
            v = eff["assign"].get(tgt)
            got[tgt] = next(iter(side.get(str(v), {"?"}))) if v is not None else None
        ok = got.get("self._pendingWriteState") == wr and got.get("self._pendingReadState") == rd
        ctx.check(R, ok, fi.qname, "%s: %s writes with %s keys and reads with %s keys" % (fi.short, role, wr, rd),
                  "as %s the endpoint installs %s; it must write with the %s keys and read with the %s keys "
                  "(otherwise both ends use the same direction's keys)" % (role, got, wr, rd), fi.loc())
