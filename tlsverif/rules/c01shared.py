"""Record-layer bookkeeping rules shared by C01 and C02 (DIR, SEQ, AAD, ROLE) and C16 (KU)."""
import ast
import re

from ..index import AnalysisError, attr_chain, norm, own_nodes
from ..query import calls_in, call_name
from .common import RECLAYER

SEND_SIDE = ["_macThenEncrypt", "_encryptThenMAC", "_encryptThenSeal", "_ssl2Encrypt", "sendRecord",
             "changeWriteState", "calcTLS1_3KeyUpdate_reciever"]
RECV_SIDE = ["_decryptStreamThenMAC", "_decryptThenMAC", "_macThenDecrypt", "_decryptAndUnseal",
             "_decryptSSL2", "recvRecord", "changeReadState", "calcTLS1_3KeyUpdate_sender"]
WRITE_STATES = {"_writeState", "_pendingWriteState"}
READ_STATES = {"_readState", "_pendingReadState"}


def _self_attrs(fn):
    return {x.attr for x in ast.walk(fn) if isinstance(x, ast.Attribute)
            and isinstance(x.value, ast.Name) and x.value.id == "self"}


def rule_dir(ctx, R):
    """send-side functions touch only write states, receive-side only read states."""
    for nm in SEND_SIDE:
        fi = ctx.index.func(RECLAYER + nm)
        bad = _self_attrs(fi.node) & READ_STATES
        ctx.check(R, not bad, fi.qname, "%s uses only the write direction's state" % nm,
                  "send-side function %s touches %s: the two directions must never share keys or sequence "
                  "numbers (a reflected record would verify)" % (nm, sorted(bad)), fi.loc())
    for nm in RECV_SIDE:
        fi = ctx.index.func(RECLAYER + nm)
        bad = _self_attrs(fi.node) & WRITE_STATES
        ctx.check(R, not bad, fi.qname, "%s uses only the read direction's state" % nm,
                  "receive-side function %s touches %s" % (nm, sorted(bad)), fi.loc())


def rule_seq(ctx, R):
    cs = ctx.index.func("recordlayer:ConnectionState.getSeqNumBytes")
    src = [norm(s) for s in cs.node.body if not (isinstance(s, ast.Expr) and isinstance(s.value, ast.Constant))]
    ok = src == ["writer = Writer()", "writer.add(self.seqnum, 8)", "self.seqnum += 1", "return writer.bytes"]
    ctx.check(R, ok, cs.qname, "getSeqNumBytes: encode 8 bytes, then increment by one",
              "getSeqNumBytes must return the current 64-bit sequence number and then increment it by "
              "exactly one; it does: %s" % src, cs.loc())
    users = ["_macThenEncrypt", "_encryptThenMAC", "_encryptThenSeal", "_ssl2Encrypt",
             "_decryptStreamThenMAC", "_decryptThenMAC", "_macThenDecrypt", "_decryptAndUnseal", "_decryptSSL2"]
    for nm in users:
        fi = ctx.index.func(RECLAYER + nm)
        g = ctx.an.cfg(fi)
        calls = [n for n in g.nodes if n.expr is not None and
                 any(call_name(c) == "getSeqNumBytes" for c in calls_in(n.expr))]
        side = "_writeState" if nm in SEND_SIDE else "_readState"
        ok = len(calls) == 1 and ("self.%s.getSeqNumBytes()" % side) in norm(calls[0].ast)
        if ok:
            seen = g.reach(g.normal_succ(calls[0]))
            ok = calls[0].id not in seen           # not in a loop: at most once per record
        ctx.check(R, ok, fi.qname, "%s consumes one sequence number of its own direction" % nm,
                  "%s must take exactly one sequence number per record from self.%s (found %d call sites): "
                  "sender and receiver would fall out of step" % (nm, side, len(calls)), fi.loc())
        # every normal return with a MAC/AEAD context present passed the call
        if calls:
            ctxattr = "macContext" if nm in ("_macThenEncrypt", "_encryptThenMAC", "_decryptStreamThenMAC",
                                             "_macThenDecrypt") else None
            from ..query import falsy_edges
            cut = set()
            if ctxattr:
                cut |= falsy_edges(g, "self.%s.%s" % (side, ctxattr))     # paths on which a MAC context exists
            if nm == "_decryptThenMAC":
                cut |= falsy_edges(g, "self._readState.encContext")
            # rejection flags (`macGood = False`): C02.GATE-STREAM shows they lead only to a raise
            rej = [n for n in g.nodes if n.kind == "stmt" and isinstance(n.ast, ast.Assign)
                   and isinstance(n.ast.value, ast.Constant) and n.ast.value.value is False
                   and norm(n.ast.targets[0]).endswith("Good")]
            seen = g.reach([g.entry], blocked=calls + rej, cut=cut, follow_exc=False)
            rets = [n for n in g.nodes if n.kind == "return" and n.id in seen]
            early_ok = all(_is_public_reject(g, r) for r in rets)
            ctx.check(R, not rets or early_ok, fi.qname, "%s: no accepting path skips the sequence number" % nm,
                      "%s can return a protected/accepted record without consuming a sequence number" % nm,
                      fi.loc(rets[0].ast) if rets else fi.loc())


def _is_public_reject(g, r):
    return False


class _SampleMac(object):
    """the checker's stand-in for an HMAC context: remembers what it was fed (nothing of the library runs)"""
    _tlsverif_sample = True
    digest_size = 20
    block_size = 64

    def __init__(self, fed=b""):
        self.fed = bytes(fed)

    def copy(self):
        return _SampleMac(self.fed)

    def update(self, data):
        self.fed += bytes(data)

    def digest(self):
        import hashlib
        return hashlib.sha1(b"sample-key" + self.fed).digest()

    def __hash__(self):
        return hash(self.fed)

    def __eq__(self, other):
        return isinstance(other, _SampleMac) and other.fed == self.fed


def run_method(ctx, fi, args, env_extra, hooks):
    """interpret one method over sample values (condeval.exec_block; nothing of the library is run):
    -> ("return", value) / ("raise", exception text) / ("end", None)"""
    from ..condeval import exec_block, Returned, Raised
    env = {"__index__": ctx.index, "__bytes__": True, "__stmts__": True, "__selfcls__": fi.cls,
           "__calls__": dict({"compatHMAC": lambda x: bytes(x)}, **hooks)}
    env.update(env_extra)
    names = [a.arg for a in fi.node.args.args]
    if names and names[0] == "self":
        names = names[1:]
    defaults = fi.node.args.defaults
    for i, nm in enumerate(names):
        if i < len(args):
            env[nm] = args[i]
        else:
            d = defaults[i - (len(names) - len(defaults))] if i - (len(names) - len(defaults)) >= 0 else None
            if d is not None:
                env[nm] = ast.literal_eval(d)
    try:
        exec_block(fi.node.body, env)
    except Returned as r:
        return "return", r.value
    except Raised as r:
        return "raise", r.what
    return "end", None


def rule_aad(ctx, R):
    """sender and receiver build the MAC input and the AEAD nonce / additional data the RFCs prescribe:
    decided by interpreting the methods over sample records (nothing of the library is run) and comparing
    what reaches seal()/open() and the MAC context with the values computed from RFC 5246 6.2.3,
    RFC 7905 2 and RFC 8446 5.2-5.3 - whatever locals, helpers or statement order the code uses."""
    from ..condeval import Rec, Unknown
    SEQ = bytes([0, 0, 0, 0, 0, 0, 1, 7])          # the endpoint's own implicit sequence number
    EXPL = bytes([9, 9, 9, 9, 9, 9, 9, 9])         # explicit nonce carried by a received record
    PT = bytes(range(1, 41))
    TAG = b"T" * 16
    es = ctx.index.func(RECLAYER + "_encryptThenSeal")
    du = ctx.index.func(RECLAYER + "_decryptAndUnseal")

    def xor_nonce(iv):
        pad = bytes(len(iv) - len(SEQ)) + SEQ
        return bytes(a ^ b for a, b in zip(pad, iv))

    def hdr(n, ver=(3, 3)):
        return bytes([23, ver[0], ver[1], n // 256, n % 256])
    cases = [("TLS 1.2 AES-GCM", "aes128gcm", False, b"FIXD"),
             ("TLS 1.2 AES-CCM", "aes128ccm", False, b"FIXD"),
             ("TLS 1.2 ChaCha20-Poly1305", "chacha20-poly1305", False, b"FIXEDNONCE12"),
             ("TLS 1.3", "aes128gcm", True, b"FIXEDNONCE12"),
             ("TLS 1.3 ChaCha20-Poly1305", "chacha20-poly1305", True, b"FIXEDNONCE12")]
    for label, name, t13, fixed in cases:
        aes12 = ("aes" in name) and not t13
        state = Rec(encContext=Rec(name=name, tagLength=16, nonceLength=12, isAEAD=True), fixedNonce=fixed,
                    **{"getSeqNumBytes()": SEQ})
        common = {"self._writeState": state, "self._readState": state, "self._is_tls13_plus()": t13,
                  "self.version": (3, 4) if t13 else (3, 3), "self._recordSocket": Rec(version=(3, 3)),
                  "ContentType.application_data": 23}
        want_nonce = (fixed + SEQ) if aes12 else xor_nonce(fixed)
        # ---- sender
        seen = []

        def seal(base, n, b, a, seen=seen):
            seen.append((bytes(n), bytes(b), bytes(a)))
            return bytes(b) + TAG
        try:
            kind, val = run_method(ctx, es, [PT, 23], common, {"seal": seal})
        except (Unknown, TypeError, AttributeError, KeyError, IndexError, ValueError) as e:
            raise AnalysisError("%s: cannot interpret %s for %s: %s" % (R, es.qname, label, e))
        want_aad = hdr(len(PT) + 16) if t13 else SEQ + hdr(len(PT))
        want_out = ((SEQ if aes12 else b"") + PT + TAG)
        ok = kind == "return" and len(seen) == 1 and seen[0] == (want_nonce, PT, want_aad) and bytes(val) == want_out
        why = ""
        if not ok:
            if kind != "return" or len(seen) != 1:
                why = "ends with %s after %d seal() calls" % (kind, len(seen))
            elif seen[0][0] != want_nonce:
                why = "nonce is %r, must be %r" % (seen[0][0], want_nonce)
            elif seen[0][2] != want_aad:
                why = "additional data is %r, must be %r" % (seen[0][2], want_aad)
            elif seen[0][1] != PT:
                why = "the data sealed is not the plaintext"
            else:
                why = "the record payload is %r..., must be %s ciphertext" % (
                    bytes(val)[:10], "explicit nonce (= sequence number) followed by the" if aes12 else "just the")
        ctx.check(R, ok, es.qname, "%s sender: nonce, additional data, payload" % label,
                  "%s sender: %s (own sequence number %r, fixed nonce %r, 40-byte plaintext of type 23)" % (
                      label, why, SEQ, fixed), es.loc(),
                  what="%s sender seals with the prescribed nonce / additional data" % label)
        # ---- receiver
        seen = []

        def opn(base, n, b, a, seen=seen):
            seen.append((bytes(n), bytes(b), bytes(a)))
            return bytes(b)[:-16]
        wire = (EXPL if aes12 else b"") + PT + TAG
        header = Rec(type=23, version=(3, 3), length=len(wire), **{"write()": hdr(len(wire))})
        try:
            kind, val = run_method(ctx, du, [header, wire], common, {"open": opn})
        except (Unknown, TypeError, AttributeError, KeyError, IndexError, ValueError) as e:
            raise AnalysisError("%s: cannot interpret %s for %s: %s" % (R, du.qname, label, e))
        want_nonce_r = (fixed + EXPL) if aes12 else xor_nonce(fixed)
        want_aad_r = hdr(len(wire)) if t13 else SEQ + hdr(len(PT))
        ok = kind == "return" and len(seen) == 1 and seen[0] == (want_nonce_r, PT + TAG, want_aad_r) and bytes(val) == PT
        why = ""
        if not ok:
            if kind != "return" or len(seen) != 1:
                why = "ends with %s %s after %d open() calls" % (kind, val if kind == "raise" else "", len(seen))
            elif seen[0][0] != want_nonce_r:
                why = "nonce is %r, must be %r" % (seen[0][0], want_nonce_r)
            elif seen[0][2] != want_aad_r:
                why = "additional data is %r, must be %r (the receiver's OWN sequence number, the record's " \
                      "type and version, the plaintext length)" % (seen[0][2], want_aad_r)
            elif seen[0][1] != PT + TAG:
                why = "the data opened is %r..., must be ciphertext and tag without the explicit nonce" % seen[0][1][:10]
            else:
                why = "returns %r..." % bytes(val)[:10]
        ctx.check(R, ok, du.qname, "%s receiver: nonce, additional data, ciphertext" % label,
                  "%s receiver: %s (own sequence number %r, explicit nonce on the wire %r)" % (label, why, SEQ, EXPL),
                  du.loc(), what="%s receiver opens with the prescribed nonce / additional data" % label)
        # a record shorter than the tag (or the explicit nonce) is refused before open()
        for short in ((EXPL[:5],) if aes12 else ()) + (((EXPL if aes12 else b"") + TAG[:7]),):
            seen = []
            h2 = Rec(type=23, version=(3, 3), length=len(short), **{"write()": hdr(len(short))})
            try:
                kind, val = run_method(ctx, du, [h2, short], common, {"open": opn})
            except (Unknown, TypeError, AttributeError, KeyError, IndexError, ValueError):
                kind = "error"
            ctx.check(R, kind == "raise" and "TLSBadRecordMAC" in str(val) and not seen, du.qname,
                      "%s receiver refuses a %d-byte record" % (label, len(short)),
                      "%s receiver: a record of %d bytes (shorter than nonce + tag) must be refused with "
                      "TLSBadRecordMAC before the cipher is called (outcome: %s)" % (label, len(short), kind), du.loc())
    # ---- MAC input (MAC-then-encrypt, encrypt-then-MAC, stream): seq | type | [version] | length | data
    cm = ctx.index.func(RECLAYER + "calculateMAC")
    for ver in ((3, 0), (3, 1), (3, 3)):
        for data in (b"", b"x" * 5, bytes(300)):
            mac = _SampleMac()
            try:
                kind, val = run_method(ctx, cm, [mac, SEQ, 22, data], {"self.version": ver}, {})
            except (Unknown, TypeError, AttributeError, KeyError, IndexError, ValueError) as e:
                raise AnalysisError("%s: cannot interpret %s: %s" % (R, cm.qname, e))
            want = SEQ + bytes([22]) + (bytes(ver) if ver != (3, 0) else b"") + bytes([len(data) // 256, len(data) % 256]) + data
            ok = kind == "return" and mac.fed == want and bytes(val) == _SampleMac(want).digest()
            ctx.check(R, ok, cm.qname, "MAC input for version %r, %d bytes" % (ver, len(data)),
                      "calculateMAC for version %r feeds %r..., RFC 5246 6.2.3.1 requires seq_num | type | %slength | "
                      "fragment = %r..." % (ver, mac.fed[:16], "" if ver == (3, 0) else "version | ", want[:16]), cm.loc(),
                      what="calculateMAC input = seq | type | [version] | length | data (%r, %d bytes)" % (ver, len(data)))
    _cbc_samples(ctx, R)


def _cbc_samples(ctx, R):
    """ct_check_cbc_mac_and_pad decided on sample records: a well-formed MAC-then-encrypt plaintext
    (any legal padding length, incl. the longest) is accepted, and every single-byte corruption of
    content, MAC or padding is refused.  The constant-time primitives are replaced by their meaning."""
    from ..condeval import Unknown
    ct = ctx.index.func("utils.constanttime:ct_check_cbc_mac_and_pad")
    SEQ = bytes([0, 0, 0, 0, 0, 0, 1, 7])
    hooks = {"ct_lt_u32": lambda a, b: int((a & 0xffffffff) < (b & 0xffffffff)),
             "ct_gt_u32": lambda a, b: int((a & 0xffffffff) > (b & 0xffffffff)),
             "ct_le_u32": lambda a, b: int((a & 0xffffffff) <= (b & 0xffffffff)),
             "ct_eq_u32": lambda a, b: int((a & 0xffffffff) == (b & 0xffffffff)),
             "ct_neq_u32": lambda a, b: int((a & 0xffffffff) != (b & 0xffffffff)),
             "ct_isnonzero_u32": lambda a: int((a & 0xffffffff) != 0),
             "ct_lsb_prop_u8": lambda a: 0xff if a & 1 else 0,
             "ct_lsb_prop_u16": lambda a: 0xffff if a & 1 else 0}
    present = {f.name for f in ctx.index.all_functions() if f.module.name == "utils.constanttime"}
    hooks = {k: v for k, v in hooks.items() if k in present}

    def record(content, pad, ver):
        want = SEQ + bytes([23]) + (bytes(ver) if ver != (3, 0) else b"") + \
            bytes([len(content) // 256, len(content) % 256]) + content
        return content + _SampleMac(want).digest() + bytes([pad]) * (pad + 1)

    def verdict(data, ver, block=16):
        kind, val = run_method(ctx, ct, [data, _SampleMac(), SEQ, 23, ver, block], {}, hooks)
        if kind != "return":
            raise Unknown("ct_check_cbc_mac_and_pad ends with %s" % kind)
        return bool(val)
    n = 0
    try:
        for ver, shapes in (((3, 3), ((0, 11), (5, 6), (44, 255), (63, 240), (300, 3))),
                            ((3, 1), ((27, 0), (44, 255))), ((3, 0), ((5, 6), (27, 0)))):
            for clen, pad in shapes:
                good = record(bytes((i * 7 + 3) % 256 for i in range(clen)), pad, ver)
                n += 1
                ok = verdict(good, ver)
                ctx.check(R, ok, ct.qname, "CBC sample accepted: %d content bytes, padding %d, %r" % (clen, pad, ver),
                          "a well-formed MAC-then-encrypt plaintext (%d content bytes, padding length %d, version %r) is "
                          "refused" % (clen, pad, ver), ct.loc())
                spots = []
                if clen:
                    spots += [("content", 0)]
                spots += [("MAC", clen), ("MAC", clen + 19)]
                if pad and ver != (3, 0):
                    spots += [("padding", clen + 20)]
                for what, pos in spots:
                    bad = bytearray(good)
                    bad[pos] ^= 0x41
                    n += 1
                    acc = verdict(bytes(bad), ver)
                    ctx.check(R, not acc, ct.qname,
                              "CBC sample refused: %s byte corrupted (%d content bytes, padding %d, %r)" % (what, clen, pad, ver),
                              "a MAC-then-encrypt plaintext whose %s byte at offset %d was altered is ACCEPTED (%d content "
                              "bytes, padding length %d, version %r): the record is delivered without a valid MAC / padding"
                              % (what, pos, clen, pad, ver), ct.loc())
    except (Unknown, TypeError, AttributeError, KeyError, IndexError, ValueError) as e:
        raise AnalysisError("%s: cannot interpret %s over the sample records: %s" % (R, ct.qname, e))
    if n < 30:
        raise AnalysisError("%s: only %d CBC samples evaluated" % (R, n))


def _side_of(expr, client_names, server_names):
    names = {x.id for x in ast.walk(expr) if isinstance(x, ast.Name)}
    c, s = bool(names & client_names), bool(names & server_names)
    if c and not s:
        return "client"
    if s and not c:
        return "server"
    if c and s:
        return "both"
    return None


def _arms(fn):
    for n in fn.body:
        if isinstance(n, ast.If) and norm(n.test) == "self.client":
            return n.body, n.orelse
    return None, None


def rule_role(ctx, R):
    """client writes with client keys and reads with server keys; the server the reverse."""
    # TLS <= 1.2: key block order of RFC 5246 6.3
    fi = ctx.index.func(RECLAYER + "calcPendingStates")
    slices = []
    for n in fi.node.body:
        if isinstance(n, ast.Assign) and isinstance(n.value, ast.Call) and call_name(n.value) == "getFixBytes" \
                and norm(n.value.func.value) == "parser":
            slices.append((norm(n.targets[0]), norm(n.value.args[0])))
    lens = [l for _, l in slices]
    ctx.check(R, lens == ["macLength", "macLength", "keyLength", "keyLength", "ivLength", "ivLength"], fi.qname,
              "key block sliced as mac, mac, key, key, iv, iv",
              "the key block must be cut into client MAC, server MAC, client key, server key, client IV, "
              "server IV (RFC 5246 6.3); lengths taken: %s" % lens, fi.loc())
    if len(slices) == 6:
        client_blocks = {slices[i][0] for i in (0, 2, 4)}
        server_blocks = {slices[i][0] for i in (1, 3, 5)}
        _check_states(ctx, R, fi, client_blocks, server_blocks)
    ol = [n for n in fi.node.body if isinstance(n, ast.Assign) and norm(n.targets[0]) == "outputLength"]
    ctx.check(R, bool(ol) and norm(ol[0].value) == "macLength * 2 + keyLength * 2 + ivLength * 2", fi.qname,
              "key block length = 2*(mac+key+iv)", "wrong key block length", fi.loc())
    kb = [n for n in fi.node.body if isinstance(n, ast.Assign) and norm(n.targets[0]) == "keyBlock"]
    ok = bool(kb) and "b'key expansion'" in norm(kb[0].value) and ("client_random=clientRandom" in norm(kb[0].value) or "clientRandom" in norm(kb[0].value)) \
        and ("server_random=serverRandom" in norm(kb[0].value) or "serverRandom" in norm(kb[0].value))
    ctx.check(R, ok, fi.qname, "key block from master secret with label and both randoms",
              "key expansion must use the 'key expansion' label with client and server randoms", fi.loc())
    # TLS 1.3
    f13 = ctx.index.func(RECLAYER + "calcTLS1_3PendingState")
    _check_states(ctx, R, f13, {"cl_traffic_secret"}, {"sr_traffic_secret"})
    f2 = ctx.index.func(RECLAYER + "calcSSL2PendingStates") if ctx.index.has_func(RECLAYER + "calcSSL2PendingStates") else None
    # key update
    for nm, attr, plan in (("calcTLS1_3KeyUpdate_sender", "_readState", {"T": "sr", "F": "cl"}),
                           ("calcTLS1_3KeyUpdate_reciever", "_writeState", {"T": "cl", "F": "sr"})):
        f = ctx.index.func(RECLAYER + nm)
        from .common import role_effects
        for lbl, flag in (("T", True), ("F", False)):
            side = plan[lbl]
            role = "client" if flag else "server"
            eff = role_effects(ctx, f, {"self.client": flag})
            calls = [c for c in eff["calls"] if c[0] == "_calcTLS1_3KeyUpdate"]
            ok = len(calls) == 1 and len(calls[0][1]) >= 2 and str(calls[0][1][1]) == side + "_app_secret"
            newsec = state = None
            if ok:
                tg = calls[0][2]
                ok = len(tg) == 1 and tg[0].startswith("(") and "," in tg[0]
                if ok:
                    newsec, state = [x.strip() for x in tg[0].strip("()").split(",")][:2]
            ctx.check(R, ok, f.qname, "%s as %s derives from the %s secret" % (nm, role, side),
                      "%s on the %s must derive the next generation from %s_app_secret" % (nm, role, side), f.loc())
            inst = {k: str(v) for k, v in eff["assign"].items() if k in ("self._readState", "self._writeState")}
            ok2 = inst == {"self." + attr: state}
            ctx.check(R, ok2, f.qname, "%s as %s installs the new state as %s" % (nm, role, attr),
                      "%s on the %s must install the new keys as self.%s only" % (nm, role, attr), f.loc())
            ok3 = False
            rets = eff["returns"]
            if len(rets) == 1 and isinstance(rets[0], tuple) and len(rets[0]) == 2:
                e0, e1 = str(rets[0][0]), str(rets[0][1])
                ok3 = (side == "cl" and e0 == newsec and e1 == "sr_app_secret") or \
                      (side == "sr" and e0 == "cl_app_secret" and e1 == newsec)
            ctx.check(R, ok3, f.qname, "%s as %s returns (client secret, server secret) with the updated one replaced" % (nm, role),
                      "%s on the %s must return the NEW %s secret in its position and the other secret "
                      "unchanged; a stale secret makes the next key update derive the same keys again"
                      % (nm, role, side), f.loc())
    ku = ctx.index.func(RECLAYER + "_calcTLS1_3KeyUpdate")
    src = " ".join(norm(s) for s in ku.node.body)
    ok = "HKDF_expand_label(app_secret, b'traffic upd', b'', prf_length, prf_name)" in src and \
        "HKDF_expand_label(new_app_secret, b'key', b'', key_length, prf_name)" in src and \
        "HKDF_expand_label(new_app_secret, b'iv', b'', iv_length, prf_name)" in src and \
        "return (new_app_secret, new_state)" in src
    ctx.check(R, ok, ku.qname, "next generation = HKDF-Expand-Label(secret, 'traffic upd'); keys from the new secret",
              "_calcTLS1_3KeyUpdate must derive the new secret with label 'traffic upd' and key/iv from the "
              "NEW secret, and return both", ku.loc())


def _check_states(ctx, R, fi, client_src, server_src):
    """state objects are filled consistently from one side's material and installed mirror-wise."""
    side = {}
    for n in own_nodes(fi.node):
        if isinstance(n, ast.Assign) and len(n.targets) == 1 and isinstance(n.targets[0], ast.Attribute) and \
                isinstance(n.targets[0].value, ast.Name) and n.targets[0].attr in ("macContext", "encContext", "fixedNonce"):
            st = n.targets[0].value.id
            s = _side_of(n.value, client_src, server_src)
            if s:
                side.setdefault(st, set()).add(s)
    ctx.check(R, len(side) == 2 and all(len(v) == 1 for v in side.values()) and
              {next(iter(v)) for v in side.values()} == {"client", "server"}, fi.qname,
              "each pending state is built from one side's key material only",
              "the pending states mix client and server key material: %s" % {k: sorted(v) for k, v in side.items()},
              fi.loc())
    from .common import role_effects
    for role, flag, wr, rd in (("client", True, "client", "server"), ("server", False, "server", "client")):
        eff = role_effects(ctx, fi, {"self.client": flag})
        got = {}
        for tgt in ("self._pendingWriteState", "self._pendingReadState"):
            v = eff["assign"].get(tgt)
            got[tgt] = next(iter(side.get(str(v), {"?"}))) if v is not None else None
        ok = got.get("self._pendingWriteState") == wr and got.get("self._pendingReadState") == rd
        ctx.check(R, ok, fi.qname, "%s: %s writes with %s keys and reads with %s keys" % (fi.short, role, wr, rd),
                  "as %s the endpoint installs %s; it must write with the %s keys and read with the %s keys "
                  "(otherwise both ends use the same direction's keys)" % (role, got, wr, rd), fi.loc())
