"""C05 - peer credentials are recorded only after proof of possession."""
import ast

from ..index import AnalysisError, attr_chain, chain_prefixes, norm, own_nodes
from ..query import (calls_in, call_name, is_value_yield, lines, mentions, falsy_edges, truthy_edges,
                     assigns, assigns_none)
from ..flow import reaching_defs
from .common import borrowed
from .common import (TLSCONN, TLSREC, fin_summary, nodes_with_call, consumes_of, getmsg_nodes,
                     dead_edge_labels, effective_tests, must_pass, senderror_desc, gate_table)

EXPLANATION = (
    "Path-quantified rules on the control-flow graphs of the authentication code. SIG: for every "
    "variable bound to the certificate chain of a received Certificate (server <=1.2, server 1.3, "
    "post-handshake auth, client 1.3) every path from the binding to the flow's completion passes an "
    "effective signature gate `if not V(cv.signature, ...)` where V is .verify/.hashAndVerify of a key "
    "derived from that chain and cv is the received CertificateVerify; the signed bytes come from a "
    "transcript snapshot taken before the CertificateVerify was received. For the client <=1.2 the "
    "gate is verifyServerKeyExchange (both handlers non-returning) and each of its helpers ends in an "
    "effective verify. SCHEME: every such gate is preceded by an effective membership gate of the "
    "peer-chosen scheme in a locally computed list. DC: the delegated credential is verified against "
    "the end-entity entry. PHA: request context single-use (pop under a non-returning KeyError "
    "handler) and identity assignment dominated by Finished and signature gates. TICKET-ID: a client "
    "identity taken from a ticket is bound only to the PSK whose binder is then verified. CHECKER and "
    "CACHE: checker runs after the handshake and its failure propagates; the session is cached only "
    "after the Finished gate.")
NOT_DECIDED = ("that the verification primitives are sound (C10); SRP mathematics; that a concrete "
               "forged proof is rejected at run time")
TECHNIQUE = "CFG must-pass-through with effective signature/scheme gates, reaching definitions and def-use slices"

VERIFY_ATTRS = ("verify", "hashAndVerify")


def _key_exprs_of_gate(g, n):
    """for `if not V(args)`: returns (call, [key expressions]) or None."""
    if n.kind != "test":
        return None
    e = n.expr
    if not (isinstance(e, ast.UnaryOp) and isinstance(e.op, ast.Not) and isinstance(e.operand, ast.Call)):
        return None
    call = e.operand
    f = call.func
    if isinstance(f, ast.Attribute) and f.attr in VERIFY_ATTRS:
        return call, [f.value]
    if isinstance(f, ast.Name):
        defs = reaching_defs(g, n, f.id)
        keys = []
        if not defs:
            return None
        for d in defs:
            if d.kind == "stmt" and isinstance(d.ast, ast.Assign) and \
                    isinstance(d.ast.value, ast.Attribute) and d.ast.value.attr in VERIFY_ATTRS:
                keys.append((d, d.ast.value.value))
            else:
                return None
        return call, keys
    return None


def _derives_from(g, node, expr, root, depth=0):
    """does `expr` evaluated at `node` derive from chain `root` (a name / attribute chain)?"""
    if depth > 6:
        return False
    if root in chain_prefixes(expr):
        return True
    for nm in {x.id for x in ast.walk(expr) if isinstance(x, ast.Name)}:
        for d in reaching_defs(g, node, nm):
            if d.kind == "stmt" and isinstance(d.ast, ast.Assign):
                if _derives_from(g, d, d.ast.value, root, depth + 1):
                    return True
            elif d.kind == "consume":
                if any(root in chain_prefixes(a) for a in d.call.args):
                    return True
                for a in d.call.args:
                    if _derives_from(g, d, a, root, depth + 1):
                        return True
    return False


def sig_gates(ctx, fi, g, chain, sinks, cut=()):
    """effective signature gates on a key derived from `chain` checking a received
    CertificateVerify's signature."""
    out = []
    for n in g.nodes:
        r = _key_exprs_of_gate(g, n)
        if not r:
            continue
        call, keys = r
        if "T" not in dead_edge_labels(g, n, sinks, cut=cut):
            continue
        okkeys = True
        for k in keys:
            dnode, kexpr = (k if isinstance(k, tuple) else (n, k))
            if not _derives_from(g, dnode, kexpr, chain):
                okkeys = False
        if not okkeys or not call.args:
            continue
        a0 = attr_chain(call.args[0]) or ""
        if not a0.endswith(".signature"):
            continue
        cv = a0.rsplit(".", 1)[0]
        cvdefs = reaching_defs(g, n, cv)
        ok_cv = bool(cvdefs)
        for d in cvdefs:
            if d.kind == "consume" and call_name(d.call) == "_getMsg" and \
                    "HandshakeType.certificate_verify" in norm(d.call):
                continue
            if d.kind == "stmt" and isinstance(d.ast, ast.Assign) and isinstance(d.ast.value, ast.Name):
                dd = reaching_defs(g, d, d.ast.value.id)
                if dd and all(x.kind == "consume" and "HandshakeType.certificate_verify" in norm(x.call)
                              for x in dd):
                    continue
            ok_cv = False
        if ok_cv:
            out.append(n)
    return out


def _snapshot_order(ctx, R, fi, g, gate):
    """the signed bytes derive from a transcript copy taken before CertificateVerify was received."""
    call = gate.expr.operand
    if len(call.args) < 2:
        return
    msg = call.args[1]
    # find the transcript snapshot in the slice: X = self._handshake_hash.copy() or handshake_context
    names = {x.id for x in ast.walk(msg) if isinstance(x, ast.Name)}
    snaps, done = [], set()
    for _ in range(5):
        new = names - done
        done |= new
        for nd in g.nodes:
            if nd.kind == "stmt" and isinstance(nd.ast, ast.Assign):
                tn = {attr_chain(t) for t in nd.ast.targets}
                tl = {x.split(".")[-1] for x in tn if x}
                if tl & new or (tn & new):
                    for x in ast.walk(nd.ast.value):
                        if isinstance(x, ast.Name):
                            names.add(x.id)
                        if isinstance(x, ast.Attribute):
                            names.add(x.attr)
                    if "_handshake_hash.copy()" in norm(nd.ast.value) or \
                            "_first_handshake_hashes.copy()" in norm(nd.ast.value):
                        if nd not in snaps:
                            snaps.append(nd)
    cvs = getmsg_nodes(g, hs_type="certificate_verify")
    if not snaps or not cvs:
        ctx.fail(R, fi.qname, "transcript snapshot for " + norm(msg),
                 "the bytes verified by the signature gate do not derive from a transcript snapshot",
                 fi.loc(gate.ast))
        return
    after = g.reach([m for c in cvs for m in g.normal_succ(c)])
    late = [s for s in snaps if s.id in after]
    ctx.check(R, not late, fi.qname, "transcript snapshot precedes CertificateVerify in " + fi.short,
              "the transcript snapshot that is signed is taken after the CertificateVerify was received "
              "(the signature would have to cover itself / another transcript)",
              fi.loc(late[0].ast) if late else fi.loc(gate.ast))



def dc_gates(g):
    """effective-candidate tests guarding a delegated credential verification:
    `if not X.delegated_credential.verify(..)` or `ok = X...verify(..)` ... `if not ok`.
    returns [(test node, verify Call)]"""
    out = []
    for t in g.nodes:
        if t.kind != "test":
            continue
        direct = [c for c in calls_in(t.expr) if call_name(c) == "verify" and "delegated_credential" in norm(c.func)]
        if direct and isinstance(t.expr, ast.UnaryOp) and isinstance(t.expr.op, ast.Not):
            out.append((t, direct[0]))
            continue
        if isinstance(t.expr, ast.UnaryOp) and isinstance(t.expr.op, ast.Not) and isinstance(t.expr.operand, ast.Name):
            calls = []
            okdefs = True
            for d in reaching_defs(g, t, t.expr.operand.id):
                if d.kind == "stmt" and isinstance(d.ast, ast.Assign):
                    v = d.ast.value
                    if isinstance(v, ast.Call) and call_name(v) == "verify" and "delegated_credential" in norm(v.func):
                        calls.append(v)
                    elif isinstance(v, ast.Constant) and v.value is False:
                        pass
                    else:
                        okdefs = False
                else:
                    okdefs = False
            if calls and okdefs:
                out.append((t, calls[0]))
    return out


SITES = [
    # function, chain variable, how the chain is bound (text fragment of RHS), sinks
    (TLSCONN + "_serverCertKeyExchange", "clientCertChain", "clientCertificate.cert_chain", "yield"),
    (TLSCONN + "_serverTLS13Handshake", "client_cert_chain", "client_certificate.cert_chain", "yield"),
    (TLSCONN + "_clientTLS13Handshake", "certificate", None, "yield"),
    (TLSREC + "_handle_srv_pha", "cert.cert_chain", None, "assign:self.session.clientCertChain"),
]


def rule_sig(ctx):
    R = "C05.SIG"
    for q, chain, rhs, sinkspec in SITES:
        fi = ctx.index.func(q)
        g = ctx.an.cfg(fi)
        if sinkspec == "yield":
            sinks = [n for n in g.nodes if is_value_yield(n)]
        else:
            tgt = sinkspec.split(":", 1)[1]
            sinks = [n for n in g.nodes if assigns(n, tgt)]
        if rhs:
            srcs = [n for n in g.nodes if assigns(n, chain) and rhs in norm(n.ast.value)]
        elif chain == "certificate":
            srcs = [n for n in g.nodes if assigns(n, "certificate") and norm(n.ast.value) == "result"]
        else:
            srcs = [g.entry]
        if not srcs or not sinks:
            raise AnalysisError("C05.SIG: binding of %s or completion point not found in %s" % (chain, q))
        cut = falsy_edges(g, chain)
        kills = [n for n in g.nodes if assigns_none(n, chain)]
        gates = sig_gates(ctx, fi, g, chain, sinks, cut=cut)
        must_pass(ctx, R, fi, g, srcs, sinks, gates,
                  "received chain `%s` reaches completion only through a signature gate" % chain,
                  "a peer certificate chain is accepted without a verified CertificateVerify signature "
                  "made by its end-entity key", cut=cut, kills=kills,
                  start_after=(srcs != [g.entry]))
        for gt in gates:
            _snapshot_order(ctx, R, fi, g, gt)
        ctx.require(len(gates) >= 1, "C05.SIG: no signature gate recognised in " + q)
    # client <= 1.2: verifyServerKeyExchange call gate
    fi = ctx.index.func(TLSCONN + "_clientKeyExchange")
    g = ctx.an.cfg(fi)
    ske = getmsg_nodes(g, hs_type="server_key_exchange")
    sinks = [n for n in g.nodes if is_value_yield(n)] + [g.exit]
    vs = nodes_with_call(g, "verifyServerKeyExchange")
    gates = []
    for n in vs:
        exc = [m for m, l in n.succ if l.startswith("exc")]
        seen = g.reach(exc)
        call = [c for c in calls_in(n.ast) if call_name(c) == "verifyServerKeyExchange"][0]
        args = [norm(a) for a in call.args]
        if exc and not any(s.id in seen for s in sinks) and len(args) >= 5 and \
                args[0] == "serverKeyExchange" and args[1] == "publicKey":
            gates.append(n)
    cut = falsy_edges(g, "serverKeyExchange")
    # only certificate-authenticated suites verify; the suite-dependent arm is decided per suite
    # in C20.KX, here: under the certificate arm every path with a ServerKeyExchange passes the gate
    certarm = consumes_of(g, "_clientGetKeyFromChain")
    if not certarm:
        raise AnalysisError("C05.SIG: _clientGetKeyFromChain consumption not found in _clientKeyExchange")
    must_pass(ctx, R, fi, g, certarm, sinks, gates,
              "client verifies the ServerKeyExchange signature with the certified key",
              "with a certificate-authenticated suite the client can continue without verifying the "
              "signature on the ServerKeyExchange", cut=cut)
    # verifyServerKeyExchange and its helpers end in effective verifies
    kx = ctx.index.cls("keyexchange:KeyExchange")
    for nm in ("_tls12_verify_ecdsa_SKE", "_tls12_verify_eddsa_ske", "_tls12_verify_dsa_SKE",
               "_tls12_verify_rsa_ske"):
        pass
    f = ctx.index.func("keyexchange:KeyExchange.verifyServerKeyExchange")
    gv = ctx.an.cfg(f)
    helpers = [m for m in kx.methods.values() if m.name.startswith("_tls12_verify") or
               m.name == "_tls12_verify_SKE"]
    verified = {}
    for h in helpers + [f]:
        verified[h.qname] = None
    def ends_in_verify(h, depth=0):
        if verified.get(h.qname) is not None:
            return verified[h.qname]
        gh = ctx.an.cfg(h)
        gs = []
        for n in gh.nodes:
            if n.kind == "test" and isinstance(n.expr, ast.UnaryOp) and isinstance(n.expr.op, ast.Not) \
                    and isinstance(n.expr.operand, ast.Call):
                cf = n.expr.operand.func
                if isinstance(cf, ast.Attribute) and cf.attr in VERIFY_ATTRS and \
                        "T" in dead_edge_labels(gh, n, [gh.exit]):
                    gs.append(n)
        # delegation: `return KeyExchange._tls12_verify_x(...)` or call statements to verified helpers
        for n in gh.nodes:
            if n.kind in ("return", "stmt") and n.ast is not None:
                for c in calls_in(n.ast):
                    t = [x for x in helpers if x.name == call_name(c)]
                    if t and depth < 3 and t[0] is not h and ends_in_verify(t[0], depth + 1):
                        gs.append(n)
        seen = gh.reach([gh.entry], blocked=gs)
        ok = gh.exit.id not in seen
        verified[h.qname] = ok
        return ok
    for h in [f] + helpers:
        ctx.check(R, ends_in_verify(h), h.qname, "%s returns only after an effective signature verify" % h.short,
                  "%s can return normally without a verified signature" % h.short, h.loc())
    ctx.require(len(helpers) >= 4, "C05.SIG: ServerKeyExchange verify helpers not found")


def rule_auth13(ctx):
    """AUTH13: the TLS 1.3 client authenticates the server by certificate unless the SERVER selected a
    PSK; RESUMED: the handshake is reported as a resumption only when the server selected a PSK that
    is not one of the configured external PSKs (the Checker is skipped for resumed sessions)."""
    R = "C05.AUTH13"
    fi = ctx.index.func(TLSCONN + "_clientTLS13Handshake")
    g = ctx.an.cfg(fi)
    binds = [n for n in g.nodes if assigns(n, "sr_psk")]
    if len(binds) != 1 or norm(binds[0].ast.value) != "serverHello.getExtension(ExtensionType.pre_shared_key)":
        raise AnalysisError("C05.AUTH13: `sr_psk` is no longer the ServerHello pre_shared_key extension, "
                            "bound once, in _clientTLS13Handshake")
    sinks = [n for n in g.nodes if is_value_yield(n)]
    gates = sig_gates(ctx, fi, g, "certificate", sinks, cut=falsy_edges(g, "certificate"))
    no_psk = truthy_edges(g, "sr_psk")          # explore only paths on which the server selected no PSK
    ctx.require(len(no_psk) >= 2, "C05.AUTH13: tests of `sr_psk` not found in _clientTLS13Handshake")
    must_pass(ctx, R, fi, g, [g.entry], sinks, gates,
              "without a server-selected PSK completion passes a CertificateVerify gate",
              "the TLS 1.3 client can complete a handshake in which the server selected no PSK without "
              "receiving Certificate and verifying CertificateVerify (unauthenticated server accepted)",
              cut=no_psk, start_after=False)
    R = "C05.RESUMED"
    seen = g.reach([g.entry], cut=no_psk)
    sets = [n for n in g.nodes if assigns(n, "resuming")]
    ctx.require(len(sets) >= 2, "C05.RESUMED: assignments of `resuming` not found in _clientTLS13Handshake")
    for n in sets:
        v = n.ast.value if isinstance(n.ast, ast.Assign) else None
        const_false = isinstance(v, ast.Constant) and v.value is False
        ctx.check(R, const_false or n.id not in seen, fi.qname,
                  "`%s` only under a server-selected PSK" % norm(n.ast),
                  "`resuming` can become true although the server selected no PSK: a full certificate "
                  "handshake is then reported as resumed and the Checker is skipped", fi.loc(n.ast))
    from ..condeval import ev, Unknown
    ys = [n for n in sinks if "resumed_and_finished" in norm(n.ast)]
    ctx.require(len(ys) >= 1, "C05.RESUMED: completion yield of _clientTLS13Handshake not found")
    for y in ys:
        val = [x for x in ast.walk(y.ast) if isinstance(x, ast.Yield)][0].value
        try:
            ok = ev(val, {"resuming": True}) == "resumed_and_finished" and ev(val, {"resuming": False}) == "finished"
        except Unknown:
            ok = False
        ctx.check(R, ok, fi.qname, "completion token is `resumed_and_finished` exactly when `resuming`",
                  "the client's completion token `%s` does not follow the `resuming` flag" % norm(val),
                  fi.loc(y.ast))


def rule_scheme(ctx):
    R = "C05.SCHEME"
    table = [
        (TLSCONN + "_serverCertKeyExchange", "clientCertChain", "certificateVerify.signatureAlgorithm"),
        (TLSCONN + "_serverTLS13Handshake", "client_cert_chain", "certificate_verify.signatureAlgorithm"),
        (TLSCONN + "_clientTLS13Handshake", "certificate", "certificate_verify.signatureAlgorithm"),
        (TLSREC + "_handle_srv_pha", "cert.cert_chain", "cert_verify.signatureAlgorithm"),
    ]
    for q, chain, sa in table:
        fi = ctx.index.func(q)
        g = ctx.an.cfg(fi)
        sinks = [n for n in g.nodes if is_value_yield(n)] or [g.exit]
        if "pha" in q:
            sinks = [n for n in g.nodes if assigns(n, "self.session.clientCertChain")]
        gates = sig_gates(ctx, fi, g, chain, sinks, cut=falsy_edges(g, chain))
        if not gates:
            ctx.require(False, "C05.SCHEME: no signature gate in " + q)
            continue
        # membership tests of the peer-chosen algorithm (directly or through a local alias)
        aliases = {sa}
        for n in g.nodes:
            if n.kind == "stmt" and isinstance(n.ast, ast.Assign) and attr_chain(n.ast.value) == sa:
                for t in n.ast.targets:
                    if attr_chain(t):
                        aliases.add(attr_chain(t))
        tests = []
        for t in g.nodes:
            if t.kind != "test":
                continue
            disj = t.expr.values if isinstance(t.expr, ast.BoolOp) and isinstance(t.expr.op, ast.Or) \
                else [t.expr]
            if any(isinstance(e, ast.Compare) and len(e.ops) == 1 and isinstance(e.ops[0], ast.NotIn)
                   and attr_chain(e.left) in aliases for e in disj):
                tests.append(t)
        eff = [t for t in tests if "T" in dead_edge_labels(g, t, gates)]
        # on the delegated-credential path the scheme checks live in DelegatedCredential.verify
        # (validated below); the effective `if not X.delegated_credential.verify(.., cv)` is the gate
        cvname = sa.split(".")[0]
        for t, vcall in dc_gates(g):
            if cvname in {x.id for x in ast.walk(vcall) if isinstance(x, ast.Name)} and \
                    "T" in dead_edge_labels(g, t, gates):
                eff.append(t)
        cvs = getmsg_nodes(g, hs_type="certificate_verify")
        # version-conditional in TLS <= 1.2: only (3, 3) carries an algorithm
        cut = set()
        if q.endswith("_serverCertKeyExchange"):
            for t in g.nodes:
                if t.kind == "test" and norm(t.expr) == "self.version == (3, 3)":
                    cut.add((t.id, "F"))
        must_pass(ctx, R, fi, g, cvs, gates, eff,
                  "peer-chosen signature scheme checked against a local list before the signature gate",
                  "the peer's CertificateVerify scheme is used without an effective membership check "
                  "against the schemes this endpoint offered/accepts", cut=cut)
        # KEYTYPE: one of those lists is specific to the certificate the peer presented
        # (_sigHashesToList(.., certList=<its chain>)), so the scheme fits the key that will verify it
        peer_chain = {"certificate": "serverCertChain"}.get(chain, chain)
        keyt = []
        for t in tests:
            disj = t.expr.values if isinstance(t.expr, ast.BoolOp) and isinstance(t.expr.op, ast.Or) else [t.expr]
            for e in disj:
                if not (isinstance(e, ast.Compare) and isinstance(e.ops[0], ast.NotIn) and attr_chain(e.left) in aliases
                        and isinstance(e.comparators[0], ast.Name)):
                    continue
                ds = reaching_defs(g, t, e.comparators[0].id)
                if ds and all(isinstance(d.ast, ast.Assign) and isinstance(d.ast.value, ast.Call)
                              and call_name(d.ast.value) == "_sigHashesToList"
                              and peer_chain in [norm(a) for a in d.ast.value.args] +
                              [norm(k.value) for k in d.ast.value.keywords if k.arg == "certList"] for d in ds):
                    keyt.append(t)
        effk = [t for t in keyt if "T" in dead_edge_labels(g, t, gates)] + [t for t in eff if t not in tests]
        must_pass(ctx, "C05.KEYTYPE", fi, g, cvs, gates, effk,
                  "peer-chosen signature scheme checked against the schemes usable with the presented certificate",
                  "the peer's CertificateVerify scheme is not checked against the key type of the certificate it "
                  "presented (_sigHashesToList(.., certList=%s)): a scheme of another key family reaches the "
                  "verification code (AttributeError on the key object instead of an alert, or a verification "
                  "under the wrong algorithm)" % peer_chain, cut=cut)
    f = ctx.index.func("keyexchange:KeyExchange._tls12_verify_SKE")
    g = ctx.an.cfg(f)
    tests = [t for t in g.nodes if t.kind == "test" and "not in validSigAlgs" in norm(t.expr)]
    eff = [t for t in tests if "T" in dead_edge_labels(g, t, [g.exit])]
    must_pass(ctx, R, f, g, [g.entry], [g.exit], eff,
              "ServerKeyExchange signature algorithm checked against the offered list",
              "the TLS 1.2 ServerKeyExchange signature algorithm is not checked against the client's list",
              start_after=False)
    f = ctx.index.func("x509:DelegatedCredential.verify")
    g = ctx.an.cfg(f)
    for frag, what in (("self.cred.dc_cert_verify_algorithm not in dc_sig_list.sigalgs", "DC verify algorithm offered"),
                       ("self.algorithm not in sig_list.sigalgs", "DC signature algorithm offered"),
                       ("dc_cert_verify_algorithm != cert_verify.signatureAlgorithm", "DC algorithm equals CertificateVerify scheme")):
        tests = [t for t in g.nodes if t.kind == "test" and norm(t.expr) == frag]
        eff = [t for t in tests if "T" in dead_edge_labels(g, t, [g.exit])]
        must_pass(ctx, R, f, g, [g.entry], [g.exit], eff, "delegated credential: " + what,
                  "DelegatedCredential.verify can succeed without the check: " + what, start_after=False)


def rule_dc(ctx):
    R = "C05.DC"
    fi = ctx.index.func(TLSCONN + "_clientTLS13Handshake")
    g = ctx.an.cfg(fi)
    sites = dc_gates(g)
    ctx.require(len(sites) >= 1, "C05.DC: delegated credential verification site not found")
    sinks = [x for x in g.nodes if is_value_yield(x)]
    for n, call in sites:
        ok = "T" in dead_edge_labels(g, n, sinks) and len(call.args) >= 3
        a0 = call.args[0] if call.args else None
        okdef = False
        if isinstance(a0, ast.Name):
            at = [x for x in g.nodes if x.kind == "stmt" and x.ast is not None
                  and any(c is call for c in calls_in(x.ast))] or [n]
            defs = reaching_defs(g, at[0], a0.id)
            okdef = bool(defs) and all(
                d.kind == "stmt" and isinstance(d.ast, ast.Assign) and
                norm(d.ast.value) == "certificate.certificate_list[0]" for d in defs)
        # the credential itself must come from that same entry
        recv = norm(call.func.value) if isinstance(call.func, ast.Attribute) else ""
        okext = False
        root = recv.split(".")[0]
        # flow-insensitive slice of the receiver: through assignments, for-loop variables and comprehensions
        want = (a0.id + ".extensions") if isinstance(a0, ast.Name) else None
        names, seen_n, exprs = {root}, set(), []
        while names - seen_n:
            cur = (names - seen_n).pop()
            seen_n.add(cur)
            for d in g.nodes:
                if d.kind == "stmt" and isinstance(d.ast, ast.Assign) and any(
                        isinstance(x, ast.Name) and x.id == cur for t in d.ast.targets for x in ast.walk(t)):
                    exprs.append(d.ast.value)
                elif d.kind == "loop" and isinstance(d.ast, ast.For) and any(
                        isinstance(x, ast.Name) and x.id == cur for x in ast.walk(d.ast.target)):
                    exprs.append(d.ast.iter)
            for e_ in exprs:
                for x in ast.walk(e_):
                    if isinstance(x, ast.Name) and isinstance(x.ctx, ast.Load):
                        names.add(x.id)
        okext = want is not None and any(attr_chain(x) == want for e_ in exprs for x in ast.walk(e_)
                                         if isinstance(x, ast.Attribute))
        ctx.check(R, ok and okdef and okext, fi.qname, "delegated credential verified against the end-entity entry",
                  "the delegated credential is not verified against certificate_list[0] (the end-entity "
                  "certificate whose key must have signed it), or the gate is not effective", fi.loc(n.ast))
        # after a verified DC the key used for CertificateVerify is the credential's
        nxt = g.reach(g.succ_on(n, "F"))
        sets_key = [x for x in g.nodes if x.id in nxt and x.kind == "stmt" and
                    norm(x.ast) == "publicKey = delegated_credential.cred.pub_key"]
        ctx.check(R, bool(sets_key), fi.qname, "CertificateVerify key switched to the verified credential",
                  "after verifying a delegated credential its public key must be used for CertificateVerify",
                  fi.loc(n.ast))


def rule_pha(ctx):
    R = "C05.PHA"
    fi = ctx.index.func(TLSREC + "_handle_srv_pha")
    g = ctx.an.cfg(fi)
    sinks = [n for n in g.nodes if assigns(n, "self.session.clientCertChain")]
    ctx.require(len(sinks) == 1, "C05.PHA: identity assignment not found")
    fin = fin_summary(ctx)
    ok, path = fin.dominated(fi, sinks[0])
    ctx.check(R, ok, fi.qname, "PHA identity recorded only after the client's Finished verified",
              "session.clientCertChain can be set from post-handshake authentication without a verified "
              "Finished", fi.loc(sinks[0].ast), path=lines(path) if path else None)
    pops = [n for n in g.nodes if n.kind == "stmt" and "self._cert_requests.pop(" in norm(n.ast)]
    okpop = False
    if pops:
        exc = [m for m, l in pops[0].succ if l.startswith("exc")]
        # KeyError of dict.pop is implicit: find the enclosing try's KeyError handler
        hs = [h for (tr, h, hn) in g.handlers if any(pops[0].ast is s or pops[0].ast in ast.walk(s) for s in tr.body)
              for hn_ in [hn]]
        for (tr, h, hn) in g.handlers:
            if any(pops[0].ast is s for s in tr.body) and "KeyError" in norm(h.type or ast.Name(id="")):
                seen = g.reach([hn])
                okpop = not any(s.id in seen for s in sinks) and g.exit.id not in seen
    gets = [n for n in g.nodes if n.ast is not None and n.kind in ("stmt", "test") and
            ("self._cert_requests.get(" in norm(n.ast if n.kind == "stmt" else n.expr)
             or "self._cert_requests[" in norm(n.ast if n.kind == "stmt" else n.expr))]
    must_pass(ctx, R, fi, g, [g.entry], sinks, pops if okpop else [],
              "request context consumed with pop() under a non-returning KeyError handler",
              "a post-handshake authentication flight is accepted without retiring its request context "
              "(a context could be answered twice or never have been issued)", start_after=False)
    ctx.check(R, not gets, fi.qname, "no non-consuming lookup of the request context",
              "the request context is looked up without being removed", fi.loc(gets[0].ast) if gets else fi.loc())
    empty = [t for t in g.nodes if t.kind == "test" and norm(t.expr) == "not cr_context"]
    ctx.check(R, bool(empty) and "T" in dead_edge_labels(g, empty[0], sinks), fi.qname,
              "empty request context refused", "an empty certificate_request_context must be refused", fi.loc())


def rule_ticket_identity(ctx):
    R = "C05.TICKET-ID"
    fi = ctx.index.func(TLSCONN + "_serverTLS13Handshake")
    g = ctx.an.cfg(fi)
    srcs = [n for n in g.nodes if assigns(n, "resumed_client_cert_chain") and
            "client_cert_chain" in norm(n.ast.value)]
    ctx.require(len(srcs) >= 1, "C05.TICKET-ID: binding of the ticket's client chain not found")
    loops = [n for n in g.nodes if n.kind == "loop" and "psks.identities" in norm(n.expr)]
    sends = consumes_of(g, "_sendMsgs")
    vb = []
    for n in nodes_with_call(g, "verify_binder"):
        exc = [m for m, l in n.succ if l.startswith("exc")]
        seen = g.reach(exc)
        if exc and not any(s.id in seen for s in sends) and g.exit.id not in seen:
            vb.append(n)
    if srcs:
        must_pass(ctx, R, fi, g, srcs, loops + sends[:1], vb,
                  "ticket's client identity is bound only to the PSK whose binder is verified next",
                  "the client certificate chain stored in a ticket is attached to the connection before "
                  "that ticket is selected and its binder verified (another identity, or none, may end "
                  "up authenticating the connection)")


def rule_checker(ctx):
    R = "C05.CHECKER"
    fi = ctx.index.func(TLSCONN + "_handshakeWrapperAsync")
    g = ctx.an.cfg(fi)
    hs = [n for n in g.nodes if n.kind in ("consume", "loop") and norm(n.expr) == "handshaker"]
    ck = [n for n in g.nodes if n.kind == "stmt" and norm(n.ast) == "checker(self)"]
    ctx.require(bool(hs) and bool(ck), "C05.CHECKER: handshaker loop or checker call not found")
    if hs and ck:
        # checker after the handshake on the normal path; every normal exit with a checker passes it
        cut = falsy_edges(g, "checker")
        seen = g.reach(g.normal_succ(hs[0]), blocked=ck, cut=cut, follow_exc=False)
        ctx.check(R, g.exit.id not in seen, fi.qname, "checker(self) on every normal completion",
                  "the handshake wrapper can complete normally without running the supplied Checker",
                  fi.loc(ck[0].ast))
        before = g.reach([g.entry], blocked=hs)
        ctx.check(R, ck[0].id not in before, fi.qname, "checker runs after the handshake",
                  "the Checker runs before the handshake coroutine finished", fi.loc(ck[0].ast))
        # its failure handler must end in raise
        okh = False
        for (tr, h, hn) in g.handlers:
            if "TLSAuthenticationError" in norm(h.type or ast.Name(id="")):
                seenh = g.reach([hn], follow_exc=False)     # exceptions of sending the alert aside
                okh = g.exit.id not in seenh and any(
                    x.kind == "raise" and x.id in seenh for x in g.nodes)
        ctx.check(R, okh, fi.qname, "TLSAuthenticationError handler re-raises",
                  "a Checker failure is swallowed by the handshake wrapper", fi.loc())
        # a Checker failure ends like every other handshake failure: the call lies inside the try whose
        # catch-all handler shuts the connection down non-resumably (otherwise the rejected peer can resume)
        shut = [tr for (tr, h, hn) in g.handlers if h.type is None and any(
            isinstance(x, ast.Call) and call_name(x) == "_shutdown" and x.args and norm(x.args[0]) == "False"
            for s_ in h.body for x in ast.walk(s_))]
        inside = any(any(x is ck[0].ast for s_ in tr.body for x in ast.walk(s_)) for tr in shut)
        ctx.check(R, bool(shut) and inside, fi.qname, "Checker failure shuts the connection down",
                  "checker(self) runs outside the try whose catch-all handler calls _shutdown(False): after a "
                  "Checker mismatch the connection stays open and the session resumable", fi.loc(ck[0].ast))
    ckf = ctx.index.func("checker:Checker.__call__")
    gc = ctx.an.cfg(ckf)
    raises = [n for n in gc.nodes if n.kind == "raise"]
    ctx.check(R, len(raises) >= 3, ckf.qname, "Checker raises on mismatch",
              "Checker.__call__ lost its mismatch raises", ckf.loc())


def rule_cache(ctx):
    R = "C05.CACHE"
    fin = fin_summary(ctx)
    n_sites = 0
    for fi in ctx.index.all_functions():
        if fi.module.name != "tlsconnection":
            continue
        g = ctx.an.cfg(fi)
        for n in g.nodes:
            if n.kind == "stmt" and isinstance(n.ast, ast.Assign) and \
                    any(isinstance(t, ast.Subscript) and attr_chain(t.value) == "sessionCache"
                        for t in n.ast.targets):
                n_sites += 1
                ok, path = fin.dominated(fi, n)
                ctx.check(R, ok, fi.qname, n.ast,
                          "a session is stored in the session cache before the peer's Finished was verified",
                          fi.loc(n.ast), path=lines(path) if path else None)
    ctx.require(n_sites >= 1, "C05.CACHE: no session cache store found")


def rule_named_gates(ctx):
    """further proof-of-possession gates, each named by what it compares."""
    R = "C05.GATES"
    # the delegated credential itself: signed by the end-entity certificate's key
    f = ctx.index.func("x509:DelegatedCredential.verify")
    g = ctx.an.cfg(f)
    rets = [n for n in g.nodes if n.kind == "return"]
    gates = []
    for t in g.nodes:
        r = _key_exprs_of_gate(g, t)
        if r and "T" in dead_edge_labels(g, t, rets):
            call, keys = r
            okk = all(norm(k[1] if isinstance(k, tuple) else k) == "cert_pub_key" for k in keys)
            if okk and call.args and norm(call.args[0]) == "self.signature":
                gates.append(t)
    must_pass(ctx, R, f, g, [g.entry], rets, gates,
              "delegated credential: signature verified with the certificate's public key",
              "DelegatedCredential.verify can return True without a verified signature by the end-entity "
              "certificate's key over the credential", start_after=False)
    src = [norm(x) for x in own_nodes(f.node) if isinstance(x, ast.Assign)]
    ctx.check(R, "cert_pub_key = certificate.publicKey" in src and "certificate = certificate_entry.certificate" in src,
              f.qname, "the verifying key is the presented certificate's key",
              "DelegatedCredential.verify must verify with certificate_entry.certificate.publicKey", f.loc())
    ctx.check(R, any(s_.startswith("sig_context = DelegatedCredential.compute_certificate_dc_sig_context(certificate.bytes, self.cred.bytes")
                     for s_ in src), f.qname, "signed context binds certificate and credential",
              "the delegated credential signature context must cover the certificate and the credential bytes", f.loc())
    gate_table(ctx, R, "x509:DelegatedCredential.verify", [
        dict(what="delegated credential: ECDSA hash matches the certificate's curve", text="hash_name != matching_hash",
             fail="T", cut_tests={"sig_scheme[1] == SignatureAlgorithm.ecdsa": "F",
                                   "sig_scheme in (SignatureScheme.ed25519, SignatureScheme.ed448)": "T"}),
    ], sinks="return")
    gate_table(ctx, R, TLSCONN + "_clientGetKeyFromChain", [
        dict(what="client refuses an empty server certificate chain",
             text="not cert_chain or cert_chain.getNumCerts() == 0", fail="T"),
    ], sinks="yield")
    gate_table(ctx, R, TLSCONN + "_clientTLS13Handshake", [
        dict(what="delegated credential accepted only if the client offered the extension",
             text="not settings.dc_sig_algs", fail="T", presence="cert_ext",
             protects=lambda n: n.kind == "stmt" and "publicKey = delegated_credential.cred.pub_key" in norm(n.ast)),
        dict(what="at most one delegated credential per certificate entry", text="len(del_cred_list) > 1", fail="T",
             protects=lambda n: n.kind == "stmt" and "publicKey = delegated_credential.cred.pub_key" in norm(n.ast)),
        dict(what="TLS 1.3 ECDSA CertificateVerify hash matches the certificate's curve",
             text="hash_name != matching_hash", fail="T",
             protects=lambda n: n.kind == "stmt" and norm(n.ast) == "method = publicKey.verify" and
             n.line > 0 and False) ,
    ][:2], sinks="yield")
    fi = ctx.index.func(TLSCONN + "_clientTLS13Handshake")
    g = ctx.an.cfg(fi)
    t = [x for x in g.nodes if x.kind == "test" and norm(x.expr) == "hash_name != matching_hash"]
    ys = [n for n in g.nodes if is_value_yield(n)]
    ctx.check(R, bool(t) and "T" in dead_edge_labels(g, t[0], ys), fi.qname,
              "TLS 1.3 ECDSA CertificateVerify hash matches the certificate's curve",
              "the curve/hash consistency gate of the TLS 1.3 CertificateVerify is missing or not effective", fi.loc())
    # PHA: both membership gates, each against its own list
    gate_table(ctx, R, TLSREC + "_handle_srv_pha", [
        dict(what="PHA: scheme among those in OUR CertificateRequest",
             text="cert_verify.signatureAlgorithm not in valid_sig_algs", fail="T", presence="cert.cert_chain"),
        dict(what="PHA: scheme consistent with the client's key", text="cert_verify.signatureAlgorithm not in avail_sig_algs",
             fail="T", presence="cert.cert_chain"),
    ], sinks=lambda n: n.kind == "stmt" and norm(n.ast).startswith("self.session.clientCertChain ="))
    f = ctx.index.func(TLSREC + "_handle_srv_pha")
    from .common import resolved_text
    okl = False
    for x in own_nodes(f.node):
        if isinstance(x, ast.Assign) and norm(x.targets[0]) == "valid_sig_algs" and isinstance(x.value, ast.Attribute) \
                and x.value.attr == "supported_signature_algs":
            okl = resolved_text(f.node, x.value.value).startswith("self._cert_requests.pop(")
    ctx.check(R, okl, f.qname,
              "PHA: the offered list is the one of the matching CertificateRequest",
              "the PHA scheme must be checked against the signature algorithms of the CertificateRequest whose "
              "context the client answered", f.loc())
    g = ctx.an.cfg(f)
    req = [x for x in g.nodes if x.kind == "test" and norm(x.expr) == "self.client_cert_required"]
    sink = [n for n in g.nodes if n.kind == "stmt" and norm(n.ast).startswith("self.session.clientCertChain =")]
    ctx.check(R, bool(req) and "T" in dead_edge_labels(g, req[0], sink), f.qname,
              "PHA: an empty Certificate is refused when a certificate is required",
              "with client_cert_required an empty post-handshake Certificate must be refused", f.loc())


def rule_chain_source(ctx):
    """CHAIN-SOURCE: the server chain a client records for a handshake comes from what it received and
    verified in THIS handshake: the reaching-definition slice of the `serverCertChain` argument of
    Session.create in the client flows never reads the previously established session (the `session`
    parameter / self.session), whose chain was proven in another handshake, possibly by another peer."""
    R = "C05.CHAIN-SOURCE"
    cr = ctx.index.func("session:Session.create")
    params = [a.arg for a in cr.node.args.args[1:]]
    if "serverCertChain" not in params:
        raise AnalysisError("C05.CHAIN-SOURCE: Session.create has no serverCertChain parameter")
    pos = params.index("serverCertChain")
    sites = 0
    for q in (TLSCONN + "_handshakeClientAsyncHelper", TLSCONN + "_clientTLS13Handshake"):
        fi = ctx.index.func(q)
        g = ctx.an.cfg(fi)
        for n in g.nodes:
            if n.kind != "stmt" or n.ast is None:
                continue
            for c in calls_in(n.ast):
                if call_name(c) != "create" or norm(c.func.value) not in ("self.session", "session"):
                    continue
                arg = c.args[pos] if len(c.args) > pos else next(
                    (k.value for k in c.keywords if k.arg == "serverCertChain"), None)
                if arg is None:
                    continue
                sites += 1
                # flow-sensitive backward slice over simple assignments
                todo = [(n, arg)]
                seen = set()
                bad = None
                while todo and bad is None:
                    at, e = todo.pop()
                    for x in ast.walk(e):
                        if isinstance(x, ast.Attribute) and (attr_chain(x) or "").startswith("self.session"):
                            bad = (at, x)
                        if not isinstance(x, ast.Name) or not isinstance(x.ctx, ast.Load):
                            continue
                        if x.id == "session":
                            bad = (at, x)
                            break
                        for d in reaching_defs(g, at, x.id):
                            if d.id in seen or d.ast is None:
                                continue
                            seen.add(d.id)
                            if isinstance(d.ast, ast.Assign):
                                todo.append((d, d.ast.value))
                ctx.check(R, bad is None, fi.qname, "serverCertChain recorded by %s comes from this handshake" % fi.short,
                          "the server certificate chain recorded for this handshake is taken from the previously "
                          "established session (`%s`): a peer that never presented (or proved) that certificate - "
                          "e.g. one selected through an unrelated PSK - is reported, and accepted by a Checker, as "
                          "its owner" % (norm(bad[0].ast)[:80] if bad else ""),
                          fi.loc(bad[0].ast) if bad else fi.loc(n.ast))
    ctx.require(sites >= 2, "C05.CHAIN-SOURCE: %d client Session.create sites found, floor 2" % sites)


def rule_end_entity(ctx):
    """END-ENTITY: what is reported about a chain (public key, fingerprint, TACK extension) is taken
    from the certificate whose key possession was proved - the first one.  Every method of
    X509CertChain that picks ONE certificate out of `x509List` by a fixed position picks the one
    getEndEntityPublicKey picks."""
    from ..condeval import ev, Unknown
    R = "C05.END-ENTITY"
    cls = ctx.index.cls("x509certchain:X509CertChain")

    def picks(fi):
        out = []
        for n in own_nodes(fi.node):
            if isinstance(n, ast.Subscript) and attr_chain(n.value) == "self.x509List" \
                    and not isinstance(n.slice, ast.Slice) and isinstance(n.ctx, ast.Load):
                try:
                    out.append((ev(n.slice, {}), n))
                except (Unknown, TypeError):
                    out.append((None, n))
        return out
    ref = picks(ctx.index.func("x509certchain:X509CertChain.getEndEntityPublicKey"))
    if len(ref) != 1 or ref[0][0] is None:
        raise AnalysisError("%s: getEndEntityPublicKey does not pick one fixed certificate" % R)
    n_sites = 0
    for name, fi in sorted(cls.methods.items()):
        for pos, node in picks(fi):
            n_sites += 1
            # the same element: equal position (0 and -len are not told apart; -1 is the other end)
            ctx.check(R, pos == ref[0][0], fi.qname, node,
                      "%s takes certificate %r of the chain, the proved end-entity certificate is number %r "
                      "(getEndEntityPublicKey)" % (fi.short, pos, ref[0][0]), fi.loc(node),
                      what="%s reads the end-entity certificate" % fi.short)
    if n_sites < 3:
        raise AnalysisError("%s: only %d fixed picks from x509List found (confirmed 3)" % (R, n_sites))


RULES = [
    ("C05.END-ENTITY", "quick", rule_end_entity),
    ("C05.CHAIN-SOURCE", "quick", rule_chain_source),
    ("C05.AUTH13", "quick", rule_auth13),
    ("C05.GATES", "quick", rule_named_gates),
    ("C05.SIG", "quick", rule_sig),
    ("C05.SCHEME", "quick", rule_scheme),
    ("C05.DC", "quick", rule_dc),
    ("C05.PHA", "quick", rule_pha),
    ("C05.TICKET-ID", "quick", rule_ticket_identity),
    ("C05.CHECKER", "quick", rule_checker),
    ("C05.CACHE", "quick", rule_cache),
    ("C05.PROOF-VALUES", "quick", borrowed("c10", "rule_peer_values", "C10.PEER-VALUES", "C05.PROOF-VALUES")),
]
