"""C20 - negotiated cipher-suite semantics match the suite's IANA name.

The CipherSuite class body is evaluated from its syntax tree; each IANA name is parsed
by the registry's grammar; every classification list, record-layer cascade, canonical
name cascade, key-exchange cascade, PRF selection and settings-policy table is compared
with what the name says, for every negotiable suite.
"""
import ast
import re

from ..index import AnalysisError, attr_chain, norm, own_nodes
from ..consteval import ClassEval
from .common import borrowed

EXPLANATION = (
    "Static table check. The CipherSuite class body of tlslite/constants.py is evaluated from its "
    "syntax tree (no import, no execution of library code); every suite's IANA name (ietfNames) is "
    "parsed by the registry grammar TLS_<kx>_WITH_<cipher>[_<mac>] / TLS_<aead>_<hash> into key "
    "exchange, authentication, cipher, key/IV size, MAC or AEAD, PRF hash and minimum version. For "
    "every negotiable suite (passes _filterSuites for permissive settings and filterForVersion for "
    "some version, both read as tables from their syntax trees) the rule compares: membership in "
    "every classification list; the first matching arm of _getCipherSettings/_getMacSettings; "
    "canonicalCipherName/canonicalMacName; the key-exchange class cascades of client and server and "
    "ServerKeyExchange/ClientKeyExchange codecs; every sha384PrfSuites selection site; and the "
    "settings-name -> list policy tables of _filterSuites and the version table of filterForVersion.")
NOT_DECIDED = ("what a live handshake puts on the wire; that the cipher constructors implement the "
               "named algorithm (C09); suites that are defined but not negotiable are only reported as "
               "information")
TECHNIQUE = "constant evaluation of class body + per-suite partial evaluation of membership cascades vs IANA-name oracle"

CONST = "constants:CipherSuite"

# cipher part of the IANA name -> (canonical name, list, key bytes, fixed IV bytes, ctor, aead)
CIPHERS = [
    ("AES_128_GCM", "aes128gcm", "aes128GcmSuites", 16, 4, "createAESGCM", True),
    ("AES_256_GCM", "aes256gcm", "aes256GcmSuites", 32, 4, "createAESGCM", True),
    ("AES_128_CCM_8", "aes128ccm_8", "aes128Ccm_8Suites", 16, 4, "createAESCCM_8", True),
    ("AES_256_CCM_8", "aes256ccm_8", "aes256Ccm_8Suites", 32, 4, "createAESCCM_8", True),
    ("AES_128_CCM", "aes128ccm", "aes128CcmSuites", 16, 4, "createAESCCM", True),
    ("AES_256_CCM", "aes256ccm", "aes256CcmSuites", 32, 4, "createAESCCM", True),
    ("CHACHA20_POLY1305_draft_00", "chacha20-poly1305_draft00", "chacha20draft00Suites", 32, 4,
     "createCHACHA20", True),
    ("CHACHA20_POLY1305", "chacha20-poly1305", "chacha20Suites", 32, 12, "createCHACHA20", True),
    ("AES_128_CBC", "aes128", "aes128Suites", 16, 16, "createAES", False),
    ("AES_256_CBC", "aes256", "aes256Suites", 32, 16, "createAES", False),
    ("3DES_EDE_CBC", "3des", "tripleDESSuites", 24, 8, "createTripleDES", False),
    ("RC4_128", "rc4", "rc4Suites", 16, 0, "createRC4", False),
    ("NULL", "null", "nullSuites", 0, 0, None, False),
]
CIPHER_LISTS = sorted({c[2] for c in CIPHERS})
MACS = {"MD5": ("md5", "md5Suites", 16, "md5"), "SHA": ("sha", "shaSuites", 20, "sha1"),
        "SHA256": ("sha256", "sha256Suites", 32, "sha256"),
        "SHA384": ("sha384", "sha384Suites", 48, "sha384")}
MAC_LISTS = ["md5Suites", "shaSuites", "sha256Suites", "sha384Suites"]
# key exchange part of the name -> (family list, key exchange, authentication)
KX = {
    "RSA": ("certSuites", "rsa", "rsa"),
    "DHE_RSA": ("dheCertSuites", "dhe", "rsa"),
    "DHE_DSS": ("dheDsaSuites", "dhe", "dsa"),
    "ECDHE_RSA": ("ecdheCertSuites", "ecdhe", "rsa"),
    "ECDHE_ECDSA": ("ecdheEcdsaSuites", "ecdhe", "ecdsa"),
    "SRP_SHA": ("srpSuites", "srp", None),
    "SRP_SHA_RSA": ("srpCertSuites", "srp", "rsa"),
    "DH_ANON": ("anonSuites", "dh_anon", None),
    "ECDH_ANON": ("ecdhAnonSuites", "ecdh_anon", None),
    None: ("tls13Suites", "tls13", "any"),
}
KX_LISTS = ["certSuites", "dheCertSuites", "dheDsaSuites", "ecdheCertSuites", "ecdheEcdsaSuites",
            "srpSuites", "srpCertSuites", "anonSuites", "ecdhAnonSuites"]
# derived lists: name -> predicate over parsed suite
DERIVED = {
    "srpAllSuites": lambda p: p["kx"] == "srp" and p["kxname"] in ("SRP_SHA", "SRP_SHA_RSA"),
    "certAllSuites": lambda p: p["auth"] == "rsa" and p["kxname"] in KX,
    "dhAllSuites": lambda p: p["kx"] in ("dhe", "dh_anon") and p["kxname"] in KX,
    "ecdhAllSuites": lambda p: p["kx"] in ("ecdhe", "ecdh_anon") and p["kxname"] in KX,
    "aeadSuites": lambda p: p["aead"],
    "streamSuites": lambda p: p["cipher"] in ("rc4", "null"),
}
SUITE_EXPR_TAILS = ("cipherSuite", "cipher_suite", "ciphersuite")


def parse_name(name):
    """IANA name -> dict, or None for SSLv2 / signalling values."""
    if name.startswith("SSL_CK") or "SCSV" in name:
        return None
    m = re.match(r"TLS_(?:(.+)_WITH_)?(.+)$", name)
    if not m:
        return None
    kxname, rest = m.group(1), m.group(2)
    for pat, cname, clist, klen, ivlen, ctor, aead in CIPHERS:
        if rest.startswith(pat):
            tail = rest[len(pat):].lstrip("_")
            break
    else:
        return None
    kxinfo = KX.get(kxname)
    p = {"name": name, "kxname": kxname, "cipher": cname, "cipher_list": clist, "keylen": klen,
         "ivlen": ivlen, "ctor": ctor, "aead": aead, "tail": tail,
         "kx_list": kxinfo[0] if kxinfo else None, "kx": kxinfo[1] if kxinfo else _kx_other(kxname),
         "auth": kxinfo[2] if kxinfo else None}
    if aead:
        p["mac"] = None
        p["prf"] = "sha384" if tail == "SHA384" else "sha256"
        p["minver"] = "tls13" if kxname is None else "tls12"
    else:
        if tail not in MACS:
            return None
        p["mac"] = MACS[tail][0]
        p["prf"] = {"SHA256": "sha256", "SHA384": "sha384"}.get(tail)   # None: version default
        p["minver"] = "tls12" if tail in ("SHA256", "SHA384") else "ssl3"
    return p


def _kx_other(kxname):
    return "other:" + str(kxname)


class Tables(object):
    def __init__(self, ctx):
        ix = ctx.index
        m = ix.module("constants")
        cls = ix.cls(CONST)
        self.ev = ClassEval(cls.node, what="constants.CipherSuite")
        env = self.ev.own
        if "ietfNames" not in env or not isinstance(env["ietfNames"], dict):
            raise AnalysisError("anchor vanished: CipherSuite.ietfNames")
        self.names = env["ietfNames"]
        self.lists = {k: v for k, v in env.items() if isinstance(v, list)}
        self.parsed = {}
        for sid, nm in self.names.items():
            p = parse_name(nm)
            if p:
                self.parsed[sid] = p
        self.cls = cls
        self.policy = read_filter_suites(ix.func(CONST + "._filterSuites"))
        mac_u, ciph_u, kx_u = set(), set(), set()
        for nm, lst, minv in self.policy["mac"]:
            mac_u |= set(self.L(lst))
        for nm, lst, minv in self.policy["cipher"]:
            ciph_u |= set(self.L(lst))
        for nm, lst, minv in self.policy["kx"]:
            kx_u |= set(self.L(lst))
        ver_u = set(self.L("ssl3Suites")) | set(self.L("tls12Suites")) | set(self.L("tls13Suites"))
        self.negotiable = sorted(s for s in self.parsed
                                 if s in mac_u and s in ciph_u and s in kx_u and s in ver_u)

    def L(self, name):
        if name not in self.lists:
            raise AnalysisError("anchor vanished: CipherSuite.%s" % name)
        return self.lists[name]

    def label(self, sid):
        return "%s(0x%04x)" % (self.names.get(sid, "?"), sid)


def _tables(ctx):
    if "c20_tables" not in ctx.__dict__:
        ctx.c20_tables = Tables(ctx)
    return ctx.c20_tables


# ----------------------------------------------------------------- _filterSuites as table
def read_filter_suites(fi):
    """read `_filterSuites` as three tables of (settings name, list, min version)."""
    fn = fi.node
    acc_of = {}     # accumulator var -> kind
    rows = {"mac": [], "cipher": [], "kx": []}
    names_var = {}  # local -> settings attr
    for st in fn.body:
        if isinstance(st, ast.Assign) and len(st.targets) == 1 and isinstance(st.targets[0], ast.Name):
            v = st.value
            if isinstance(v, ast.Attribute) and isinstance(v.value, ast.Name) and v.value.id == "settings":
                names_var[st.targets[0].id] = v.attr
            elif (isinstance(v, ast.List) and not v.elts) or (
                    isinstance(v, ast.Call) and isinstance(v.func, ast.Name) and v.func.id in ("set", "list")
                    and not v.args and not v.keywords):
                acc_of[st.targets[0].id] = None

    def accumulation(s):
        """`acc += L`, `acc.update(L)` / `acc.extend(L)`, `acc |= set(L)`, `acc = acc + L` -> (acc, L)"""
        def unwrap(e):
            if isinstance(e, ast.Call) and isinstance(e.func, ast.Name) and e.func.id in ("set", "list", "tuple", "frozenset") \
                    and len(e.args) == 1 and not e.keywords:
                return e.args[0]
            return e
        if isinstance(s, ast.AugAssign) and isinstance(s.op, (ast.Add, ast.BitOr)) and isinstance(s.target, ast.Name):
            return s.target.id, unwrap(s.value)
        if isinstance(s, ast.Expr) and isinstance(s.value, ast.Call) and isinstance(s.value.func, ast.Attribute) \
                and s.value.func.attr in ("update", "extend") and isinstance(s.value.func.value, ast.Name) \
                and len(s.value.args) == 1 and not s.value.keywords:
            return s.value.func.value.id, unwrap(s.value.args[0])
        if isinstance(s, ast.Assign) and len(s.targets) == 1 and isinstance(s.targets[0], ast.Name) \
                and isinstance(s.value, ast.BinOp) and isinstance(s.value.op, (ast.Add, ast.BitOr)) \
                and isinstance(s.value.left, ast.Name) and s.value.left.id == s.targets[0].id:
            return s.targets[0].id, unwrap(s.value.right)
        return None
    kind_of_names = {"macNames": "mac", "cipherNames": "cipher", "keyExchangeNames": "kx"}
    for st in fn.body:
        if not isinstance(st, ast.If):
            continue
        if st.orelse:
            continue
        # body: acc += CipherSuite.X (or one of its spellings)
        a_ = accumulation(st.body[0]) if len(st.body) == 1 else None
        if a_ is None:
            if any(isinstance(x, ast.Name) and x.id in acc_of for x in ast.walk(st)):
                raise AnalysisError("_filterSuites: unrecognised accumulation %s" % norm(st.body[0]))
            continue
        acc = a_[0]
        lst = attr_chain(a_[1])
        if acc not in acc_of or not lst or not lst.startswith("CipherSuite."):
            raise AnalysisError("_filterSuites: unrecognised accumulation %s" % norm(st.body[0]))
        conds = st.test.values if isinstance(st.test, ast.BoolOp) and isinstance(st.test.op, ast.And) \
            else [st.test]
        name, minv, kind = None, None, None
        for c in conds:
            if isinstance(c, ast.Compare) and len(c.ops) == 1 and isinstance(c.ops[0], ast.In) \
                    and isinstance(c.left, ast.Constant) and isinstance(c.comparators[0], ast.Name):
                name = c.left.value
                kind = kind_of_names.get(names_var.get(c.comparators[0].id))
            elif isinstance(c, ast.Compare) and len(c.ops) == 1 and isinstance(c.ops[0], ast.GtE) \
                    and isinstance(c.left, ast.Name) and c.left.id == "version":
                minv = ast.literal_eval(c.comparators[0])
            elif isinstance(c, ast.Compare) and len(c.ops) == 1 and isinstance(c.ops[0], ast.Gt) \
                    and isinstance(c.left, ast.Name) and c.left.id == "version":
                v_ = ast.literal_eval(c.comparators[0])
                minv = (v_[0], v_[1] + 1)          # `version > (3, 3)` admits (3, 4) upwards
            else:
                raise AnalysisError("_filterSuites: unrecognised condition %s" % norm(c))
        if name is None and minv is not None and lst == "CipherSuite.tls13Suites":
            # `if version >= (3, 4): keyExchangeSuites += tls13Suites`
            rows["kx"].append((None, "tls13Suites", minv))
            acc_of[acc] = "kx"
            continue
        if kind is None:
            raise AnalysisError("_filterSuites: row without settings name list: %s" % norm(st.test))
        if acc_of[acc] not in (None, kind):
            raise AnalysisError("_filterSuites: accumulator %s mixes %s and %s" % (acc, acc_of[acc], kind))
        acc_of[acc] = kind
        rows[kind].append((name, lst.split(".", 1)[1], minv))
    # the return must be the conjunction of three memberships
    ret = [s for s in fn.body if isinstance(s, ast.Return)]
    ok = False
    if len(ret) == 1 and isinstance(ret[0].value, ast.ListComp):
        lc = ret[0].value
        g = lc.generators[0]
        conj = []
        for cond in g.ifs:
            conj += cond.values if isinstance(cond, ast.BoolOp) and isinstance(cond.op, ast.And) else [cond]
        accs = set()
        for c in conj:
            if isinstance(c, ast.Compare) and isinstance(c.ops[0], ast.In) and \
                    isinstance(c.comparators[0], ast.Name):
                accs.add(c.comparators[0].id)
        kinds = {acc_of.get(a) for a in accs}
        ok = kinds >= {"mac", "cipher", "kx"} and len(lc.generators) == 1 \
            and isinstance(g.iter, ast.Name) and g.iter.id == "suites"
    rows["return_ok"] = ok
    rows["loc"] = fi.loc(ret[0]) if ret else fi.loc()
    return rows


# ----------------------------------------------------------------- per-suite partial evaluation
def _is_suite_expr(e):
    c = attr_chain(e)
    return c is not None and c.split(".")[-1] in SUITE_EXPR_TAILS


class SuiteWalk(object):
    """walk a function for one concrete suite: membership tests on the suite are decided,
    every other test explores both arms.  Collected facts: ('assign', target, value),
    ('return', value), ('call', name), ('assertfail', line)."""

    def __init__(self, tables, sid):
        self.t = tables
        self.sid = sid
        self.facts = []
        self.consts = {}     # local name -> constant value, or UNKNOWN
        self.asts = {}       # local name -> the expression it stands for (literal tables, loop rows)

    UNKNOWN = object()

    def test(self, e):
        if isinstance(e, ast.Name) and e.id in self.consts and self.consts[e.id] is not self.UNKNOWN:
            return bool(self.consts[e.id])
        if isinstance(e, ast.Compare) and len(e.ops) == 1 and isinstance(e.ops[0], (ast.In, ast.NotIn)) \
                and _is_suite_expr(e.left):
            cmp_ = e.comparators[0]
            if isinstance(cmp_, ast.Name) and cmp_.id in self.asts:
                cmp_ = self.asts[cmp_.id]
            c = attr_chain(cmp_)
            if c and c.startswith("CipherSuite."):
                v = self.sid in self.t.L(c.split(".", 1)[1])
                return v if isinstance(e.ops[0], ast.In) else not v
            return None
        if isinstance(e, ast.UnaryOp) and isinstance(e.op, ast.Not):
            v = self.test(e.operand)
            return None if v is None else not v
        if isinstance(e, ast.BoolOp):
            vals = [self.test(v) for v in e.values]
            if isinstance(e.op, ast.And):
                if any(v is False for v in vals):
                    return False
                return True if all(v is True for v in vals) else None
            if any(v is True for v in vals):
                return True
            return False if all(v is False for v in vals) else None
        return None

    def value(self, e):
        if e is None:
            return None
        if isinstance(e, ast.Constant):
            return e.value
        if isinstance(e, ast.Name):
            if e.id in self.asts and not (isinstance(self.asts[e.id], ast.Name) and self.asts[e.id].id == e.id):
                return self.value(self.asts[e.id])
            return "name:" + e.id
        if isinstance(e, ast.Attribute):
            return "attr:" + (attr_chain(e) or norm(e))
        if isinstance(e, ast.Tuple):
            return tuple(self.value(x) for x in e.elts)
        if isinstance(e, ast.Call):
            f = e.func
            return "call:" + (f.attr if isinstance(f, ast.Attribute) else getattr(f, "id", "?"))
        if isinstance(e, ast.IfExp):
            v = self.test(e.test)
            if v is True:
                return self.value(e.body)
            if v is False:
                return self.value(e.orelse)
            return ("either", self.value(e.body), self.value(e.orelse))
        return "expr:" + norm(e)[:60]

    def _rows(self, loop):
        it = loop.iter
        if isinstance(it, ast.Name) and it.id in self.asts:
            it = self.asts[it.id]
        if not isinstance(it, (ast.Tuple, ast.List)) or not it.elts or len(it.elts) > 40:
            return None
        tg = loop.target
        if isinstance(tg, ast.Name):
            return it.elts
        if isinstance(tg, ast.Tuple) and all(isinstance(x, ast.Name) for x in tg.elts) and \
                all(isinstance(el, (ast.Tuple, ast.List)) and len(el.elts) == len(tg.elts) for el in it.elts):
            return it.elts
        return None

    def _bind(self, target, el):
        if isinstance(target, ast.Name):
            self.asts[target.id] = el
        else:
            for t_, e_ in zip(target.elts, el.elts):
                self.asts[t_.id] = e_

    def _calls(self, node):
        for n in ast.walk(node):
            if isinstance(n, ast.Call):
                f = n.func
                nm = f.attr if isinstance(f, ast.Attribute) else getattr(f, "id", None)
                if nm:
                    self.facts.append(("call", nm))
                if nm == "_sendError" and n.args:
                    c = attr_chain(n.args[0]) or ""
                    self.facts.append(("senderror", c.split(".")[-1]))
                if nm == "_getMsg":
                    for a in n.args:
                        for x in ast.walk(a):
                            c = attr_chain(x) if isinstance(x, ast.Attribute) else None
                            if c and c.startswith("HandshakeType."):
                                self.facts.append(("getmsg", c.split(".", 1)[1]))

    def walk(self, stmts):
        """returns True if control definitely leaves the function."""
        for s in stmts:
            if isinstance(s, ast.If):
                v = self.test(s.test)
                if v is True:
                    if self.walk(s.body):
                        return True
                elif v is False:
                    if self.walk(s.orelse):
                        return True
                else:
                    self._calls(s.test)
                    before = dict(self.consts)
                    a = self.walk(s.body)
                    after_a = self.consts
                    self.consts = dict(before)
                    b = self.walk(s.orelse)
                    for k in set(after_a) | set(self.consts):
                        if after_a.get(k, self.UNKNOWN) is not self.consts.get(k, self.UNKNOWN) and \
                                after_a.get(k, self.UNKNOWN) != self.consts.get(k, self.UNKNOWN):
                            self.consts[k] = self.UNKNOWN
                        elif k not in self.consts or k not in after_a:
                            self.consts[k] = self.UNKNOWN
                    if a and b and s.orelse:
                        return True
            elif isinstance(s, ast.For) and self._rows(s) is not None:
                # a loop over a literal table of rows is walked row by row (`for suites, k, iv, f in TABLE`)
                left = False
                for el in self._rows(s):
                    self._bind(s.target, el)
                    if self.walk(s.body):
                        left = True
                        break
                for x in ast.walk(s.target):
                    if isinstance(x, ast.Name):
                        self.asts.pop(x.id, None)
                if left:
                    return True
                if self.walk(s.orelse):
                    return True
            elif isinstance(s, (ast.For, ast.While)):
                self._calls(s.iter if isinstance(s, ast.For) else s.test)
                if isinstance(s, ast.For):
                    for x in ast.walk(s.target):
                        if isinstance(x, ast.Name):
                            self.consts[x.id] = self.UNKNOWN
                self.walk(s.body)
                self.walk(s.orelse)
            elif isinstance(s, ast.With):
                self.walk(s.body)
            elif isinstance(s, ast.Try):
                self.walk(s.body)
                for h in s.handlers:
                    self.walk(h.body)
                self.walk(s.orelse)
                self.walk(s.finalbody)
            elif isinstance(s, ast.Assign):
                val = self.value(s.value)
                if len(s.targets) == 1 and isinstance(s.targets[0], ast.Name):
                    if isinstance(s.value, (ast.Tuple, ast.List)):
                        self.asts[s.targets[0].id] = s.value
                    else:
                        self.asts.pop(s.targets[0].id, None)
                for t in s.targets:
                    for x in ast.walk(t):
                        if isinstance(x, ast.Name):
                            self.consts[x.id] = s.value.value if (
                                isinstance(s.value, ast.Constant) and x is t) else self.UNKNOWN
                for t in s.targets:
                    k = attr_chain(t)
                    if k:
                        self.facts.append(("assign", k, val))
                    elif isinstance(t, ast.Tuple) and isinstance(val, tuple) and len(val) == len(t.elts):
                        for te, ve in zip(t.elts, val):
                            kk = attr_chain(te)
                            if kk:
                                self.facts.append(("assign", kk, ve))
                self._calls(s.value)
            elif isinstance(s, ast.Return):
                self.facts.append(("return", self.value(s.value)))
                if s.value is not None:
                    self._calls(s.value)
                return True
            elif isinstance(s, ast.Raise):
                nm = norm(s.exc) if s.exc is not None else ""
                if nm.startswith("AssertionError"):
                    self.facts.append(("assertfail", s.lineno))
                return True
            elif isinstance(s, ast.Assert):
                if isinstance(s.test, ast.Constant) and not s.test.value:
                    self.facts.append(("assertfail", s.lineno))
                    return True
            elif isinstance(s, (ast.FunctionDef, ast.ClassDef)):
                continue
            else:
                self._calls(s)
        return False


def walk_suite(tables, fi, sid):
    w = SuiteWalk(tables, sid)
    w.walk(fi.node.body)
    return w.facts


def assigned(facts, name):
    return [f[2] for f in facts if f[0] == "assign" and f[1] == name]


# ----------------------------------------------------------------- rules
def rule_tables(ctx):
    t = _tables(ctx)
    R = "C20.TABLES"
    ctx.info["suites_named"] = len(t.names)
    ctx.info["suites_parsed"] = len(t.parsed)
    ctx.info["lists"] = len(t.lists)
    ctx.info["negotiable"] = len(t.negotiable)
    ctx.info["defined_not_negotiable"] = sorted(t.label(s) for s in t.parsed if s not in t.negotiable)
    ctx.check(R, t.policy["return_ok"], CONST + "._filterSuites", "return of _filterSuites",
              "_filterSuites must return the suites that are in the MAC selection AND the cipher "
              "selection AND the key-exchange selection", t.policy["loc"])
    # every id is named once; names are unique
    rev = {}
    for sid, nm in t.names.items():
        rev.setdefault(nm, []).append(sid)
    for nm, ids in sorted(rev.items()):
        ctx.check(R, len(ids) == 1, CONST, "ietfNames[%s]" % nm,
                  "IANA name %s registered for %d different ids %s" % (nm, len(ids), ids))
    # the name constant bound to an id agrees with ietfNames
    for var, val in t.ev.own.items():
        if isinstance(val, int) and not isinstance(val, bool) and var.startswith("TLS_") and val in t.names:
            ctx.check(R, t.names[val] == var, CONST, "ietfNames[0x%04x] for %s" % (val, var),
                      "identifier %s = 0x%04x is registered under the name %s" % (var, val, t.names[val]))
    if len(t.negotiable) < 80:
        raise AnalysisError("C20: only %d negotiable suites found (confirmed floor 80)" % len(t.negotiable))


def rule_class(ctx):
    t = _tables(ctx)
    R = "C20.CLASS"
    for sid in t.negotiable:
        p = t.parsed[sid]
        lab = t.label(sid)

        def member(lst, expect, why):
            got = sid in t.L(lst)
            ctx.check(R, got == expect, CONST, "%s in %s" % (lab, lst),
                      "%s is %sin %s but its name says it %s (%s)" % (
                          lab, "" if got else "not ", lst, "should be" if expect else "should not be", why),
                      what="%s/%s" % (lab, lst))
        for lst in CIPHER_LISTS:
            member(lst, lst == p["cipher_list"], "cipher " + p["cipher"])
        for lst in MAC_LISTS:
            exp = (not p["aead"]) and MACS[p["tail"]][1] == lst
            member(lst, exp, "AEAD suites have no HMAC" if p["aead"] else "MAC " + str(p["mac"]))
        for lst in KX_LISTS + ["tls13Suites"]:
            member(lst, lst == p["kx_list"], "key exchange/authentication %s" % p["kxname"])
        for lst, pred in sorted(DERIVED.items()):
            member(lst, bool(pred(p)), "derived family")
        member("sha384PrfSuites", p["prf"] == "sha384", "PRF hash")
        member("sha256PrfSuites", p["prf"] == "sha256", "PRF hash")
        for lst, key in (("ssl3Suites", "ssl3"), ("tls12Suites", "tls12"), ("tls13Suites", "tls13")):
            if lst == "tls13Suites":
                continue     # checked with the kx lists
            member(lst, p["minver"] == key, "minimum version")
    # filterForVersion as a table over version pairs
    fi = ctx.index.func(CONST + ".filterForVersion")
    rows = []
    for st in fi.node.body:
        if isinstance(st, ast.If) and len(st.body) == 1 and isinstance(st.body[0], ast.Expr) \
                and isinstance(st.body[0].value, ast.Call) and not st.orelse:
            c = st.body[0].value
            if isinstance(c.func, ast.Attribute) and c.func.attr == "update" and c.args:
                lst = attr_chain(c.args[0])
                if lst and lst.startswith("CipherSuite."):
                    rows.append((st.test, lst.split(".", 1)[1], st))
    if len(rows) < 3:
        raise AnalysisError("filterForVersion: version table not recognised (%d rows)" % len(rows))
    valid = {"ssl3Suites": [(3, 0), (3, 1), (3, 2), (3, 3)], "tls12Suites": [(3, 3)],
             "tls13Suites": [(3, 4)]}
    vers = [(3, 0), (3, 1), (3, 2), (3, 3), (3, 4)]
    for test, lst, st in rows:
        if lst not in valid:
            ctx.fail(R, CONST + ".filterForVersion", norm(st), "unknown version family list " + lst,
                     fi.loc(st))
            continue
        bad = None
        for lo in vers:
            for hi in vers:
                if lo > hi:
                    continue
                got = _eval_cond(test, {"minVersion": lo, "maxVersion": hi})
                exp = any(lo <= v <= hi for v in valid[lst])
                if got != exp:
                    bad = (lo, hi, got, exp)
        ctx.check(R, bad is None, CONST + ".filterForVersion", "version condition of " + lst,
                  "for version range %s the family %s is %s but must be %s" % (
                      bad[:2] if bad else "", lst, "included" if bad and bad[2] else "excluded",
                      "included" if bad and bad[3] else "excluded"), fi.loc(st))
    ret = [s for s in fi.node.body if isinstance(s, ast.Return)]
    okret = len(ret) == 1 and isinstance(ret[0].value, ast.ListComp) and \
        "in includeSuites" in norm(ret[0].value)
    ctx.check(R, okret, CONST + ".filterForVersion", "return of filterForVersion",
              "filterForVersion must return the suites that are in the included families",
              fi.loc(ret[0]) if ret else fi.loc())


def _eval_cond(e, env):
    if isinstance(e, ast.BoolOp):
        vals = [_eval_cond(v, env) for v in e.values]
        return all(vals) if isinstance(e.op, ast.And) else any(vals)
    if isinstance(e, ast.UnaryOp) and isinstance(e.op, ast.Not):
        return not _eval_cond(e.operand, env)
    if isinstance(e, ast.Compare):
        def val(x):
            if isinstance(x, ast.Name):
                if x.id not in env:
                    raise AnalysisError("version condition uses unknown name " + x.id)
                return env[x.id]
            return ast.literal_eval(x)
        left = val(e.left)
        for op, c in zip(e.ops, e.comparators):
            r = val(c)
            ok = {ast.Lt: left < r, ast.LtE: left <= r, ast.Gt: left > r, ast.GtE: left >= r,
                  ast.Eq: left == r, ast.NotEq: left != r}.get(type(op))
            if ok is None:
                raise AnalysisError("version condition: unsupported operator")
            if not ok:
                return False
            left = r
        return True
    raise AnalysisError("version condition: unsupported expression " + norm(e))


def rule_record(ctx):
    t = _tables(ctx)
    R = "C20.RECORD"
    fc = ctx.index.func("recordlayer:RecordLayer._getCipherSettings")
    fm = ctx.index.func("recordlayer:RecordLayer._getMacSettings")
    for sid in t.negotiable:
        p = t.parsed[sid]
        lab = t.label(sid)
        facts = walk_suite(t, fc, sid)
        if any(f[0] == "assertfail" for f in facts):
            ctx.fail(R, fc.qname, "%s cipher settings" % lab,
                     "%s falls through to the AssertionError of _getCipherSettings" % lab, fc.loc())
            continue
        got = (assigned(facts, "keyLength"), assigned(facts, "ivLength"), assigned(facts, "createCipherFunc"))
        rets = [f[1] for f in facts if f[0] == "return"]
        if got == ([], [], []) and len(rets) == 1 and isinstance(rets[0], tuple) and len(rets[0]) == 3:
            got = ([rets[0][0]], [rets[0][1]], [rets[0][2]])
        exp = ([p["keylen"]], [p["ivlen"]], ["name:" + p["ctor"] if p["ctor"] else None])
        ctx.check(R, got == exp, fc.qname, "%s cipher settings" % lab,
                  "%s gets (key, iv, constructor) = %s but its name implies %s" % (lab, got, exp),
                  fc.loc())
        facts = walk_suite(t, fm, sid)
        if any(f[0] == "assertfail" for f in facts):
            ctx.fail(R, fm.qname, "%s MAC settings" % lab,
                     "%s falls through to the AssertionError of _getMacSettings" % lab, fm.loc())
            continue
        got = (assigned(facts, "macLength"), assigned(facts, "digestmod"))
        rets = [f[1] for f in facts if f[0] == "return"]
        if got == ([], []) and len(rets) == 1 and isinstance(rets[0], tuple) and len(rets[0]) == 2:
            got = ([rets[0][0]], [rets[0][1]])      # `return length, digest` straight from the arm
        if p["aead"]:
            exp = ([0], [None])
        else:
            m = MACS[p["tail"]]
            exp = ([m[2]], ["attr:hashlib." + m[3]])
        ctx.check(R, got == exp, fm.qname, "%s MAC settings" % lab,
                  "%s gets (mac length, digest) = %s but its name implies %s" % (lab, got, exp), fm.loc())


def rule_names(ctx):
    t = _tables(ctx)
    R = "C20.NAMES"
    fc = ctx.index.func(CONST + ".canonicalCipherName")
    fm = ctx.index.func(CONST + ".canonicalMacName")
    for sid in t.negotiable:
        p = t.parsed[sid]
        lab = t.label(sid)
        got = [f[1] for f in walk_suite(t, fc, sid) if f[0] == "return"]
        ctx.check(R, got == [p["cipher"]], fc.qname, "%s canonical cipher name" % lab,
                  "canonicalCipherName(%s) = %s, name implies %r" % (lab, got, p["cipher"]), fc.loc())
        got = [f[1] for f in walk_suite(t, fm, sid) if f[0] == "return"]
        ctx.check(R, got == [p["mac"]], fm.qname, "%s canonical MAC name" % lab,
                  "canonicalMacName(%s) = %s, name implies %r" % (lab, got, p["mac"]), fm.loc())


def _kx_classes(facts):
    return [v[5:] for v in assigned(facts, "keyExchange") if isinstance(v, str) and v.startswith("call:")]


def rule_kx(ctx):
    t = _tables(ctx)
    R = "C20.KX"
    fcl = ctx.index.func("tlsconnection:TLSConnection._handshakeClientAsyncHelper")
    fsv = ctx.index.func("tlsconnection:TLSConnection._handshakeServerAsyncHelper")
    ske_p = ctx.index.func("messages:ServerKeyExchange.parse")
    ske_w = ctx.index.func("messages:ServerKeyExchange.writeParams")
    cke_p = ctx.index.func("messages:ClientKeyExchange.parse")
    cke_w = ctx.index.func("messages:ClientKeyExchange.write")
    fck = ctx.index.func("tlsconnection:TLSConnection._clientKeyExchange")
    client_cls = {"srp": "SRPKeyExchange", "dhe": "DHE_RSAKeyExchange", "dh_anon": "DHE_RSAKeyExchange",
                  "ecdhe": "ECDHE_RSAKeyExchange", "ecdh_anon": "ECDHE_RSAKeyExchange",
                  "rsa": "RSAKeyExchange"}
    server_cls = {"srp": None, "dhe": "DHE_RSAKeyExchange", "dh_anon": "ADHKeyExchange",
                  "ecdhe": "ECDHE_RSAKeyExchange", "ecdh_anon": "AECDHKeyExchange",
                  "rsa": "RSAKeyExchange"}
    server_flow = {"srp": "_serverSRPKeyExchange", "dhe": "_serverCertKeyExchange",
                   "ecdhe": "_serverCertKeyExchange", "rsa": "_serverCertKeyExchange",
                   "dh_anon": "_serverAnonKeyExchange", "ecdh_anon": "_serverAnonKeyExchange"}
    flows = set(server_flow.values())
    # wire format of the key exchange messages, recognised by the fields each arm touches
    ske_fields = {"srp": {"srp_N", "srp_g", "srp_s", "srp_B"}, "dhe": {"dh_p", "dh_g", "dh_Ys"},
                  "dh_anon": {"dh_p", "dh_g", "dh_Ys"},
                  "ecdhe": {"curve_type", "named_curve", "ecdh_Ys"},
                  "ecdh_anon": {"curve_type", "named_curve", "ecdh_Ys"}}
    cke_fields = {"srp": {"srp_A"}, "rsa": {"encryptedPreMasterSecret"}, "dhe": {"dh_Yc"},
                  "dh_anon": {"dh_Yc"}, "ecdhe": {"ecdh_Yc"}, "ecdh_anon": {"ecdh_Yc"}}
    all_ske = set().union(*ske_fields.values())
    all_cke = set().union(*cke_fields.values())
    for sid in t.negotiable:
        p = t.parsed[sid]
        if p["kx"] == "tls13":
            continue
        lab = t.label(sid)
        kx = p["kx"]
        # client
        facts = walk_suite(t, fcl, sid)
        got = _kx_classes(facts)
        ctx.check(R, got == [client_cls[kx]], fcl.qname, "%s client key exchange class" % lab,
                  "client builds %s for %s, name implies %s" % (got, lab, client_cls[kx]), fcl.loc())
        # server
        facts = walk_suite(t, fsv, sid)
        af = [f for f in facts if f[0] == "assertfail"]
        got = _kx_classes(facts)
        exp = [server_cls[kx]] if server_cls[kx] else []
        gotflow = sorted({f[1] for f in facts if f[0] == "call" and f[1] in flows})
        ctx.check(R, got == exp and gotflow == [server_flow[kx]] and not af, fsv.qname,
                  "%s server key exchange" % lab,
                  "server runs %s with %s for %s (assert False reached: %s); name implies %s with %s" % (
                      gotflow, got, lab, bool(af), server_flow[kx], exp), fsv.loc())
        # what the client expects from the server and verifies, per suite
        facts = walk_suite(t, fck, sid)
        msgs = {f[1] for f in facts if f[0] == "getmsg"}
        callsc = {f[1] for f in facts if f[0] == "call"}
        alerts = {f[1] for f in facts if f[0] == "senderror"}
        authd = p["auth"] is not None
        ctx.check(R, ("certificate" in msgs) == authd and ("_clientGetKeyFromChain" in callsc) == authd,
                  fck.qname, "%s client expects server Certificate" % lab,
                  "client %s a server Certificate for %s; name implies %s" % (
                      "expects" if "certificate" in msgs else "does not expect", lab,
                      "certificate authentication" if authd else "no certificate"), fck.loc())
        ctx.check(R, ("server_key_exchange" in msgs) == (kx != "rsa"), fck.qname,
                  "%s client expects ServerKeyExchange" % lab,
                  "client %s ServerKeyExchange for %s" % (
                      "expects" if "server_key_exchange" in msgs else "skips", lab), fck.loc())
        must_verify = authd and kx != "rsa"
        ctx.check(R, ("verifyServerKeyExchange" in callsc) == must_verify, fck.qname,
                  "%s ServerKeyExchange signature verification" % lab,
                  "client %s the ServerKeyExchange signature for %s; name implies %s" % (
                      "verifies" if "verifyServerKeyExchange" in callsc else "does not verify", lab,
                      "a signature by the certified key" if must_verify else "an unsigned exchange"),
                  fck.loc())
        client_auth_ok = authd and kx != "srp"
        ctx.check(R, ("unexpected_message" in alerts) == (not client_auth_ok), fck.qname,
                  "%s CertificateRequest admissibility" % lab,
                  "client %s a CertificateRequest for %s; the suite %s client certificates" % (
                      "refuses" if "unexpected_message" in alerts else "accepts", lab,
                      "allows" if client_auth_ok else "does not allow"), fck.loc())
        # signed ServerKeyExchange <=> certificate-authenticated, non-RSA-transport suite
        for fi, fields, allf, what in ((ske_p, ske_fields, all_ske, "ServerKeyExchange.parse"),
                                       (ske_w, ske_fields, all_ske, "ServerKeyExchange.writeParams"),
                                       (cke_p, cke_fields, all_cke, "ClientKeyExchange.parse"),
                                       (cke_w, cke_fields, all_cke, "ClientKeyExchange.write")):
            if kx not in fields:
                continue
            facts = walk_suite(t, fi, sid)
            touched = _fields_touched(fi, t, sid) & allf
            ctx.check(R, touched == fields[kx], fi.qname, "%s %s wire layout" % (lab, what),
                      "%s handles fields %s for %s; name implies %s" % (
                          what, sorted(touched), lab, sorted(fields[kx])), fi.loc())
        signed = p["auth"] is not None and kx != "rsa"
        facts = walk_suite(t, ske_p, sid)
        has_sig = any(f[0] == "assign" and f[1] == "self.signature" for f in facts)
        ctx.check(R, has_sig == signed, ske_p.qname, "%s ServerKeyExchange signature" % lab,
                  "ServerKeyExchange.parse %s a signature for %s; name implies %s" % (
                      "reads" if has_sig else "does not read", lab,
                      "a signed message" if signed else "an unsigned message"), ske_p.loc())


def _fields_touched(fi, tables, sid):
    """self.<field> names read or written on the arms taken for suite sid."""
    w = SuiteWalk(tables, sid)
    touched = set()

    class V(SuiteWalk):
        pass
    def visit(stmts):
        for s in stmts:
            if isinstance(s, ast.If):
                v = w.test(s.test)
                if v is True:
                    visit(s.body)
                elif v is False:
                    visit(s.orelse)
                else:
                    collect(s.test)
                    visit(s.body)
                    visit(s.orelse)
            elif isinstance(s, (ast.For, ast.While, ast.With)):
                visit(s.body)
            elif isinstance(s, ast.Try):
                visit(s.body)
                for h in s.handlers:
                    visit(h.body)
            else:
                collect(s)
    def collect(node):
        for n in ast.walk(node):
            if isinstance(n, ast.Attribute) and isinstance(n.value, ast.Name) and n.value.id == "self":
                touched.add(n.attr)
    visit(fi.node.body)
    return touched


def _prf_kind(tok):
    """'384' / '256' / None for a token of a PRF selection arm."""
    if re.search(r"384", tok) or tok == "size=48":
        return "384"
    if re.search(r"256", tok) or tok in ("PRF_1_2", "size=32"):
        return "256"
    return None


def rule_prf(ctx):
    """every selection on sha384PrfSuites picks SHA-384 things on the true arm and SHA-256
    things on the false arm."""
    R = "C20.PRF"
    count = 0
    for fi in ctx.index.all_functions():
        for n in own_nodes(fi.node):
            test = None
            if isinstance(n, (ast.If, ast.IfExp)):
                test = n.test
            if test is None:
                continue
            if not (isinstance(test, ast.Compare) and len(test.ops) == 1
                    and isinstance(test.ops[0], (ast.In, ast.NotIn))
                    and attr_chain(test.comparators[0]) == "CipherSuite.sha384PrfSuites"):
                continue
            neg = isinstance(test.ops[0], ast.NotIn)
            if isinstance(n, ast.IfExp):
                tarm, farm = [n.body], [n.orelse]
            else:
                tarm, farm = n.body, n.orelse
                if not farm:
                    farm = _implicit_else(fi.node, n)
            if neg:
                tarm, farm = farm, tarm
            count += 1
            tk = {_prf_kind(x) for x in _tokens(tarm)} - {None}
            fk = {_prf_kind(x) for x in _tokens(farm)} - {None}
            ok = tk == {"384"} and fk == {"256"}
            ctx.check(R, ok, fi.qname, norm(test) + " selection",
                      "selection on sha384PrfSuites must pick only SHA-384 on its true arm and only "
                      "SHA-256 on its false arm: true arm mentions %s, false arm mentions %s" % (
                          sorted(_tokens(tarm)), sorted(_tokens(farm))), fi.loc(n))
    if count < 12:
        raise AnalysisError("C20.PRF: %d sha384PrfSuites selection sites found, confirmed floor 12" % count)
    # no hash selection on any other suite list (the HMAC lists say nothing about the PRF),
    # except the two functions whose job is the HMAC itself
    MAC_SITES = ("_getMacSettings", "canonicalMacName")
    for fi in ctx.index.all_functions():
        if fi.name in MAC_SITES:
            continue
        for n in own_nodes(fi.node):
            if not isinstance(n, (ast.If, ast.IfExp)):
                continue
            test = n.test
            lists = [attr_chain(c.comparators[0]) for c in ast.walk(test)
                     if isinstance(c, ast.Compare) and len(c.ops) == 1
                     and isinstance(c.ops[0], (ast.In, ast.NotIn))]
            lists = [l for l in lists if l and l.startswith("CipherSuite.")
                     and l not in ("CipherSuite.sha384PrfSuites", "CipherSuite.sha256PrfSuites")]
            if not lists:
                continue
            if isinstance(n, ast.IfExp):
                tarm, farm = [n.body], [n.orelse]
            else:
                tarm, farm = n.body, (n.orelse or _implicit_else(fi.node, n))
            tk = {_prf_kind(x) for x in _tokens(tarm)} - {None}
            fk = {_prf_kind(x) for x in _tokens(farm)} - {None}
            if tk and fk and tk != fk and len(tk) == 1 and len(fk) == 1:
                ctx.fail(R, fi.qname, norm(test) + " selection",
                         "a SHA-256/SHA-384 selection is made on %s; only sha384PrfSuites says which "
                         "PRF/HKDF hash a suite uses" % lists, fi.loc(n))
    # _getPRFParams per suite
    t = _tables(ctx)
    fp = ctx.index.func("tlsconnection:TLSConnection._getPRFParams")
    for sid in t.negotiable:
        p = t.parsed[sid]
        got = [f[1] for f in walk_suite(t, fp, sid) if f[0] == "return"]
        exp = [("sha384", 48)] if p["prf"] == "sha384" else [("sha256", 32)]
        ctx.check(R, got == exp, fp.qname, "%s PRF parameters" % t.label(sid),
                  "_getPRFParams(%s) = %s, name implies %s" % (t.label(sid), got, exp), fp.loc())


def _tokens(stmts):
    out = []
    for s in stmts:
        if isinstance(s, ast.Constant) and isinstance(s.value, int) and not isinstance(s.value, bool):
            out.append("size=%d" % s.value)      # arm of a conditional expression
        for n in ast.walk(s):
            if isinstance(n, ast.Constant) and isinstance(n.value, (str, bytes)):
                v = n.value.decode("latin1") if isinstance(n.value, bytes) else n.value
                if re.fullmatch(r"(?i)sha-?\d+", v):
                    out.append(v)
            elif isinstance(n, ast.Name) and re.search(r"(?i)sha\d|^PRF", n.id):
                out.append(n.id)
            elif isinstance(n, ast.Attribute) and re.search(r"(?i)sha\d", n.attr):
                out.append(n.attr)
            elif isinstance(n, ast.Assign) and isinstance(n.value, ast.Constant) \
                    and isinstance(n.value.value, int) and len(n.targets) == 1 \
                    and re.search(r"(?i)size|len", attr_chain(n.targets[0]) or ""):
                out.append("size=%d" % n.value.value)
            elif isinstance(n, (ast.Return, ast.Tuple)):
                elts = n.elts if isinstance(n, ast.Tuple) else []
                if len(elts) == 2 and isinstance(elts[0], ast.Constant) and \
                        isinstance(elts[0].value, str) and isinstance(elts[1], ast.Constant) \
                        and isinstance(elts[1].value, int):
                    out.append("size=%d" % elts[1].value)
    return out


def _implicit_else(fn_node, stmt):
    """false arm of an `if` without else: when the true arm returns, the statements that
    follow; when it only re-assigns names, the preceding default assignments of the same
    names in the enclosing block."""
    for n in ast.walk(fn_node):
        for fld in ("body", "orelse", "finalbody"):
            blk = getattr(n, fld, None)
            if isinstance(blk, list) and stmt in blk:
                i = blk.index(stmt)
                if any(isinstance(x, ast.Return) for x in stmt.body):
                    return blk[i + 1:i + 4]
                names = set()
                for x in stmt.body:
                    if isinstance(x, ast.Assign):
                        names |= {attr_chain(t) for t in x.targets}
                out = []
                for x in blk[:i]:
                    if isinstance(x, ast.Assign) and {attr_chain(t) for t in x.targets} & names:
                        out.append(x)
                return out
    return []


def rule_policy(ctx):
    t = _tables(ctx)
    R = "C20.POLICY"
    cipher_meaning = {c[1]: c[2] for c in CIPHERS}
    mac_meaning = {"sha": "shaSuites", "sha256": "sha256Suites", "sha384": "sha384Suites",
                   "md5": "md5Suites", "aead": "aeadSuites"}
    kx_meaning = {"rsa": "RSA", "dhe_rsa": "DHE_RSA", "dhe_dsa": "DHE_DSS", "ecdhe_rsa": "ECDHE_RSA",
                  "ecdhe_ecdsa": "ECDHE_ECDSA", "srp_sha": "SRP_SHA", "srp_sha_rsa": "SRP_SHA_RSA",
                  "dh_anon": "DH_ANON", "ecdh_anon": "ECDH_ANON"}
    fq = CONST + "._filterSuites"
    loc = ctx.index.func(fq).loc()
    seen = set()
    for name, lst, minv in t.policy["cipher"]:
        seen.add(name)
        if name not in cipher_meaning:
            ctx.fail(R, fq, "cipherNames row %r" % name, "unknown cipher name %r in _filterSuites" % name, loc)
            continue
        for sid in t.L(lst):
            p = t.parsed.get(sid)
            if p is None or sid not in t.negotiable:
                continue
            ctx.check(R, p["cipher"] == name, fq, "cipherNames %r admits %s" % (name, t.label(sid)),
                      "settings cipher name %r admits %s whose cipher is %s" % (name, t.label(sid), p["cipher"]),
                      loc, what="cipher/%s/%s" % (name, sid))
        aead_min = (3, 3) if any(c[1] == name and c[6] for c in CIPHERS) else None
        ctx.check(R, minv == aead_min, fq, "cipherNames row %r minimum version" % name,
                  "cipher name %r is admitted from version %s, AEAD ciphers need TLS 1.2 (expected %s)"
                  % (name, minv, aead_min), loc)
    missing = set(cipher_meaning) - seen
    ctx.check(R, not missing, fq, "cipherNames rows", "no _filterSuites row for cipher names %s" % sorted(missing), loc)
    seen = set()
    for name, lst, minv in t.policy["mac"]:
        seen.add(name)
        if name not in mac_meaning:
            ctx.fail(R, fq, "macNames row %r" % name, "unknown MAC name %r" % name, loc)
            continue
        for sid in t.L(lst):
            p = t.parsed.get(sid)
            if p is None or sid not in t.negotiable:
                continue
            has = "aead" if p["aead"] else p["mac"]
            ctx.check(R, has == name, fq, "macNames %r admits %s" % (name, t.label(sid)),
                      "settings MAC name %r admits %s whose integrity mechanism is %s" % (name, t.label(sid), has),
                      loc, what="mac/%s/%s" % (name, sid))
        exp_min = (3, 3) if name in ("sha256", "sha384", "aead") else None
        ctx.check(R, minv == exp_min, fq, "macNames row %r minimum version" % name,
                  "MAC name %r admitted from version %s, expected %s" % (name, minv, exp_min), loc)
    ctx.check(R, set(mac_meaning) <= seen, fq, "macNames rows",
              "no _filterSuites row for MAC names %s" % sorted(set(mac_meaning) - seen), loc)
    seen = set()
    for name, lst, minv in t.policy["kx"]:
        if name is None:
            ctx.check(R, lst == "tls13Suites" and minv == (3, 4), fq, "TLS 1.3 key exchange row",
                      "TLS 1.3 suites must be admitted exactly from version (3, 4)", loc)
            continue
        seen.add(name)
        if name not in kx_meaning:
            ctx.fail(R, fq, "keyExchangeNames row %r" % name, "unknown key exchange name %r" % name, loc)
            continue
        for sid in t.L(lst):
            p = t.parsed.get(sid)
            if p is None or sid not in t.negotiable:
                continue
            ctx.check(R, p["kxname"] == kx_meaning[name], fq,
                      "keyExchangeNames %r admits %s" % (name, t.label(sid)),
                      "settings key exchange %r admits %s whose key exchange is %s" % (
                          name, t.label(sid), p["kxname"]), loc, what="kx/%s/%s" % (name, sid))
    ctx.check(R, set(kx_meaning) <= seen, fq, "keyExchangeNames rows",
              "no _filterSuites row for key exchange names %s" % sorted(set(kx_meaning) - seen), loc)


def rule_keypair(ctx):
    """KEYPAIR: the certificate and key the server authenticates with are the ones selected TOGETHER with
    the cipher suite.  _serverGetClientHello ends by yielding (hello, version, suite, scheme, key, chain);
    its consumer unpacks exactly that tuple - every element, no slicing - so the suite's authentication
    type and the key pair cannot come apart (an ECDHE_ECDSA suite answered with the default RSA pair)."""
    from ..query import is_value_yield, yield_value, call_name
    R = "C20.KEYPAIR"
    prod = ctx.index.func("tlsconnection:TLSConnection._serverGetClientHello")
    gp = ctx.an.cfg(prod)
    arities = set()
    names = None
    for n in gp.nodes:
        if is_value_yield(n):
            v = yield_value(n)
            if isinstance(v, ast.Tuple):
                arities.add(len(v.elts))
                names = [norm(x) for x in v.elts]
    if len(arities) != 1:
        raise AnalysisError("%s: _serverGetClientHello does not end in one tuple-valued yield (arities %s)" % (R, sorted(arities)))
    k = arities.pop()
    cons = ctx.index.func("tlsconnection:TLSConnection._handshakeServerAsyncHelper")
    found = 0
    for st in own_nodes(cons.node):
        if isinstance(st, ast.For) and isinstance(st.iter, ast.Call) and call_name(st.iter) == "_serverGetClientHello" \
                and isinstance(st.target, ast.Name):
            var = st.target.id
            # the first assignment from the loop variable after the loop
            later = [a for a in own_nodes(cons.node) if isinstance(a, ast.Assign) and a.lineno > st.lineno
                     and any(isinstance(x, ast.Name) and x.id == var for x in ast.walk(a.value))]
            later.sort(key=lambda a: a.lineno)
            if not later:
                continue
            a = later[0]
            found += 1
            tg = a.targets[0]
            ok = isinstance(a.value, ast.Name) and isinstance(tg, ast.Tuple) and len(tg.elts) == k
            ctx.check(R, ok, cons.qname, a,
                      "_serverGetClientHello hands back %d values %s; the handshake helper takes `%s`: the key pair "
                      "selected with the cipher suite is dropped and the caller's default pair is used" % (
                          k, names, norm(a)[:90]), cons.loc(a),
                      what="the server helper unpacks all %d values selected with the suite" % k)
    if found != 1:
        raise AnalysisError("%s: consumer of _serverGetClientHello not found" % R)


RULES = [
    ("C20.TABLES", "quick", rule_tables),
    ("C20.CLASS", "quick", rule_class),
    ("C20.RECORD", "quick", rule_record),
    ("C20.NAMES", "quick", rule_names),
    ("C20.KX", "quick", rule_kx),
    ("C20.PRF", "quick", rule_prf),
    ("C20.POLICY", "quick", rule_policy),
    ("C20.KEYPAIR", "quick", rule_keypair),
    ("C20.SRV-PICK", "quick", borrowed("c03", "rule_srv_pick", "C03.SRV-PICK", "C20.SRV-PICK")),
    ("C20.VERSION-GATE", "quick", borrowed("c03", "rule_suite_version", "C03.SH-GATES", "C20.VERSION-GATE")),
]
