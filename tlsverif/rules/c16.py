"""C16 - post-handshake control traffic keeps keys in step and data intact."""
import ast

from ..index import AnalysisError, attr_chain, norm, own_nodes
from ..query import calls_in, call_name, is_value_yield
from ..condeval import check_cond
from .common import borrowed
from .common import (TLSCONN, TLSREC, RECLAYER, nodes_with_call, consumes_of, dead_edge_labels,
                     must_pass, senderror_desc, rule_consume)
from . import c01shared, c05

EXPLANATION = (
    "Direction, ordering and echo rules for post-handshake messages. KU: a received KeyUpdate updates "
    "only the read state from the peer's secret, stores both session secrets (in parameter order) "
    "before any reply is sent; a sent KeyUpdate goes out under the old key and then updates only the "
    "write state; the reply to update_requested is update_not_requested; unknown message types reach "
    "an effective illegal_parameter gate (guards decided over the finite message-type domain); the "
    "four role arms of the two record-layer key-update functions derive from, install and return the "
    "right secrets (ROLE). HB: the heartbeat response echoes self.payload with type response; the "
    "request arm has the can-receive and padding gates before the response and is entered only when "
    "heartbeat was negotiated; write_heartbeat has the can-send gate. PHA: the saved first-handshake "
    "transcript is only ever read through .copy(); server-side PHA gates (shared with C05.PHA: "
    "context single-use, Finished and signature before the identity is recorded); "
    "request_post_handshake_auth has version/role/support gates and registers its context. DISPATCH: "
    "every handshake type admitted after the handshake has a handler arm in readAsync and "
    "application data is appended to the read buffer. CONSUME: generator discipline.")
NOT_DECIDED = ("key synchrony across arbitrary histories of interleaved updates (needs executions); "
               "data delivery under interleaving (C01 structural clauses only)")
TECHNIQUE = "CFG ordering queries, def-use of session secrets, finite-domain guard evaluation, who-may-mutate"

SEC = ("self.session.cl_app_secret", "self.session.sr_app_secret")


def _secret_assigns(g):
    out = []
    for n in g.nodes:
        if n.kind == "stmt" and isinstance(n.ast, ast.Assign):
            tg = []
            for t in n.ast.targets:
                tg += [attr_chain(e) for e in (t.elts if isinstance(t, ast.Tuple) else [t])]
            tg = [("self.session." + x.rsplit(".", 1)[1]) if x and x.rsplit(".", 1)[-1] in
                  ("cl_app_secret", "sr_app_secret") and "." in x else x for x in tg]
            if any(x in SEC for x in tg):
                out.append((n, tg))
    return out


def _stores_result(g, asg, fname):
    """the session's (cl, sr) secrets are replaced by the (first, second) result of `fname`
    called with (suite, cl, sr) - directly or through two locals."""
    calls = [n for n in g.nodes if n.kind == "stmt" and isinstance(n.ast, ast.Assign)
             and isinstance(n.ast.value, ast.Call) and call_name(n.ast.value) == fname]
    if len(calls) != 1:
        return False
    c = calls[0].ast
    args = [norm(a) for a in c.value.args]
    if len(args) != 3 or not (args[0].endswith(".cipherSuite") and args[1].endswith(".cl_app_secret")
                              and args[2].endswith(".sr_app_secret")):
        return False
    if not (len(c.targets) == 1 and isinstance(c.targets[0], ast.Tuple) and len(c.targets[0].elts) == 2):
        return False
    t0, t1 = (attr_chain(e) for e in c.targets[0].elts)
    if t0 and t1 and t0.endswith(".cl_app_secret") and t1.endswith(".sr_app_secret"):
        return len(asg) == 1
    # through locals
    got = {}
    for n, tg in asg:
        if len(tg) == 1 and isinstance(n.ast.value, ast.Name):
            got[tg[0]] = n.ast.value.id
        elif len(tg) == 2 and isinstance(n.ast.value, ast.Tuple):
            for a, b in zip(tg, n.ast.value.elts):
                got[a] = norm(b)
        else:
            return False
    return got == {SEC[0]: t0, SEC[1]: t1}


def rule_ku(ctx):
    R = "C16.KU"
    # receiving side
    fi = ctx.index.func(TLSREC + "_handle_keyupdate_request")
    g = ctx.an.cfg(fi)
    asg = _secret_assigns(g)
    ok = _stores_result(g, asg, "calcTLS1_3KeyUpdate_sender")
    ctx.check(R, ok, fi.qname, "received KeyUpdate: (cl, sr) secrets := calcTLS1_3KeyUpdate_sender(suite, cl, sr)",
              "on a received KeyUpdate the session's client and server application secrets must be replaced, "
              "in that order and in one step, by what calcTLS1_3KeyUpdate_sender returns for them",
              fi.loc(asg[0][0].ast) if asg else fi.loc())
    reply = consumes_of(g, "send_keyupdate_request")
    ctx.require(len(reply) == 1, "C16.KU: reply to KeyUpdate not found")
    if asg and reply:
        must_pass(ctx, R, fi, g, [g.entry], reply, [a for a, _ in asg],
                  "session secrets stored before the reply KeyUpdate is sent",
                  "the reply KeyUpdate is sent (advancing the write secret) before the secrets derived from the "
                  "received KeyUpdate are stored: the later store overwrites the new write secret with a stale one",
                  start_after=False)
        seen = g.reach(g.normal_succ(reply[0]))
        late = [a for a, _ in asg if a.id in seen]
        ctx.check(R, not late, fi.qname, "no secret is stored after the reply was sent",
                  "session secrets are (re)assigned after the reply KeyUpdate advanced them", fi.loc())
        ctx.check(R, norm(reply[0].call.args[0]) == "KeyUpdateMessageType.update_not_requested", fi.qname,
                  "reply to update_requested is update_not_requested",
                  "a requested KeyUpdate must be answered with update_not_requested (anything else "
                  "ping-pongs updates forever)", fi.loc(reply[0].ast))
    # what the handler does for each message type (walk of the function with the type bound; the update
    # and the reply are recognised as effects, whatever shape the type tests have)
    from .common import spec_rows
    spec_rows(ctx, R, fi.qname, [
        dict(what="keys updated for the two defined KeyUpdate types, reply exactly for update_requested, anything else fatal",
             dom={"request.message_type": [0, 1, 2, 7], "KeyUpdateMessageType.update_not_requested": [0],
                  "KeyUpdateMessageType.update_requested": [1]},
             abort=lambda e: e["request.message_type"] not in (0, 1),
             effects={"read keys updated": (lambda st_: any(call_name(c) == "calcTLS1_3KeyUpdate_sender" for c in calls_in(st_)),
                                            lambda e: e["request.message_type"] in (0, 1))},
             msg="the read keys must be updated exactly for the two defined KeyUpdate types and a KeyUpdate with an "
                 "unknown message_type must end in a fatal alert")])
    tests = [t for t in g.nodes if t.kind == "test"]
    if reply:
        # the reply is sent exactly for update_requested: decided on the edge structure with the type bound
        from ..condeval import ev, Unknown
        for mt, want in ((0, False), (1, True)):
            env = {"request.message_type": mt, "KeyUpdateMessageType.update_not_requested": 0,
                   "KeyUpdateMessageType.update_requested": 1}
            cut = set()
            for t in tests:
                try:
                    v = bool(ev(t.expr, env))
                    cut.add((t.id, "F" if v else "T"))
                except (Unknown, TypeError):
                    pass
            seen = g.reach([g.entry], cut=cut, follow_exc=False)
            ctx.check(R, (reply[0].id in seen) == want, fi.qname,
                      "reply KeyUpdate %s for message_type %d" % ("sent" if want else "not sent", mt),
                      "a reply KeyUpdate is due exactly for update_requested", fi.loc(reply[0].ast) if reply[0].ast is not None else fi.loc())
    # sending side
    fs = ctx.index.func(TLSREC + "send_keyupdate_request")
    gs = ctx.an.cfg(fs)
    send = consumes_of(gs, "_sendMsg")
    asg = _secret_assigns(gs)
    ok = _stores_result(gs, asg, "calcTLS1_3KeyUpdate_reciever")
    ctx.check(R, ok, fs.qname, "sent KeyUpdate: (cl, sr) secrets := calcTLS1_3KeyUpdate_reciever(suite, cl, sr)",
              "after sending a KeyUpdate the session secrets must be replaced by what "
              "calcTLS1_3KeyUpdate_reciever returns", fs.loc())
    if asg and send:
        must_pass(ctx, R, fs, gs, [gs.entry], [a for a, _ in asg], send,
                  "KeyUpdate is sent under the old key, then the write key changes",
                  "the write keys are switched before the KeyUpdate message was sent: the peer cannot "
                  "decrypt the KeyUpdate", start_after=False)
        must_pass(ctx, R, fs, gs, send, [gs.exit], [a for a, _ in asg],
                  "every sent KeyUpdate is followed by the write key change",
                  "a KeyUpdate can be sent without switching the write keys afterwards")
    ver = [t for t in gs.nodes if t.kind == "test" and norm(t.expr) == "self.version != (3, 4)"]
    ctx.check(R, bool(ver) and "T" in dead_edge_labels(gs, ver[0], send), fs.qname, "KeyUpdate only in TLS 1.3",
              "KeyUpdate must be refused outside TLS 1.3", fs.loc())
    c01shared.rule_role(ctx, "C16.KU-ROLE")


def rule_hb(ctx):
    R = "C16.HB"
    cr = ctx.index.func("messages:Heartbeat.create_response")
    calls = [c for c in calls_in(cr.node) if call_name(c) == "create"]
    # arguments by position or by keyword, matched against Heartbeat.create's own parameter names
    hc = ctx.index.func("messages:Heartbeat.create")
    pn = [a.arg for a in hc.node.args.args[1:]]
    bound = {}
    if len(calls) == 1:
        for i, a in enumerate(calls[0].args):
            if i < len(pn):
                bound[pn[i]] = norm(a)
        for k in calls[0].keywords:
            bound[k.arg] = norm(k.value)
    ok = len(calls) == 1 and len(pn) >= 2 and bound.get(pn[0]) == "HeartbeatMessageType.heartbeat_response" \
        and bound.get(pn[1]) == "self.payload"
    ctx.check(R, ok, cr.qname, "response echoes exactly the request's payload",
              "a heartbeat response must carry type heartbeat_response and the request's payload (not its "
              "padding or anything else)", cr.loc())
    fi = ctx.index.func(TLSREC + "_getMsg")
    g = ctx.an.cfg(fi)
    resp = [n for n in consumes_of(g, "_sendMsg") if norm(n.call) == "self._sendMsg(heartbeat_response)"]
    parse = [n for n in g.nodes if n.kind == "stmt" and norm(n.ast) == "heartbeat_message = Heartbeat().parse(p)"]
    if not resp or not parse:
        raise AnalysisError("C16.HB: heartbeat arm of _getMsg not found")
    cr_t = [t for t in g.nodes if t.kind == "test" and norm(t.expr) == "not self.heartbeat_can_receive"]
    eff = [t for t in cr_t if "T" in dead_edge_labels(g, t, resp)]
    must_pass(ctx, R, fi, g, parse, resp, eff, "peer allowed to send heartbeats (can_receive) before answering",
              "a heartbeat request is answered although this endpoint declared peer_not_allowed_to_send")
    pad = [t for t in g.nodes if t.kind == "test" and norm(t.expr) == "len(heartbeat_message.padding) < 16"]
    effp = [t for t in pad if "T" in dead_edge_labels(g, t, resp, blocked=parse)]
    must_pass(ctx, R, fi, g, parse, resp, effp, "malformed (short padding) request ignored",
              "a heartbeat request with less than 16 bytes of padding must be dropped silently")
    typ = [t for t in g.nodes if t.kind == "test" and "heartbeat_message.message_type == HeartbeatMessageType.heartbeat_request" in norm(t.expr)]
    efft = [t for t in typ if "F" in dead_edge_labels(g, t, resp, blocked=parse)]
    must_pass(ctx, R, fi, g, parse, resp, efft, "only requests are answered",
              "something other than a heartbeat_request is answered with a response")
    arm = [t for t in g.nodes if t.kind == "test" and "recordHeader.type == ContentType.heartbeat" in norm(t.expr)]
    if arm:
        check_cond(ctx, R, fi, arm[0].ast, arm[0].expr,
                   {"recordHeader.type": [23, 24], "ContentType.heartbeat": [24], "self.heartbeat_supported": [True, False]},
                   lambda e: e["recordHeader.type"] == 24 and e["self.heartbeat_supported"],
                   "heartbeat records processed only when the extension was negotiated",
                   "heartbeat records may be processed only if heartbeat was negotiated; otherwise they are "
                   "unexpected messages", closed=True)
        # the arm never hands the heartbeat record to the caller
        rec = consumes_of(g, "_getNextRecord")
        seen = g.reach(g.succ_on(arm[0], "T"), blocked=rec, follow_exc=False)
        leak = [n for n in g.nodes if is_value_yield(n) and n.id in seen]
        ctx.check(R, not leak, fi.qname, "heartbeat records never reach the caller as data",
                  "a heartbeat record can fall through to the message dispatch", fi.loc(arm[0].ast))
    else:
        ctx.fail(R, fi.qname, "heartbeat arm", "arm not found", fi.loc())
    wh = ctx.index.func(TLSREC + "write_heartbeat")
    gw = ctx.an.cfg(wh)
    send = consumes_of(gw, "_sendMsg")
    t = [x for x in gw.nodes if x.kind == "test" and "heartbeat_can_send" in norm(x.expr)]
    if t:
        check_cond(ctx, R, wh, t[0].ast, t[0].expr,
                   {"self.heartbeat_supported": [True, False], "self.heartbeat_can_send": [True, False]},
                   lambda e: not (e["self.heartbeat_supported"] and e["self.heartbeat_can_send"]),
                   "heartbeat requests sent only when negotiated and allowed",
                   "a heartbeat request may be sent only if the extension was negotiated and the peer allows it",
                   closed=True)
        ctx.check(R, "T" in dead_edge_labels(gw, t[0], send), wh.qname, "can-send gate effective",
                  "the can-send gate of write_heartbeat does not stop the send", wh.loc())
    else:
        ctx.fail(R, wh.qname, "can-send gate", "gate not found", wh.loc())


def rule_pha(ctx):
    R = "C16.PHA"
    n = 0
    for fi in ctx.index.all_functions():
        parents = {}
        for x in ast.walk(fi.node):
            for c in ast.iter_child_nodes(x):
                parents[c] = x
        for x in own_nodes(fi.node):
            if isinstance(x, ast.Attribute) and attr_chain(x) == "self._first_handshake_hashes" \
                    and isinstance(x.ctx, ast.Load):
                n += 1
                p = parents.get(x)
                pp = parents.get(p)
                ok = isinstance(p, ast.Attribute) and p.attr == "copy" and isinstance(pp, ast.Call) and pp.func is p
                ctx.check(R, ok, fi.qname, "%s reads the saved transcript through .copy()" % fi.short,
                          "the transcript saved at the end of the handshake is used without .copy(): the "
                          "first post-handshake authentication would pollute it and every later one fails",
                          fi.loc(x), what="%s #%d" % (fi.short, x.lineno))
    ctx.require(n >= 2, "C16.PHA: reads of _first_handshake_hashes not found")
    w = 0
    for fi in ctx.index.all_functions():
        for x in own_nodes(fi.node):
            if isinstance(x, ast.Assign) and any(attr_chain(t) == "self._first_handshake_hashes" for t in x.targets):
                w += 1
                ok = fi.name in ("__init__",) or (fi.name.endswith("TLS13Handshake") and
                                                  norm(x.value) == "self._handshake_hash.copy()")
                ctx.check(R, ok, fi.qname, x, "the saved first-handshake transcript is written outside the "
                          "TLS 1.3 handshake flows or not as a copy", fi.loc(x))
    ctx.require(w >= 2, "C16.PHA: writes of _first_handshake_hashes not found")
    c05.rule_pha(_Relabel(ctx, "C05.PHA", "C16.PHA-SRV"))
    rq = ctx.index.func(TLSCONN + "request_post_handshake_auth")
    g = ctx.an.cfg(rq)
    send = consumes_of(g, "_sendMsg")
    for frag, what in (("self.version != (3, 4)", "TLS 1.3 only"), ("self._client", "server only"),
                       ("not self._pha_supported", "client announced post_handshake_auth")):
        t = [x for x in g.nodes if x.kind == "test" and norm(x.expr) == frag]
        eff = [x for x in t if "T" in dead_edge_labels(g, x, send)]
        must_pass(ctx, R, rq, g, [g.entry], send, eff, "PHA request gate: " + what,
                  "a post-handshake CertificateRequest can be sent without the check: " + what,
                  start_after=False)
    reg = [x for x in g.nodes if x.kind == "stmt" and isinstance(x.ast, ast.Assign) and
           any(isinstance(t, ast.Subscript) and attr_chain(t.value) == "self._cert_requests" for t in x.ast.targets)]
    must_pass(ctx, R, rq, g, [g.entry], send, reg, "request context registered before the request is sent",
              "a CertificateRequest is sent whose context is not recorded as outstanding", start_after=False)


class _Relabel(object):
    """view of a Ctx that records under another rule name."""

    def __init__(self, ctx, old, new):
        self._c, self._o, self._n = ctx, old, new

    def __getattr__(self, k):
        return getattr(self._c, k)

    def _r(self, rule):
        return self._n if rule == self._o else rule

    def ok(self, rule, *a, **k):
        return self._c.ok(self._r(rule), *a, **k)

    def fail(self, rule, *a, **k):
        return self._c.fail(self._r(rule), *a, **k)

    def check(self, rule, *a, **k):
        return self._c.check(self._r(rule), *a, **k)

    def exempt(self, rule, *a, **k):
        return self._c.exempt(self._r(rule), *a, **k)


def rule_dispatch(ctx):
    R = "C16.DISPATCH"
    fi = ctx.index.func(TLSREC + "readAsync")
    admitted = set()
    for x in own_nodes(fi.node):
        if isinstance(x, ast.Assign) and any(attr_chain(t) == "allowedHsTypes" for t in x.targets):
            for e in ast.walk(x.value):
                c = attr_chain(e) if isinstance(e, ast.Attribute) else None
                if c and c.startswith("HandshakeType."):
                    admitted.add(c.split(".")[1])
    cls_of = {"new_session_ticket": "NewSessionTicket", "key_update": "KeyUpdate",
              "certificate_request": "CertificateRequest", "certificate": "Certificate",
              "compressed_certificate": "CompressedCertificate"}
    arms = {}
    for x in own_nodes(fi.node):
        if isinstance(x, ast.If) and isinstance(x.test, ast.Call) and call_name(x.test) == "isinstance" \
                and norm(x.test.args[0]) == "result":
            arms[norm(x.test.args[1])] = x
    ctx.require(len(admitted) >= 4, "C16.DISPATCH: admitted post-handshake types not found")
    for t in sorted(admitted):
        ctx.check(R, t in cls_of and cls_of[t] in arms, fi.qname, "admitted type %s has a handler arm" % t,
                  "readAsync admits handshake type %s after the handshake but has no handler for it: it "
                  "would be asserted to be application data" % t, fi.loc())
    handlers = {"KeyUpdate": "_handle_keyupdate_request", "Certificate": "_handle_srv_pha",
                "CompressedCertificate": "_handle_srv_pha", "CertificateRequest": "_handle_pha"}
    for cname, h in handlers.items():
        if cname in arms:
            ok = any(call_name(c) == h for s in arms[cname].body for c in calls_in(s))
            ctx.check(R, ok, fi.qname, "%s handled by %s" % (cname, h),
                      "a received %s must be processed by %s" % (cname, h), fi.loc(arms[cname]))
    from .common import resolved_text
    app = [x for x in own_nodes(fi.node) if isinstance(x, ast.AugAssign) and attr_chain(x.target) == "self._readBuffer"
           and isinstance(x.op, ast.Add) and resolved_text(fi.node, x.value) == "result.write()"]
    asr = [x for x in own_nodes(fi.node) if isinstance(x, ast.Assert) and norm(x.test) == "isinstance(result, ApplicationData)"]
    ctx.check(R, len(app) == 1 and len(asr) == 1, fi.qname, "everything else is application data, appended in order",
              "the last arm of the read dispatch must append application data to the read buffer", fi.loc())
    # before TLS 1.3 only application data is admitted
    leg = [x for x in own_nodes(fi.node) if isinstance(x, ast.Assign) and norm(x) == "allowedTypes = ContentType.application_data"]
    ctx.check(R, len(leg) == 1, fi.qname, "TLS <= 1.2: only application data admitted after the handshake",
              "in TLS <= 1.2 nothing but application data may be admitted after the handshake", fi.loc())


def rule_consume_c16(ctx):
    rule_consume(ctx, "C16.CONSUME")


def rule_hb_ext(ctx):
    """HB-EXT: what the heartbeat extension negotiation means on each side, over all modes: unsolicited
    or invalid extensions abort, the permission to send is recorded only when the peer allowed it
    and the application installed a callback."""
    from .common import spec_rows
    R = "C16.HB-EXT"
    M = {"HeartbeatMode.PEER_ALLOWED_TO_SEND": [1], "HeartbeatMode.PEER_NOT_ALLOWED_TO_SEND": [2]}
    base = dict(M)
    base.update({"heartbeat_ext": [True], "heartbeat_ext.mode": [0, 1, 2, 3],
                 "settings.heartbeat_response_callback": [None, "cb"]})
    cl = dict(base)
    cl["settings.use_heartbeat_extension"] = [True, False]
    eff = {"self.heartbeat_can_send = True":
           lambda e: e["heartbeat_ext.mode"] == 1 and bool(e["settings.heartbeat_response_callback"]),
           "self.heartbeat_supported = True": lambda e: True}
    for fn in ("_clientGetServerHello", "_clientTLS13Handshake"):
        spec_rows(ctx, R, TLSCONN + fn, [
            dict(what="server's heartbeat extension: solicited and of a valid mode", dom=cl,
                 abort=lambda e: not e["settings.use_heartbeat_extension"]
                 or (bool(e["settings.heartbeat_response_callback"]) and e["heartbeat_ext.mode"] not in (1, 2)),
                 effects=eff,
                 msg="a heartbeat extension the client did not offer, or one with an invalid mode, must abort; "
                     "sending is enabled only for PEER_ALLOWED_TO_SEND with a callback installed")])
    spec_rows(ctx, R, TLSCONN + "_serverGetClientHello", [
        dict(what="client's heartbeat extension has a valid mode", dom=base,
             abort=lambda e: e["heartbeat_ext.mode"] not in (1, 2),
             effects={"self.heartbeat_response_callback = settings.heartbeat_response_callback":
                      lambda e: e["heartbeat_ext.mode"] == 1 and bool(e["settings.heartbeat_response_callback"]),
                      "self.heartbeat_can_receive = True": lambda e: True},
             msg="a heartbeat extension with an invalid mode must abort; sending is enabled only for "
                 "PEER_ALLOWED_TO_SEND with a callback installed")])


RULES = [
    ("C16.HB-EXT", "quick", rule_hb_ext),
    ("C16.KU", "quick", rule_ku),
    ("C16.HB", "quick", rule_hb),
    ("C16.PHA", "quick", rule_pha),
    ("C16.DISPATCH", "quick", rule_dispatch),
    ("C16.CONSUME", "quick", rule_consume_c16),
    # a KeyUpdate ends its record: no byte of the next message may cross the key change
    ("C16.GETMSG", "quick", borrowed("c06", "rule_getmsg", "C06.GETMSG", "C16.GETMSG")),
]
