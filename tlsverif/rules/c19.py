"""C19 - settings validation is pure; every setting is propagated and domain-checked."""
import ast

from .common import borrowed
from ..index import AnalysisError, attr_chain, norm, own_nodes
from ..query import calls_in, call_name

EXPLANATION = (
    "OFFER: the ClientHello's supported_groups keeps every group the settings enable when key-share "
    "groups are moved to the front (the set expressions are evaluated over small sets) and each "
    "advertised list-valued setting has its extension. Static purity and propagation analysis of HandshakeSettings.validate() and the 17 helper "
    "methods it reaches. ALIAS: a flow-sensitive abstract interpretation tracks which fields of the "
    "copy still alias a container of the receiver (other.f = self.g) and reports every in-place "
    "mutation (slice assignment, append/remove/sort/..., del x[i], augmented assignment, or passing "
    "the value to a helper that mutates its parameter) that can reach a receiver-owned object, and "
    "every write to a receiver field. FIELDS: every attribute initialised by __init__/_init_* is "
    "assigned on the copy from the same-named receiver attribute. DOMAIN: every list field whose "
    "default is list(CONST) is sieved against CONST or a constant built as CONST + [...] with a "
    "ValueError gate; numeric/boolean fields have ValueError range gates. SUPPORTED: both "
    "availability filters lie on every path of validate() after the copies and remove the backend "
    "names guarded by the corresponding availability flags.")
NOT_DECIDED = ("idempotence in general, that two compatible validated settings actually connect "
               "(needs two live endpoints), semantics of the user's values beyond the documented domains")
TECHNIQUE = "flow-sensitive alias/mutation abstract interpretation + copy-completeness and domain-gate structural rules"

HS = "handshakesettings:HandshakeSettings"
MUTATORS = {"append", "extend", "insert", "remove", "pop", "clear", "sort", "reverse",
            "update", "add", "discard", "setdefault", "popitem", "__setitem__", "__delitem__"}


class Alias(object):
    def __init__(self, field):
        self.field = field

    def __repr__(self):
        return "alias(self.%s)" % self.field


SELF, OTHER, FRESH = "SELF", "OTHER", "FRESH"


class AliasInterp(object):
    def __init__(self, ctx, cls):
        self.ctx = ctx
        self.cls = cls
        self.fields = {}       # field of the copy -> abstract value
        self.violations = []   # (fi, stmt, msg)
        self.sites = 0
        self.visited = []
        self.stack = []

    def run(self, fi, env):
        if fi.qname in self.stack or len(self.stack) > 8:
            return
        self.stack.append(fi.qname)
        if fi.qname not in self.visited:
            self.visited.append(fi.qname)
        self.block(fi, fi.node.body, env)
        self.stack.pop()

    # -- expressions
    def ev(self, e, env):
        if isinstance(e, ast.Name):
            return env.get(e.id, FRESH)
        if isinstance(e, ast.Attribute):
            base = self.ev(e.value, env)
            if base == SELF:
                return Alias(e.attr)
            if base == OTHER:
                return self.fields.get(e.attr, FRESH)
            return FRESH
        if isinstance(e, ast.IfExp):
            a, b = self.ev(e.body, env), self.ev(e.orelse, env)
            return a if isinstance(a, Alias) else b
        if isinstance(e, ast.BoolOp):
            for v in e.values:
                r = self.ev(v, env)
                if isinstance(r, Alias):
                    return r
            return FRESH
        return FRESH   # slices, calls, literals, comprehensions, arithmetic build new objects

    # -- statements
    def block(self, fi, stmts, env):
        for s in stmts:
            self.stmt(fi, s, env)

    def mutate(self, fi, s, target_val, how):
        self.sites += 1
        if isinstance(target_val, Alias):
            self.violations.append((fi, s, "%s mutates a container that is still shared with the "
                                    "receiver's field '%s' (validate() must not modify its receiver)"
                                    % (how, target_val.field)))
        elif target_val == SELF:
            self.violations.append((fi, s, "%s modifies the receiver itself" % how))

    def stmt(self, fi, s, env):
        if isinstance(s, ast.Assign):
            val = self.ev(s.value, env)
            self.calls(fi, s.value, env, s)
            for t in s.targets:
                self.assign(fi, s, t, val, env)
        elif isinstance(s, ast.AugAssign):
            cur = self.ev(s.target, env)
            if not isinstance(s.value, ast.Constant):
                self.mutate(fi, s, cur, "augmented assignment")
            if isinstance(s.target, ast.Attribute) and self.ev(s.target.value, env) == SELF:
                self.mutate(fi, s, SELF, "augmented assignment to self.%s" % s.target.attr)
            self.calls(fi, s.value, env, s)
        elif isinstance(s, ast.Delete):
            for t in s.targets:
                if isinstance(t, ast.Subscript):
                    self.mutate(fi, s, self.ev(t.value, env), "del on element/slice")
                elif isinstance(t, ast.Attribute) and self.ev(t.value, env) == SELF:
                    self.mutate(fi, s, SELF, "del self.%s" % t.attr)
        elif isinstance(s, ast.Expr):
            self.calls(fi, s.value, env, s)
        elif isinstance(s, ast.If):
            self.calls(fi, s.test, env, s)
            saved = dict(self.fields)
            env_a = dict(env)
            self.block(fi, s.body, env_a)
            after_a = self.fields
            self.fields = dict(saved)
            env_b = dict(env)
            self.block(fi, s.orelse, env_b)
            # may-alias merge
            merged = dict(self.fields)
            for k, v in after_a.items():
                if isinstance(v, Alias) or k not in merged:
                    merged[k] = v
            self.fields = merged
            for k in set(env_a) | set(env_b):
                a, b = env_a.get(k, FRESH), env_b.get(k, FRESH)
                env[k] = a if isinstance(a, Alias) or a in (SELF, OTHER) else b
        elif isinstance(s, (ast.For, ast.While)):
            if isinstance(s, ast.For):
                self.calls(fi, s.iter, env, s)
                if isinstance(s.target, ast.Name):
                    env[s.target.id] = FRESH
            for _ in range(2):
                self.block(fi, s.body, env)
            self.block(fi, s.orelse, env)
        elif isinstance(s, ast.Try):
            self.block(fi, s.body, env)
            for h in s.handlers:
                self.block(fi, h.body, env)
            self.block(fi, s.orelse, env)
            self.block(fi, s.finalbody, env)
        elif isinstance(s, ast.With):
            self.block(fi, s.body, env)
        elif isinstance(s, ast.Return):
            if s.value is not None:
                self.calls(fi, s.value, env, s)
        elif isinstance(s, ast.Raise):
            if s.exc is not None:
                self.calls(fi, s.exc, env, s)

    def assign(self, fi, s, t, val, env):
        if isinstance(t, ast.Name):
            env[t.id] = val
        elif isinstance(t, ast.Attribute):
            base = self.ev(t.value, env)
            if base == OTHER:
                self.fields[t.attr] = val
            elif base == SELF:
                self.mutate(fi, s, SELF, "assignment to self.%s" % t.attr)
            elif isinstance(base, Alias):
                self.mutate(fi, s, base, "attribute assignment on")
        elif isinstance(t, ast.Subscript):
            self.mutate(fi, s, self.ev(t.value, env), "element/slice assignment")
        elif isinstance(t, (ast.Tuple, ast.List)):
            for e in t.elts:
                self.assign(fi, s, e, FRESH, env)

    def calls(self, fi, expr, env, stmt):
        for c in calls_in(expr):
            f = c.func
            # x.mutator(...)
            if isinstance(f, ast.Attribute) and f.attr in MUTATORS:
                self.mutate(fi, stmt, self.ev(f.value, env), "call of .%s()" % f.attr)
                continue
            if isinstance(f, ast.Name) and f.id == "setattr" and c.args:
                self.mutate(fi, stmt, self.ev(c.args[0], env), "setattr on")
                continue
            # resolved helper of the same class: interpret its body with bound parameters
            tgt = None
            if isinstance(f, ast.Attribute):
                recv = f.value
                if (isinstance(recv, ast.Name) and (recv.id in ("self", "cls")
                                                    or recv.id == self.cls.name.split(".")[-1])):
                    tgt = self.cls.find_method(f.attr)
                elif isinstance(recv, ast.Name) and isinstance(env.get(recv.id), str) and \
                        env.get(recv.id, "").startswith("FUNC:"):
                    pass
            elif isinstance(f, ast.Name) and isinstance(env.get(f.id), str) and \
                    str(env.get(f.id)).startswith("FUNC:"):
                tgt = self.cls.find_method(env[f.id][5:])
            if tgt is None:
                # local alias of a static method: not_matching = HandshakeSettings._not_matching
                continue
            args = list(c.args)
            params = [a.arg for a in tgt.node.args.args]
            is_static = any(isinstance(d, ast.Name) and d.id in ("staticmethod",)
                            for d in tgt.node.decorator_list)
            new_env = {}
            if not is_static and params:
                recv_val = self.ev(f.value, env) if isinstance(f, ast.Attribute) else FRESH
                new_env[params[0]] = recv_val if recv_val in (SELF, OTHER) else SELF
                params = params[1:]
            for p, a in zip(params, args):
                new_env[p] = self.ev(a, env)
            for kw in c.keywords:
                if kw.arg:
                    new_env[kw.arg] = self.ev(kw.value, env)
            self.run(tgt, new_env)


def _closure(ctx, cls, start):
    """methods of the class reachable from `start` through self./Class. calls."""
    seen, todo = [], [start]
    cname = cls.name.split(".")[-1]
    while todo:
        fi = todo.pop(0)
        if fi in seen:
            continue
        seen.append(fi)
        for n in own_nodes(fi.node):
            if isinstance(n, ast.Attribute) and isinstance(n.value, ast.Name) and \
                    n.value.id in ("self", "cls", cname):
                m = cls.find_method(n.attr)
                if m is not None and m not in seen:
                    todo.append(m)
    return seen


def rule_alias(ctx):
    R = "C19.ALIAS"
    cls = ctx.index.cls(HS)
    val = ctx.index.func(HS + ".validate")
    it = AliasInterp(ctx, cls)
    # bind local aliases of static helpers (not_matching = HandshakeSettings._not_matching)
    env = {"self": SELF}
    # the copy: `other = HandshakeSettings()`
    made = False
    for s in val.node.body:
        if isinstance(s, ast.Assign) and isinstance(s.value, ast.Call) and \
                call_name(s.value) == cls.name and isinstance(s.targets[0], ast.Name):
            env[s.targets[0].id] = OTHER
            made = True
            break
    if not made:
        raise AnalysisError("validate(): construction of the copy `X = HandshakeSettings()` not found")
    other_name = [k for k, v in env.items() if v == OTHER][0]

    class _Env(dict):
        pass
    body = [s for s in val.node.body]
    # interpret, skipping the constructor assignment itself
    it.stack.append(val.qname)
    it.visited.append(val.qname)
    for s in body:
        if isinstance(s, ast.Assign) and isinstance(s.targets[0], ast.Name) and \
                s.targets[0].id == other_name and isinstance(s.value, ast.Call):
            continue
        it.stmt(val, s, env)
    it.stack.pop()
    ctx.info["alias_methods_interpreted"] = len(it.visited)
    ctx.info["alias_mutation_sites"] = it.sites
    ctx.info["alias_fields_still_shared_at_return"] = sorted(
        k for k, v in it.fields.items() if isinstance(v, Alias))
    seen = set()
    for fi, s, msg in it.violations:
        key = (fi.qname, norm(s))
        if key in seen:
            continue
        seen.add(key)
        ctx.fail(R, fi.qname, s, msg, fi.loc(s))
    # every mutation site that was examined and found harmless is a discharged obligation
    for i in range(max(0, it.sites - len(it.violations))):
        ctx.ok(R, "in-place mutation site #%d reaches only objects owned by the copy" % i)
    for q in it.visited:
        ctx.ok(R, "interpreted " + q)
    if len(it.visited) < 12:
        raise AnalysisError("C19.ALIAS: only %d methods reached from validate(), floor 12" % len(it.visited))
    if it.sites < 2:
        raise AnalysisError("C19.ALIAS: fewer than 2 in-place mutation sites seen; rule would be vacuous")


def _init_fields(ctx, cls):
    init = cls.find_method("__init__")
    if init is None:
        raise AnalysisError("anchor vanished: HandshakeSettings.__init__")
    fields = {}
    for fi in _closure(ctx, cls, init):
        if not (fi.name == "__init__" or fi.name.startswith("_init")):
            continue
        for n in own_nodes(fi.node):
            tgts = []
            if isinstance(n, ast.Assign):
                tgts = n.targets
            elif isinstance(n, ast.AugAssign):
                tgts = [n.target]
            for t in tgts:
                if isinstance(t, ast.Attribute) and isinstance(t.value, ast.Name) and t.value.id == "self":
                    if t.attr not in fields and isinstance(n, ast.Assign):
                        fields[t.attr] = (n.value, fi, n)
    return fields


def rule_fields(ctx):
    R = "C19.FIELDS"
    cls = ctx.index.cls(HS)
    val = ctx.index.func(HS + ".validate")
    fields = _init_fields(ctx, cls)
    copies = {}    # field -> (rhs expr, fi, stmt)
    for fi in _closure(ctx, cls, val):
        if not (fi is val or fi.name.startswith("_copy")):
            continue
        for n in own_nodes(fi.node):
            if isinstance(n, ast.Assign) and len(n.targets) == 1 and \
                    isinstance(n.targets[0], ast.Attribute) and \
                    isinstance(n.targets[0].value, ast.Name) and n.targets[0].value.id == "other":
                copies.setdefault(n.targets[0].attr, []).append((n.value, fi, n))
    for f in sorted(fields):
        if f not in copies:
            ctx.fail(R, HS + ".validate", "other.%s = self.%s" % (f, f),
                     "setting '%s' initialised in %s is never copied to the validated object: the "
                     "user's value is silently replaced by the default" % (f, fields[f][1].short),
                     fields[f][1].loc(fields[f][2]))
            continue
        # the first copy must come from the same-named receiver attribute
        rhs, fi, st = copies[f][0]
        src = attr_chain(rhs)
        ok = src == "self." + f
        if not ok:
            # derived values are fine if they mention self.f (filters, copies)
            ok = any(isinstance(x, ast.Attribute) and attr_chain(x) == "self." + f for x in ast.walk(rhs))
        ctx.check(R, ok, fi.qname, st,
                  "copy of setting '%s' takes its value from %s instead of self.%s" % (f, norm(rhs), f),
                  fi.loc(st))
    ctx.floor(R, 40)
    copy_preserves(ctx, R)


def copy_preserves(ctx, R, only=None):
    """The first copy validate() makes of a setting hands the caller's value on unchanged: its right-hand
    side reads no other setting and evaluates (condeval.ev, nothing is run) to the value of `self.<f>`
    for sample values of every kind a setting takes.  (Later, deliberate narrowing - macNames below
    TLS 1.2 - is a second assignment and is judged by the rules of the field it narrows.)"""
    from ..condeval import ev, Unknown
    cls = ctx.index.cls(HS)
    val = ctx.index.func(HS + ".validate")
    n_checked = 0
    firsts = {}
    for fi in _closure(ctx, cls, val):
        if not (fi is val or fi.name.startswith("_copy")):
            continue
        for n in own_nodes(fi.node):
            if isinstance(n, ast.Assign) and len(n.targets) == 1 and \
                    isinstance(n.targets[0], ast.Attribute) and \
                    isinstance(n.targets[0].value, ast.Name) and n.targets[0].value.id == "other":
                f = n.targets[0].attr
                # the copy proper is the one in a _copy* helper (else the earliest in validate itself)
                key = (0 if fi.name.startswith("_copy") else 1, n.lineno)
                if f not in firsts or key < firsts[f][3]:
                    firsts[f] = (n.value, fi, n, key)
    for f in sorted(firsts):
        if only is not None and f not in only:
            continue
        rhs, fi, st, _ = firsts[f]
        if not any(isinstance(x, ast.Attribute) and attr_chain(x) == "self." + f for x in ast.walk(rhs)):
            continue        # not a copy of the same-named setting (C19.FIELDS judges that)
        reads = {attr_chain(x) for x in ast.walk(rhs) if isinstance(x, ast.Attribute)
                 and isinstance(x.value, ast.Name) and x.value.id in ("self", "other")}
        others = sorted(reads - {"self." + f})
        bad = None
        if others:
            bad = "depends on %s" % ", ".join(others)
        else:
            for v in (True, False, None, 7, "x", ("a", "b"), ()):
                try:
                    got = ev(rhs, {"self." + f: v, "__index__": ctx.index})
                except (Unknown, TypeError, AttributeError, KeyError, IndexError) as e:
                    raise AnalysisError("%s: cannot evaluate the copy `%s`: %s" % (R, norm(st), e))
                same = got == v or (isinstance(v, tuple) and isinstance(got, (list, tuple)) and list(got) == list(v))
                if not same:
                    bad = "turns %r into %r" % (v, got)
                    break
        n_checked += 1
        ctx.check(R, bad is None, fi.qname, st,
                  "validate() must hand the caller's '%s' on unchanged, but the copy `%s` %s" % (f, norm(st), bad),
                  fi.loc(st), what="copy of '%s' preserves the caller's value" % f)
    if n_checked < (1 if only else 40):
        raise AnalysisError("%s: only %d setting copies found" % (R, n_checked))


def _module_const_defs(mod):
    """module-level NAME = expr definitions (first definition), plus augmentations."""
    defs = {}
    for st in mod.tree.body:
        if isinstance(st, ast.Assign) and len(st.targets) == 1 and isinstance(st.targets[0], ast.Name):
            defs.setdefault(st.targets[0].id, st.value)
    return defs


def _derives_from(defs, sieve, base):
    """sieve is base, or defined as base + [...] (superset by construction)."""
    if sieve == base:
        return True
    def unwrap(x):
        # tuple(X) / list(X) / frozenset(X) / set(X) of a table is that table in another container
        while isinstance(x, ast.Call) and isinstance(x.func, ast.Name) and x.func.id in ("tuple", "list", "frozenset", "set") \
                and len(x.args) == 1 and not x.keywords:
            x = x.args[0]
        return x
    e = defs.get(sieve)
    seen = 0
    while e is not None and seen < 5:
        e = unwrap(e)
        if isinstance(e, ast.BinOp) and isinstance(e.op, (ast.Add, ast.BitOr)):
            l = unwrap(e.left)
            if isinstance(l, ast.Name):
                if l.id == base:
                    return True
                e = defs.get(l.id)
                seen += 1
                continue
        if isinstance(e, ast.Name):
            if e.id == base:
                return True
            e = defs.get(e.id)
            seen += 1
            continue
        break
    return False


def _domain_by_meaning(ctx, closure, defs, f, base, others=()):
    from ..condeval import outcomes, ev, Unknown
    from .common import dead_edge_labels
    # every literal table gets its own marker element, so that two tables with equal contents stay
    # distinguishable (checking a setting against the WRONG table must not pass)
    consts = {}
    for name, node in defs.items():
        try:
            v = ev(node, dict(consts))
            hash(v)
            if isinstance(node, (ast.List, ast.Tuple)) and isinstance(v, tuple):
                v = v + ("\x00in-" + name,)
            consts[name] = v
        except (Unknown, TypeError, AttributeError, KeyError, IndexError):
            continue
    dom = consts.get(base)
    if not isinstance(dom, tuple) or not dom:
        return False
    bogus, good = ("\x00no-such-value",), ("\x00in-" + base,) if ("\x00in-" + base) in dom else (dom[0],)
    for fi in closure:
        g = ctx.an.cfg(fi)
        if not any(isinstance(x, ast.Attribute) and x.attr == f for x in ast.walk(fi.node)):
            continue
        cache = {}

        def ao(t, g=g, cache=cache):
            if t.id not in cache:
                cache[t.id] = dead_edge_labels(g, t, [g.exit])
            return cache[t.id]
        res = []
        for val in (bogus, good):
            env = dict(consts)
            for of, ob in others:
                if isinstance(consts.get(ob), tuple):
                    env["other." + of] = consts[ob]
            env["other." + f] = val
            env["__index__"] = ctx.index
            env["__an__"] = ctx.an
            out, both = outcomes(g, fi.node, env, ao)
            res.append({x for x, t in out})
        if res[0] == {"raise"} and ("raise", False) not in {(x, False) for x in res[1] if x == "raise"} and "pass" in res[1]:
            return True
    return False


def rule_domain(ctx):
    R = "C19.DOMAIN"
    cls = ctx.index.cls(HS)
    mod = ctx.index.module("handshakesettings")
    defs = _module_const_defs(mod)
    val = ctx.index.func(HS + ".validate")
    fields = _init_fields(ctx, cls)
    closure = _closure(ctx, cls, val)
    # sieve sites: X = not_matching(other.f, SIEVE) / [.. for v in other.f if v not in SIEVE]
    sieves = {}    # field -> [(sieve const, fi, stmt, gated)]
    for fi in closure:
        g = ctx.an.cfg(fi)
        for node in g.nodes:
            if node.kind != "stmt" or not isinstance(node.ast, ast.Assign):
                continue
            st = node.ast
            if not (len(st.targets) == 1 and isinstance(st.targets[0], ast.Name)):
                continue
            var = st.targets[0].id
            fld, sv = None, None
            v = st.value
            if isinstance(v, ast.Call) and call_name(v) in ("not_matching", "_not_matching") and len(v.args) == 2:
                c0 = attr_chain(v.args[0])
                if c0 and c0.startswith("other.") and isinstance(v.args[1], ast.Name):
                    fld, sv = c0[6:], v.args[1].id
            elif isinstance(v, ast.ListComp) and len(v.generators) == 1:
                gen = v.generators[0]
                c0 = attr_chain(gen.iter)
                if c0 and c0.startswith("other.") and gen.ifs:
                    for cond in gen.ifs:
                        for cmp_ in ast.walk(cond):
                            if isinstance(cmp_, ast.Compare) and isinstance(cmp_.ops[0], ast.NotIn) \
                                    and isinstance(cmp_.comparators[0], ast.Name):
                                fld, sv = c0[6:], cmp_.comparators[0].id
            if fld is None:
                continue
            # gate: the next test on `var` must raise ValueError on its true edge
            gated = False
            after_ = g.reach(g.normal_succ(node))
            for m in sorted(g.nodes, key=lambda x: x.id):
                if m.kind == "test" and isinstance(m.expr, ast.Name) and m.expr.id == var and \
                        m.id in after_:
                    tb = g.succ_on(m, "T")
                    seen = g.reach(tb)
                    raises = [x for x in g.nodes if x.id in seen and x.kind == "raise"]
                    gated = bool(tb) and g.exit.id not in seen and \
                        any("ValueError" in norm(x.ast) for x in raises)
                    break
            sieves.setdefault(fld, []).append((sv, fi, st, gated))
    n_list_fields = 0
    list_defaults = [(f_, dv_.args[0].id) for f_, (dv_, _a, _b) in fields.items()
                     if isinstance(dv_, ast.Call) and isinstance(dv_.func, ast.Name) and dv_.func.id == "list"
                     and dv_.args and isinstance(dv_.args[0], ast.Name)]
    for f, (dv, dfi, dst) in sorted(fields.items()):
        if not (isinstance(dv, ast.Call) and isinstance(dv.func, ast.Name) and dv.func.id == "list"
                and dv.args and isinstance(dv.args[0], ast.Name)):
            continue
        base = dv.args[0].id
        n_list_fields += 1
        cands = sieves.get(f, [])
        if not cands:
            # not written as a direct `not_matching(other.f, SIEVE)`: decide it by meaning - some function
            # of validate()'s closure must end in ValueError for a value outside the domain and must not for
            # one inside it (finite-domain walk with the module's constant lists bound; helpers followed)
            if _domain_by_meaning(ctx, closure, defs, f, base, list_defaults):
                ctx.ok(R, "other.%s refused outside %s (decided by evaluating the checks)" % (f, base), dfi.loc(dst))
                continue
            ctx.fail(R, HS + ".validate", "domain check of other.%s" % f,
                     "list setting '%s' (default list(%s)) is never checked against its domain" % (f, base),
                     dfi.loc(dst))
            continue
        good = [c for c in cands if _derives_from(defs, c[0], base) and c[3]]
        if good:
            ctx.ok(R, "other.%s sieved against %s with ValueError gate" % (f, good[0][0]), good[0][1].loc(good[0][2]))
        else:
            sv, fi, st, gated = cands[0]
            why = ("the sieve %s is not %s nor built as %s + [...]" % (sv, base, base)) \
                if not _derives_from(defs, sv, base) else "the result is not gated by `if X: raise ValueError`"
            ctx.fail(R, fi.qname, st, "domain check of setting '%s': %s" % (f, why), fi.loc(st))
    if n_list_fields < 14:
        raise AnalysisError("C19.DOMAIN: %d list-valued settings with list(CONST) default, floor 14" % n_list_fields)
    # scalar range / boolean gates: fields that must be compared in a ValueError gate
    scalar = ["minKeySize", "maxKeySize", "minVersion", "maxVersion", "useExtendedMasterSecret",
              "requireExtendedMasterSecret", "useEncryptThenMAC", "usePaddingExtension",
              "use_heartbeat_extension", "record_size_limit", "ticketCipher", "ticketLifetime",
              "max_early_data", "ticket_count", "defaultCurve", "dc_valid_time", "pskConfigs",
              "ticketKeys", "certificateTypes", "cipherNames", "cipherImplementations", "keyShares"]
    gates = {}
    for fi in closure:
        g = ctx.an.cfg(fi)
        for m in g.nodes:
            if m.kind != "test":
                continue
            tb = g.succ_on(m, "T")
            seen = g.reach(tb)
            if g.exit.id in seen:
                continue
            if not any(x.kind == "raise" and "ValueError" in norm(x.ast) for x in g.nodes if x.id in seen):
                continue
            exprs = [m.expr]
            # one def-use step: locals of the test defined from expressions over other.f
            for nm in {x.id for x in ast.walk(m.expr) if isinstance(x, ast.Name)}:
                for d in g.nodes:
                    if d.kind == "stmt" and isinstance(d.ast, ast.Assign) and \
                            any(isinstance(t, ast.Name) and t.id == nm for t in d.ast.targets):
                        exprs.append(d.ast.value)
            for e in exprs:
                for n in ast.walk(e):
                    if isinstance(n, ast.Attribute) and isinstance(n.value, ast.Name) and n.value.id == "other":
                        gates.setdefault(n.attr, []).append((fi, m))
    for f in scalar:
        if f not in fields:
            raise AnalysisError("anchor vanished: HandshakeSettings field %s" % f)
        ctx.check(R, f in gates, HS + ".validate", "ValueError gate on other.%s" % f,
                  "setting '%s' has no ValueError gate in validate(): out-of-domain values are accepted" % f,
                  fields[f][1].loc(fields[f][2]))


def rule_supported(ctx):
    R = "C19.SUPPORTED"
    val = ctx.index.func(HS + ".validate")
    g = ctx.an.cfg(val)
    rets = [n for n in g.nodes if n.kind == "return"]
    for helper in ("_sanity_check_implementations", "_sanity_check_ciphers"):
        gates = [n for n in g.nodes if n.kind == "stmt" and any(call_name(c) == helper for c in calls_in(n.ast))]
        seen = g.reach([g.entry], blocked=gates, follow_exc=False)
        bad = [r for r in rets if r.id in seen]
        ctx.check(R, bool(gates) and not bad, val.qname, "availability filter %s on every path" % helper,
                  "validate() can return without running %s: the result may name algorithms this "
                  "installation does not support" % helper, val.loc(bad[0].ast) if bad else val.loc(),
                  path=[n.line for n in g.path(seen, bad[0].id)] if bad else None)
        # filters must come after every copy from the receiver
        copies = [n for n in g.nodes if n.kind == "stmt" and
                  any(call_name(c).startswith("_copy") for c in calls_in(n.ast) if call_name(c))]
        for gt in gates:
            after = g.reach(g.normal_succ(gt))
            late = [c for c in copies if c.id in after]
            ctx.check(R, not late, val.qname, "%s after the copies" % helper,
                      "a copy from the receiver follows %s and overwrites the filtered value" % helper,
                      val.loc(late[0].ast) if late else val.loc(gt.ast))
    # what the filters remove: flag -> backend name
    impl = ctx.index.func(HS + "._sanity_check_implementations")
    ciph = ctx.index.func(HS + "._sanity_check_ciphers")
    expect = [(impl, "m2cryptoLoaded", "openssl", "cipherImplementations"),
              (impl, "pycryptoLoaded", "pycrypto", "cipherImplementations"),
              (ciph, "tripleDESPresent", "3des", "cipherNames")]
    for fi, flag, name, field in expect:
        ok = False
        for n in own_nodes(fi.node):
            if isinstance(n, ast.If) and isinstance(n.test, ast.UnaryOp) and isinstance(n.test.op, ast.Not) \
                    and (attr_chain(n.test.operand) or "").endswith("." + flag):
                for c in calls_in(ast.Module(body=n.body, type_ignores=[])):
                    if call_name(c) == "_remove_all_matches" and len(c.args) == 2 and \
                            attr_chain(c.args[0]) == "other." + field and \
                            isinstance(c.args[1], ast.Constant) and c.args[1].value == name:
                        ok = True
        ctx.check(R, ok, fi.qname, "if not %s: remove %r from other.%s" % (flag, name, field),
                  "when %s is false the name %r must be removed from %s" % (flag, name, field), fi.loc())
    rm = ctx.index.func(HS + "._remove_all_matches")
    okrm = False
    for n in own_nodes(rm.node):
        if isinstance(n, ast.Assign) and isinstance(n.targets[0], ast.Subscript) and \
                attr_chain(n.targets[0].value) == "values":
            src = norm(n.value)
            okrm = "!= needle" in src and "for" in src
    ctx.check(R, okrm, rm.qname, "values[:] = (i for i in values if i != needle)",
              "_remove_all_matches must keep exactly the items different from the needle", rm.loc())
    # emptiness gates after the filters
    for fi, field in ((impl, "cipherImplementations"), (ciph, "cipherNames")):
        g2 = ctx.an.cfg(fi)
        ok = False
        for m in g2.nodes:
            if m.kind == "test" and norm(m.expr) == "not other." + field:
                seen = g2.reach(g2.succ_on(m, "T"))
                ok = g2.exit.id not in seen
        ctx.check(R, ok, fi.qname, "if not other.%s: raise ValueError" % field,
                  "an empty %s after filtering must be rejected" % field, fi.loc())


def rule_offer(ctx):
    """what the settings enable reaches the ClientHello: the supported_groups reordering keeps
    every advertised group (decided by evaluating the two set expressions over small sets)."""
    from ..condeval import ev, Unknown
    R = "C19.OFFER"
    fi = ctx.index.func("tlsconnection:TLSConnection._clientSendClientHello")
    blk = None
    for n in own_nodes(fi.node):
        if isinstance(n, ast.If) and norm(n.test) == "shares" and any(
                isinstance(s, ast.Assign) and norm(s.targets[0]) == "groups" for s in n.body):
            blk = n
    if blk is None:
        raise AnalysisError("C19.OFFER: supported_groups reordering block not found")
    bad = None
    try:
        for groups in ((1, 2, 3), (3, 2, 1), (5,)):
            for share_ids in ((), (1,), (2, 1), (4,), (3, 9)):
                env = {"groups": groups, "shares": [object()] * len(share_ids)}
                for st in blk.body:
                    if not (isinstance(st, ast.Assign) and isinstance(st.targets[0], ast.Name)):
                        raise Unknown("statement " + norm(st)[:40])
                    if norm(st.targets[0]) == "share_ids":
                        env["share_ids"] = share_ids       # [i.group for i in shares]
                        continue
                    env[st.targets[0].id] = ev(st.value, env)
                new = tuple(env["groups"])
                if not (set(groups) <= set(new) and new[:len(share_ids)] == share_ids
                        and len(new) == len(set(new)) and set(new) == set(groups) | set(share_ids)):
                    bad = (groups, share_ids, new)
    except Unknown as u:
        raise AnalysisError("C19.OFFER: group reordering uses a construct the rule does not model: %s" % u)
    ctx.check(R, bad is None, fi.qname, "supported_groups = key-share groups first, then every other enabled group",
              "the ClientHello's supported_groups must list the key-share groups first and keep EVERY group the "
              "settings enable; for enabled groups %s and key shares %s it advertises %s (a server whose only "
              "common group has no key share can then not connect)" % (bad or ("", "", "")), fi.loc(blk))
    src = [norm(s) for s in own_nodes(fi.node) if isinstance(s, ast.Expr)]
    ok = "groups.extend(self._curveNamesToList(settings))" in src and "groups.extend(self._groupNamesToList(settings))" in src
    ctx.check(R, ok, fi.qname, "groups built from settings' curves and FFDHE groups",
              "supported_groups must be built from the settings' eccCurves and dhGroups", fi.loc())
    ext = [s for s in src if "SupportedGroupsExtension().create(groups)" in s]
    ctx.check(R, len(ext) == 1, fi.qname, "the reordered list is what is advertised",
              "the supported_groups extension must be created from `groups`", fi.loc())
    for nm, fld, enum in (("_curveNamesToList", "eccCurves", "GroupName"), ("_groupNamesToList", "dhGroups", "GroupName")):
        f = ctx.index.func("tlsconnection:TLSConnection." + nm)
        src_ = " ".join(norm(x) for x in own_nodes(f.node) if isinstance(x, (ast.Return, ast.Assign)))
        ok = ("[getattr(%s, val) for val in settings.%s]" % (enum, fld)) in src_
        ctx.check(R, ok, f.qname, "%s maps every name of settings.%s" % (nm, fld),
                  "%s must translate every entry of settings.%s" % (nm, fld), f.loc())
    # one extension per list-valued setting that is advertised
    table = [("settings.versions", "SupportedVersionsExtension"), ("settings.psk_modes", "PskKeyExchangeModesExtension"),
             ("settings.ec_point_formats", "ECPointFormatsExtension"), ("settings.record_size_limit", "RecordSizeLimitExtension")]
    allsrc = " ".join(norm(s) for s in own_nodes(fi.node) if isinstance(s, (ast.Expr, ast.Assign)))
    for setting, cls in table:
        ok = cls in allsrc and setting in allsrc
        ctx.check(R, ok, fi.qname, "%s advertised through %s" % (setting, cls),
                  "%s is no longer carried into the ClientHello by %s" % (setting, cls), fi.loc())


def _loads(node):
    return {x.id for x in ast.walk(node) if isinstance(x, ast.Name) and isinstance(x.ctx, (ast.Load, ast.Del))}


def rule_select(ctx):
    """what the settings enable is what the server selects from: each group intersection is computed
    against the list derived from the matching setting (reaching definitions), and no value derived
    from the settings is stored and then dropped (computed but never used)."""
    from ..flow import reaching_defs
    from ..query import assigns, call_name
    R = "C19.SELECT"
    fi = ctx.index.func("tlsconnection:TLSConnection._serverGetClientHello")
    g = ctx.an.cfg(fi)
    want = {"ecGroupIntersect": ("_curveNamesToList", "eccCurves"), "ffGroupIntersect": ("_groupNamesToList", "dhGroups")}
    found = 0
    for n in g.nodes:
        if n.kind != "stmt" or not isinstance(n.ast, ast.Assign) or not isinstance(n.ast.value, ast.Call) \
                or call_name(n.ast.value) != "getFirstMatching":
            continue
        tgt = norm(n.ast.targets[0])
        if tgt not in want:
            continue
        found += 1
        helper, setting = want[tgt]
        args = n.ast.value.args
        ok = len(args) == 2
        srcs = []
        if ok:
            if isinstance(args[1], ast.Name):
                ds = reaching_defs(g, n, args[1].id)
                srcs = [norm(d.ast.value) if d.ast is not None and isinstance(d.ast, ast.Assign) else "?" for d in ds]
                ok = bool(ds) and all(isinstance(d.ast, ast.Assign) and isinstance(d.ast.value, ast.Call)
                                      and call_name(d.ast.value) == helper and d.ast.value.args
                                      and norm(d.ast.value.args[0]) == "settings" for d in ds)
            else:
                srcs = [norm(args[1])]
                ok = isinstance(args[1], ast.Call) and call_name(args[1]) == helper and args[1].args \
                    and norm(args[1].args[0]) == "settings"
        ctx.check(R, ok, fi.qname, "%s computed against %s(settings)" % (tgt, helper),
                  "`%s` must intersect the client's groups with the list built from settings.%s, but its second "
                  "operand comes from %s: groups the settings enable are ignored (or disabled ones honoured)"
                  % (norm(n.ast), setting, ", ".join(srcs) or "nothing"), fi.loc(n.ast))
    ctx.require(found >= 2, "C19.SELECT: server group intersections not found in _serverGetClientHello")
    # settings-derived locals are used
    checked = 0
    for f in ctx.index.all_functions():
        if f.module.name not in ("tlsconnection", "tlsrecordlayer", "keyexchange", "handshakehelpers"):
            continue
        if "settings" not in {a.arg for a in f.node.args.args}:
            continue
        gg = ctx.an.cfg(f)
        nested = set()
        for x in ast.walk(f.node):
            if x is not f.node and isinstance(x, (ast.FunctionDef, ast.Lambda)):
                nested |= _loads(x)
        use = {}
        for m in gg.nodes:
            u = set()
            for a in (m.ast if m.kind != "test" else None, m.expr, getattr(m, "call", None)):
                if isinstance(a, ast.AST) and not isinstance(a, (ast.If, ast.While, ast.For, ast.Try, ast.With)):
                    u |= _loads(a)
            use[m.id] = u
        for m in gg.nodes:
            if m.kind != "stmt" or not isinstance(m.ast, ast.Assign) or "settings" not in _loads(m.ast.value):
                continue
            if getattr(m.ast, "_tlsverif_expanded", False):
                continue        # a new local that was substituted into its uses by the normaliser
            for t in m.ast.targets:
                if not isinstance(t, ast.Name) or t.id.startswith("_") or t.id in nested:
                    continue
                checked += 1
                v = t.id
                st = [k for k, l in m.succ]
                vis = set()
                used = False
                while st and not used:
                    k = st.pop()
                    if k.id in vis:
                        continue
                    vis.add(k.id)
                    if v in use[k.id]:
                        used = True
                    elif not assigns(k, v):
                        st += [j for j, l in k.succ]
                ctx.check(R, used, f.qname, "`%s` (derived from the settings) is used" % norm(m.ast)[:60],
                          "`%s` computes a value from the settings that is never read afterwards: the code that "
                          "follows works on something else than what the settings say" % norm(m.ast)[:80],
                          f.loc(m.ast), what="%s %s@%s" % (f.short, v, norm(m.ast.value)[:40]))
    ctx.require(checked >= 40, "C19.SELECT: %d settings-derived locals examined, floor 40" % checked)


def rule_ranges(ctx):
    """RANGES: the scalar settings are refused exactly outside their domains.  Each sanity-check
    function is evaluated (its tests only; nothing is run) over boundary values of the fields one row
    names, all unrelated checks assumed to pass: it must end in ValueError exactly when the row's
    specification says the value is outside the domain."""
    import itertools
    from ..condeval import outcomes
    from .common import borrowed, dead_edge_labels
    R = "C19.RANGES"
    O = "other."
    V = [(2, 0), (3, 0), (3, 1), (3, 3), (3, 4), (3, 5)]
    KNOWN = [(3, 0), (3, 1), (3, 2), (3, 3), (3, 4)]
    week = 7 * 24 * 60 * 60
    T = [
        ("_sanityCheckKeySizes", {O + "minKeySize": [0, 511, 512, 1023, 2048, 16384, 16385],
                                  O + "maxKeySize": [0, 511, 512, 1023, 2048, 16384, 16385]},
         lambda e: not (512 <= e[O + "minKeySize"] <= 16384) or not (512 <= e[O + "maxKeySize"] <= 16384)
         or e[O + "maxKeySize"] < e[O + "minKeySize"],
         "minKeySize and maxKeySize within 512..16384 and minKeySize <= maxKeySize"),
        ("_sanityCheckProtocolVersions", {O + "minVersion": V, O + "maxVersion": V, "KNOWN_VERSIONS": [tuple(KNOWN)]},
         lambda e: e[O + "minVersion"] > e[O + "maxVersion"] or e[O + "minVersion"] not in KNOWN
         or e[O + "maxVersion"] not in KNOWN,
         "minVersion <= maxVersion, both known protocol versions"),
        ("_sanityCheckEMSExtension", {O + "useExtendedMasterSecret": [True, False, None, 2],
                                      O + "requireExtendedMasterSecret": [True, False, None, 2]},
         lambda e: e[O + "useExtendedMasterSecret"] not in (True, False)
         or e[O + "requireExtendedMasterSecret"] not in (True, False)
         or (e[O + "requireExtendedMasterSecret"] and not e[O + "useExtendedMasterSecret"]),
         "EMS flags boolean, require implies use"),
        ("_sanityCheckExtensions", {O + "record_size_limit": [None, 0, 63, 64, 65, 2 ** 14, 2 ** 14 + 1, 2 ** 14 + 2]},
         lambda e: e[O + "record_size_limit"] is not None and not (64 <= e[O + "record_size_limit"] <= 2 ** 14 + 1),
         "record_size_limit None or within 64..2**14+1"),
        ("_sanityCheckExtensions", {O + "dc_valid_time": [0, 1, week - 1, week, week + 1], "DC_VALID_TIME": [week]},
         lambda e: e[O + "dc_valid_time"] > week, "dc_valid_time at most 7 days"),
        ("_sanityCheckExtensions", {O + "useEncryptThenMAC": [True, False, None, 2]},
         lambda e: e[O + "useEncryptThenMAC"] not in (True, False), "useEncryptThenMAC boolean"),
        ("_sanityCheckExtensions", {O + "usePaddingExtension": [True, False, None, 2]},
         lambda e: e[O + "usePaddingExtension"] not in (True, False), "usePaddingExtension boolean"),
        ("_sanityCheckExtensions", {O + "use_heartbeat_extension": [True, False, None, 2],
                                    O + "heartbeat_response_callback": [None]},
         lambda e: e[O + "use_heartbeat_extension"] not in (True, False), "use_heartbeat_extension boolean"),
        ("_sanityCheckExtensions", {O + "use_heartbeat_extension": [True, False],
                                    O + "heartbeat_response_callback": [None, "cb"]},
         lambda e: bool(e[O + "heartbeat_response_callback"]) and not e[O + "use_heartbeat_extension"],
         "a heartbeat callback requires the heartbeat extension"),
        ("_sanityCheckTicketSettings", {O + "ticketLifetime": [-1, 0, 1, week - 1, week, week + 1]},
         lambda e: not (0 < e[O + "ticketLifetime"] <= week), "ticketLifetime within 1..7 days"),
        ("_sanityCheckTicketSettings", {O + "max_early_data": [-1, 0, 1, 2 ** 64 - 1, 2 ** 64, 2 ** 64 + 1]},
         lambda e: not (0 < e[O + "max_early_data"] <= 2 ** 64), "max_early_data within 1..2**64"),
        ("_sanityCheckTicketSettings", {O + "ticket_count": [-1, 0, 1, 2 ** 16 - 1, 2 ** 16]},
         lambda e: not (0 <= e[O + "ticket_count"] < 2 ** 16), "ticket_count within 0..2**16-1"),
        ("_sanityCheckECDHSettings", {O + "versions": [((3, 3),), ((3, 4),), ((3, 3), (3, 4)), ((3, 1), (3, 4)),
                                                       ((3, 1), (3, 2)), ((3, 0), (3, 3), (3, 4))],
                                      "forbiddenGroup": [(), ("brainpoolP256r1",)]},
         lambda e: bool(e["forbiddenGroup"]) and (3, 3) not in e[O + "versions"] and (3, 4) in e[O + "versions"],
         "groups TLS 1.3 forbids are refused exactly when TLS 1.3 is enabled and TLS 1.2 is not"),
        ("_sanityCheckPrimitivesNames", dict([(O + k, [(), ("x",)]) for k in
                                              ("rsaSigHashes", "ecdsaSigHashes", "dsaSigHashes", "more_sig_schemes")]
                                             + [(O + "maxVersion", [(3, 2), (3, 3), (3, 4)])]),
         lambda e: not any(e[O + k] for k in ("rsaSigHashes", "ecdsaSigHashes", "dsaSigHashes", "more_sig_schemes"))
         and e[O + "maxVersion"] >= (3, 3), "TLS 1.2+ needs at least one signature algorithm"),
    ]
    for fname, dom, spec, what in T:
        fi = ctx.index.func(HS + "." + fname)
        g = ctx.an.cfg(fi)
        ao = lambda t, g=g: dead_edge_labels(g, t, [g.exit])
        keys = sorted(dom)
        bad = None
        for combo in itertools.product(*[dom[k] for k in keys]):
            env = dict(zip(keys, combo))
            out, both = outcomes(g, fi.node, env, ao)
            out = {x for x, t in out}
            exp = {"raise"} if spec(env) else {"pass"}
            if out != exp:
                bad = (env, out, exp, both)
                break
        if bad:
            env, out, exp, both = bad
            shown = ", ".join("%s=%r" % (k.replace(O, ""), v) for k, v in sorted(env.items()) if k[:1].islower())
            why = ("the check depends on `%s`, which is not what the domain is stated over" % norm(both[0].expr)[:80]) \
                if both else ("validation %s for %s but must %s" % (
                    "raises ValueError" if "raise" in out else "passes", shown,
                    "raise ValueError" if exp == {"raise"} else "accept it"))
            ctx.fail(R, fi.qname, what, "%s: %s" % (what, why),
                     fi.loc(both[0].ast) if both and both[0].ast is not None else fi.loc())
        else:
            ctx.ok(R, "%s: %s" % (fi.short, what), fi.loc(),
                   sample={"fields": [k for k in keys], "assignments": len(list(itertools.product(*[dom[k] for k in keys])))})


def rule_group_tables(ctx):
    """GROUP-TABLES: the two tables that say which groups TLS 1.3 allows agree: validate() accepts a
    TLS 1.3-only configuration iff its groups are in TLS13_PERMITTED_GROUPS, the server refuses a
    TLS 1.3-only hello that lists a group of TLS_1_3_FORBIDDEN_GROUPS.  No permitted group may be
    forbidden (such settings validate and then never connect), and the forbidden set is the
    obsolete_RESERVED ranges of RFC 8446 B.3.1.4."""
    from ..condeval import ev, Unknown
    from ..consteval import ClassEval
    R = "C19.GROUP-TABLES"
    cmod = ctx.index.module("constants")
    forb = None
    for st in cmod.tree.body:
        if isinstance(st, ast.Assign) and any(isinstance(t, ast.Name) and t.id == "TLS_1_3_FORBIDDEN_GROUPS" for t in st.targets):
            try:
                forb = frozenset(ev(st.value, {}))
            except (Unknown, TypeError):
                raise AnalysisError("C19.GROUP-TABLES: TLS_1_3_FORBIDDEN_GROUPS is not a constant expression the rule can evaluate")
            floc = "tlslite/constants.py:%d" % st.lineno
    hmod = ctx.index.module("handshakesettings")
    perm = None
    for st in hmod.tree.body:
        if isinstance(st, ast.Assign) and any(isinstance(t, ast.Name) and t.id == "TLS13_PERMITTED_GROUPS" for t in st.targets):
            perm = ev(st.value, {})
    if forb is None or not perm:
        raise AnalysisError("C19.GROUP-TABLES: group tables not found")
    gn = {}
    for st in ctx.index.cls("constants:GroupName").node.body:
        if isinstance(st, ast.Assign) and isinstance(st.value, ast.Constant) and isinstance(st.value.value, int):
            for t in st.targets:
                if isinstance(t, ast.Name):
                    gn[t.id] = st.value.value
    rfc = frozenset(range(1, 0x17)) | frozenset(range(0x1A, 0x1D)) | frozenset((0xff01, 0xff02))
    ctx.check(R, forb == rfc, "constants:TLS_1_3_FORBIDDEN_GROUPS", "forbidden set = RFC 8446 obsolete_RESERVED ranges",
              "TLS_1_3_FORBIDDEN_GROUPS differs from RFC 8446 B.3.1.4 (1..0x16, 0x1A..0x1C, 0xFF01, 0xFF02): %s"
              % sorted(forb ^ rfc)[:6], floc)
    for name in perm:
        if name not in gn:
            ctx.fail(R, "handshakesettings:TLS13_PERMITTED_GROUPS", "group %s known" % name,
                     "TLS13_PERMITTED_GROUPS names %s, which GroupName does not define" % name, "tlslite/handshakesettings.py")
            continue
        ctx.check(R, gn[name] not in forb, "constants:TLS_1_3_FORBIDDEN_GROUPS", "%s permitted and not forbidden" % name,
                  "group %s (%d) is in TLS13_PERMITTED_GROUPS and in TLS_1_3_FORBIDDEN_GROUPS: settings offering it "
                  "for TLS 1.3 only validate, and every server then refuses the ClientHello" % (name, gn[name]), floc)


def rule_curve_tables(ctx):
    """CURVE-TABLES: every elliptic curve name the settings admit (CURVE_NAMES / ALL_CURVE_NAMES, taken
    from the source whatever the optional dependencies) that the key exchange resolves through
    utils.ecc.getCurveByName is a key of that function's curve map - a name that validates but is
    missing from the map makes the handshake die with ValueError once that curve is selected."""
    R = "C19.CURVE-TABLES"
    hmod = ctx.index.module("handshakesettings")
    names = set()
    for n in ast.walk(hmod.tree):
        if isinstance(n, (ast.Assign, ast.AugAssign)):
            tg = n.targets if isinstance(n, ast.Assign) else [n.target]
            if any(isinstance(t, ast.Name) and t.id in ("CURVE_NAMES", "ALL_CURVE_NAMES") for t in tg):
                for x in ast.walk(n.value):
                    if isinstance(x, ast.Constant) and isinstance(x.value, str):
                        names.add(x.value)
    fi = ctx.index.func("utils.ecc:getCurveByName")
    keys = set()
    for n in own_nodes(fi.node):
        if isinstance(n, ast.Dict):
            keys |= {k.value for k in n.keys if isinstance(k, ast.Constant) and isinstance(k.value, str)}
        if isinstance(n, ast.Assign) and len(n.targets) == 1 and isinstance(n.targets[0], ast.Subscript) \
                and isinstance(n.targets[0].slice, ast.Constant) and isinstance(n.targets[0].slice.value, str):
            keys.add(n.targets[0].slice.value)
    if len(names) < 10 or len(keys) < 8:
        raise AnalysisError("%s: curve tables not found (%d names, %d map keys)" % (R, len(names), len(keys)))
    # names the key exchange never sends to getCurveByName: Montgomery curves and hybrid ML-KEM groups
    weier = sorted(nm for nm in names if nm not in ("x25519", "x448") and "mlkem" not in nm)
    for nm in weier:
        ctx.check(R, nm in keys, fi.qname, "curve %s resolvable" % nm,
                  "the settings admit curve %r but getCurveByName has no entry for it (its keys: %s): a handshake "
                  "that selects it dies with ValueError" % (nm, ", ".join(sorted(keys - names)) or "all others match"),
                  fi.loc(), what="getCurveByName knows %s" % nm)


def rule_compress_direction(ctx):
    """COMPRESS-DIR: compress_certificate advertises what the sender can DEcompress: every
    CompressedCertificateExtension that is built lists `certificate_compression_receive` (followed through
    the locals it is built in), never the send list - with different lists a peer would otherwise be
    invited to compress with an algorithm we cannot read, or be told we support nothing."""
    from .common import resolved_text
    from ..query import calls_in, call_name
    R = "C19.COMPRESS-DIR"
    n = 0
    for fi in ctx.index.all_functions():
        if fi.module.name not in ("tlsconnection", "tlsrecordlayer"):
            continue
        for c in calls_in(fi.node):
            if call_name(c) == "create" and isinstance(c.func, ast.Attribute) and isinstance(c.func.value, ast.Call) \
                    and call_name(c.func.value) == "CompressedCertificateExtension" and c.args:
                n += 1
                txt = resolved_text(fi.node, c.args[0])
                ok = "certificate_compression_receive" in txt and "certificate_compression_send" not in txt
                ctx.check(R, ok, fi.qname, c,
                          "the compress_certificate extension is built from `%s`; it must list the algorithms of "
                          "certificate_compression_receive (what this side can decompress)" % txt[:120], fi.loc(c),
                          what="%s advertises certificate_compression_receive" % fi.short)
    if n < 3:
        raise AnalysisError("%s: only %d compress_certificate constructions found (confirmed 4)" % (R, n))


def rule_point_format(ctx):
    """POINT-FORMAT: the EC point format an endpoint uses (or accepts) when both hellos carry
    ec_point_formats comes from BOTH lists: every value a function derives from the two extensions'
    `formats` is evaluated for lists that differ (condeval.ev, nothing is run) and must lie in the
    intersection - otherwise one side encodes its share in a format the other did not list, and a
    permitted combination of settings fails to connect."""
    from ..condeval import ev, Unknown
    from ..query import calls_in, call_name
    R = "C19.POINT-FORMAT"
    n_sites = 0
    for fi in ctx.index.all_functions():
        ext = {}       # local -> "c" / "s"
        for n in own_nodes(fi.node):
            if isinstance(n, ast.Assign) and len(n.targets) == 1 and isinstance(n.targets[0], ast.Name) \
                    and isinstance(n.value, ast.Call) and call_name(n.value) == "getExtension" and n.value.args \
                    and attr_chain(n.value.args[0]) == "ExtensionType.ec_point_formats":
                src = norm(n.value.func)
                side = "c" if "clientHello" in src or "client_hello" in src else \
                    "s" if "serverHello" in src or "server_hello" in src else None
                if side:
                    ext[n.targets[0].id] = side
        if set(ext.values()) != {"c", "s"}:
            continue
        for n in own_nodes(fi.node):
            if not (isinstance(n, ast.Assign) and len(n.targets) == 1 and isinstance(n.targets[0], ast.Name)):
                continue
            used = {x.value.id for x in ast.walk(n.value) if isinstance(x, ast.Attribute) and x.attr == "formats"
                    and isinstance(x.value, ast.Name) and x.value.id in ext}
            if not used:
                continue
            n_sites += 1
            bad = None
            for A, B in (((0,), (1, 0)), ((1, 0), (0,)), ((0, 1), (1, 0)), ((2, 0), (1, 0))):
                env = {"__index__": ctx.index}
                for nm, side in ext.items():
                    env[nm + ".formats"] = A if side == "c" else B
                try:
                    got = ev(n.value, env)
                except (Unknown, TypeError, AttributeError, KeyError, IndexError) as e:
                    raise AnalysisError("%s: cannot evaluate `%s` in %s: %s" % (R, norm(n), fi.qname, e))
                vals = list(got) if isinstance(got, (tuple, list, set, frozenset)) else [got]
                outside = [v for v in vals if v not in A or v not in B]
                if outside or not vals:
                    bad = "client lists %r, server lists %r: `%s` gives %r" % (A, B, norm(n.value), got)
                    break
            ctx.check(R, bad is None, fi.qname, n,
                      "the point format taken from the two ec_point_formats extensions must be one both sides "
                      "listed: %s" % bad, fi.loc(n), what="%s: `%s` within both lists" % (fi.short, norm(n.targets[0])))
    if n_sites < 5:
        raise AnalysisError("%s: only %d negotiation sites found (confirmed 5)" % (R, n_sites))


RULES = [
    ("C19.POINT-FORMAT", "quick", rule_point_format),
    ("C19.CURVE-TABLES", "quick", rule_curve_tables),
    ("C19.COMPRESS-DIR", "quick", rule_compress_direction),
    # PSK + HelloRetryRequest is a permitted combination: the binder transcript must include the HRR
    ("C19.BINDER", "quick", borrowed("c04", "rule_binder", "C04.BINDER", "C19.BINDER")),
    # a cipher name enables its suites in every version that defines them (_filterSuites rows)
    ("C19.POLICY", "quick", borrowed("c20", "rule_policy", "C20.POLICY", "C19.POLICY")),
    ("C19.GROUP-TABLES", "quick", rule_group_tables),
    ("C19.RANGES", "quick", rule_ranges),
    ("C19.SELECT", "quick", rule_select),
    ("C19.OFFER", "quick", rule_offer),
    ("C19.ALIAS", "quick", rule_alias),
    ("C19.FIELDS", "quick", rule_fields),
    ("C19.DOMAIN", "quick", rule_domain),
    ("C19.SUPPORTED", "quick", rule_supported),
    ("C19.RSL", "quick", borrowed("c01", "rule_rsl", "C01.RSL", "C19.RSL")),
]
