"""C15 - codecs enforce their framing exactly (framing half)."""
import ast

from ..index import AnalysisError, attr_chain, norm, own_nodes
from ..query import calls_in, call_name
from ..condeval import check_cond, ev, Unknown
from .common import TLSREC, dead_edge_labels, must_pass, borrowed

EXPLANATION = (
    "Framing rules over every parser of messages.py, extensions.py and x509.py. PAIR: each "
    "startLengthCheck/setLengthCheck is followed on every normal path by stopLengthCheck before the "
    "return and before the next start (typestate on the CFG). EXHAUST: every extension class "
    "reachable from the four parse registries proves exhaustion of its payload on every normal "
    "return (trailing-data gate, exhaustion loop, consuming the remainder, or delegation to a base "
    "parser that does). LOOPGUARD: every parsing loop runs exactly until its declared length is "
    "consumed - `while p.getRemainingLength() [> 0]`, `while not p.atLengthCheck()`, or "
    "`while index != declared` - decided by finite-domain evaluation of the guard (a `<`/`>= k` "
    "guard silently accepts inner lengths that disagree with outer ones). PROGRESS: every such loop "
    "consumes input on every iteration path. REGISTRY: each registry entry's class constructs itself "
    "with the extension type it is registered under, and each _getMsg dispatch arm builds the class "
    "of the handshake type it tests. WRITER: every Writer.add* variant turns overflow into "
    "ValueError; RecordHeader2.write refuses lengths that do not fit the header form actually "
    "written (guard evaluated over boundary values).")
NOT_DECIDED = ("parse(write(x)) == x on values (round trip); overflow of un-prefixed fixed-size fields; "
               "the write/parse layout comparison of the design (C15.LAYOUT) is not built")
TECHNIQUE = ("typestate and must-pass-through on parser CFGs, registry/table agreement, finite-domain evaluation of "
             "loop and overflow guards; write/parse field traces of flat structures")

PARSE_MODULES = ("messages", "extensions", "x509")
CONSUMERS = {"get", "getFixBytes", "getVarBytes", "getFixList", "getVarList", "getVarTupleList", "skip_bytes",
             "parse", "_parse", "startLengthCheck"}


def _parse_functions(ctx):
    out = []
    for fi in ctx.index.all_functions():
        if fi.module.name in PARSE_MODULES and (fi.name == "parse" or fi.name.startswith("_parse")
                                                or fi.name.startswith("parse")):
            out.append(fi)
    return out


def rule_pair(ctx):
    R = "C15.PAIR"
    n = 0
    for fi in ctx.index.all_functions():
        if fi.module.name not in PARSE_MODULES:
            continue
        g = None
        starts = [x for x in own_nodes(fi.node) if isinstance(x, ast.Call) and
                  call_name(x) in ("startLengthCheck", "setLengthCheck")]
        if not starts:
            continue
        g = ctx.an.cfg(fi)
        st_nodes = [nd for nd in g.nodes if nd.kind == "stmt" and any(
            call_name(c) in ("startLengthCheck", "setLengthCheck") for c in calls_in(nd.ast))]
        sp_nodes = [nd for nd in g.nodes if nd.kind == "stmt" and any(
            call_name(c) == "stopLengthCheck" for c in calls_in(nd.ast))]
        for s in st_nodes:
            n += 1
            recv = None
            for c in calls_in(s.ast):
                if call_name(c) in ("startLengthCheck", "setLengthCheck"):
                    recv = norm(c.func.value)
            mine = [x for x in sp_nodes if any(norm(c.func.value) == recv for c in calls_in(x.ast)
                                               if call_name(c) == "stopLengthCheck")]
            seen = g.reach(g.normal_succ(s), blocked=mine, follow_exc=False)
            bad = [x for x in g.nodes if x.id in seen and (x is g.exit or x in st_nodes)]
            ctx.check(R, not bad, fi.qname, "%s closed by stopLengthCheck on every path (#%d)" % (norm(s.ast)[:40], s.line),
                      "a length check opened with %s is not closed by %s.stopLengthCheck() before the parser "
                      "returns (or before the next one is opened): the declared length is never enforced"
                      % (norm(s.ast)[:50], recv), fi.loc(s.ast))
    ctx.require(n >= 28, "C15.PAIR: %d length checks found, floor 28" % n)


def _is_rem(e, p):
    return isinstance(e, ast.Call) and isinstance(e.func, ast.Attribute) and e.func.attr == "getRemainingLength" \
        and norm(e.func.value) == p


def _exhausted_edge(test, p):
    """label of the edge on which `p` is known to be exhausted."""
    if _is_rem(test, p):
        return "F"
    if isinstance(test, ast.UnaryOp) and isinstance(test.op, ast.Not) and _is_rem(test.operand, p):
        return "T"
    if isinstance(test, ast.Compare) and _is_rem(test.left, p) and len(test.ops) == 1 and \
            isinstance(test.comparators[0], ast.Constant) and test.comparators[0].value == 0:
        if isinstance(test.ops[0], (ast.NotEq, ast.Gt)):
            return "F"
        if isinstance(test.ops[0], ast.Eq):
            return "T"
    return None


def _registries(ctx):
    mod = ctx.index.module("extensions")
    regs = {}
    for s in mod.tree.body:
        if isinstance(s, ast.Assign) and isinstance(s.value, ast.Dict) and isinstance(s.targets[0], ast.Attribute) \
                and attr_chain(s.targets[0]) and attr_chain(s.targets[0]).startswith("TLSExtension._"):
            name = s.targets[0].attr
            ents = []
            for k, v in zip(s.value.keys, s.value.values):
                ents.append((attr_chain(k), v.id if isinstance(v, ast.Name) else norm(v), k.lineno))
            regs[name] = ents
    return regs


def rule_exhaust(ctx):
    R = "C15.EXHAUST"
    regs = _registries(ctx)
    ctx.require(len(regs) >= 4, "C15.EXHAUST: extension registries not found")
    mod = ctx.index.module("extensions")
    memo = {}

    def parse_of(cls):
        for c in cls.mro():
            if "parse" in c.methods:
                return c, c.methods["parse"]
        return None, None

    def exhausts(cls):
        if cls.qname in memo:
            return memo[cls.qname]
        memo[cls.qname] = (True, None, None)
        owner, f = parse_of(cls)
        if f is None:
            memo[cls.qname] = (False, None, None)
            return memo[cls.qname]
        p = f.node.args.args[1].arg
        g = ctx.an.cfg(f)
        cut, blocked = set(), []
        for n in g.nodes:
            if n.kind == "test" and n.expr is not None:
                l = _exhausted_edge(n.expr, p)
                if l:
                    cut.add((n.id, "T" if l == "F" else "F") if False else (n.id, l))
            if n.kind in ("stmt", "return") and n.ast is not None:
                for x in ast.walk(n.ast):
                    if isinstance(x, ast.Call) and isinstance(x.func, ast.Attribute):
                        if x.func.attr == "getFixBytes" and x.args and _is_rem(x.args[0], p):
                            blocked.append(n)
                        if x.func.attr == "parse" and isinstance(x.func.value, ast.Call) and \
                                isinstance(x.func.value.func, ast.Name) and x.func.value.func.id == "super":
                            base = owner.bases[0] if owner.bases else None
                            if base is not None and exhausts(base)[0]:
                                blocked.append(n)
        # the edges on which exhaustion is established END the obligation: cut them
        seen = g.reach([g.entry], blocked=blocked, cut=cut, follow_exc=False)
        ok = g.exit.id not in seen
        path = None if ok else [n.line for n in g.path(seen, g.exit.id) if n.line]
        memo[cls.qname] = (ok, f, path)
        return memo[cls.qname]
    classes = set()
    for name, ents in regs.items():
        for k, v, ln in ents:
            classes.add(v)
    for cname in sorted(classes):
        if cname not in mod.classes:
            raise AnalysisError("C15.EXHAUST: registered class %s not found" % cname)
        ok, f, path = exhausts(mod.classes[cname])
        ctx.check(R, ok, (f.qname if f else cname), "%s proves exhaustion of its payload" % cname,
                  "extension parser %s can return normally with unparsed bytes left inside the extension: "
                  "trailing data is accepted instead of being a decode error" % cname,
                  f.loc() if f else "", path=path)
    ctx.require(len(classes) >= 28, "C15.EXHAUST: %d registered classes, floor 28" % len(classes))
    ctx.info["registered_extension_classes"] = len(classes)


def rule_loops(ctx):
    R = "C15.LOOPGUARD"
    RP = "C15.PROGRESS"
    n = 0
    for fi in _parse_functions(ctx):
        loops = [x for x in own_nodes(fi.node) if isinstance(x, ast.While)]
        if not loops:
            continue
        g = ctx.an.cfg(fi)
        for w in loops:
            n += 1
            t = w.test
            src = norm(t)
            rem = [c for c in ast.walk(t) if isinstance(c, ast.Call) and call_name(c) == "getRemainingLength"]
            atl = [c for c in ast.walk(t) if isinstance(c, ast.Call) and call_name(c) == "atLengthCheck"]
            if rem:
                key = norm(rem[0])
                check_cond(ctx, R, fi, w, t, {key: [0, 1, 2, 3, 4, 5, 100]}, lambda e, k=key: e[k] > 0,
                           "loop `%s` runs while any byte of the structure remains" % src,
                           "a parsing loop must continue while ANY byte of its length-delimited structure "
                           "remains (stopping early accepts stray/truncated trailing bytes)", closed=True)
            elif atl:
                ok = src == "not %s" % norm(atl[0])
                ctx.check(R, ok, fi.qname, "loop `%s` runs until the declared length is reached" % src,
                          "a parsing loop bounded by a length check must be `while not p.atLengthCheck()`",
                          fi.loc(w))
            else:
                names = sorted({x.id for x in ast.walk(t) if isinstance(x, ast.Name)})
                if len(names) == 2:
                    a, b = names
                    dom = {a: [0, 1, 2, 3], b: [0, 1, 2, 3]}
                    check_cond(ctx, R, fi, w, t, dom, lambda e, a=a, b=b: e[a] != e[b],
                               "loop `%s` runs until the running index EQUALS the declared length" % src,
                               "a loop that walks a length-delimited list by a running index must stop only "
                               "when the index equals the declared length; `<` stops silently when an inner "
                               "length overruns the outer one", closed=True)
                else:
                    ctx.fail(R, fi.qname, w.test, "parsing loop with an unrecognised guard `%s`" % src, fi.loc(w))
            # progress: every iteration consumes input
            head = [x for x in g.nodes if x.kind == "test" and x.ast is w]
            if head:
                cons = []
                for x in g.nodes:
                    if x.expr is None:
                        continue
                    for c in calls_in(x.expr):
                        nm = call_name(c)
                        if nm in CONSUMERS or (nm or "").startswith("_parse") or (nm or "").startswith("parse"):
                            cons.append(x)
                seen = g.reach(g.succ_on(head[0], "T"), blocked=cons, follow_exc=False)
                ctx.check(RP, head[0].id not in seen, fi.qname, "loop `%s` consumes input on every iteration" % src,
                          "a parsing loop has an iteration path that consumes no input: a crafted message "
                          "makes the parser spin forever", fi.loc(w))
    ctx.require(n >= 16, "C15.LOOPGUARD: %d parsing loops found, floor 16" % n)


def rule_registry(ctx):
    R = "C15.REGISTRY"
    regs = _registries(ctx)
    mod = ctx.index.module("extensions")
    flag_of = {"_serverExtensions": None, "_hrrExtensions": "hrr", "_certificateExtensions": None,
               "_universalExtensions": None}
    n = 0
    for name, ents in sorted(regs.items()):
        for k, v, ln in ents:
            n += 1
            cls = mod.classes.get(v)
            if cls is None:
                ctx.fail(R, "extensions:" + name, "%s: %s" % (k, v), "registered class %s does not exist" % v)
                continue
            init = cls.find_method("__init__")
            types = []
            for c in cls.mro():
                if "__init__" in c.methods:
                    types = [attr_chain(x) for x in ast.walk(c.methods["__init__"].node)
                             if isinstance(x, ast.Attribute) and (attr_chain(x) or "").startswith("ExtensionType.")]
                    if types:
                        break
            ctx.check(R, bool(types) and types[0] == k, "extensions:TLSExtension." + name, "%s -> %s" % (k, v),
                      "registry %s maps %s to %s, but %s constructs itself as %s: the extension would be "
                      "parsed by the wrong codec / written under the wrong type" % (name, k, v, v, types[:1]),
                      "%s:%d" % (mod.rel, ln))
    ctx.require(n >= 30, "C15.REGISTRY: %d registry entries, floor 30" % n)
    # handshake dispatch of _getMsg
    fi = ctx.index.func(TLSREC + "_getMsg")
    msgs = ctx.index.module("messages")
    m = 0
    for x in own_nodes(fi.node):
        if isinstance(x, ast.If) and isinstance(x.test, ast.Compare) and norm(x.test.left) == "subType" and \
                isinstance(x.test.ops[0], ast.Eq):
            ht = attr_chain(x.test.comparators[0])
            if not ht or not ht.startswith("HandshakeType."):
                continue
            built = []
            for s in x.body:
                for c in calls_in(s):
                    if isinstance(c.func, ast.Name) and c.func.id in msgs.classes:
                        built.append(c.func.id)
            for b in built:
                m += 1
                cls = msgs.classes[b]
                types = []
                for c in cls.mro():
                    if "__init__" in c.methods:
                        types = [attr_chain(y) for y in ast.walk(c.methods["__init__"].node)
                                 if isinstance(y, ast.Attribute) and (attr_chain(y) or "").startswith("HandshakeType.")]
                        if types:
                            break
                ok = ht in types or (b == "CompressedCertificate" and ht == "HandshakeType.compressed_certificate")
                ctx.check(R, ok, fi.qname, "%s parsed as %s" % (ht, b),
                          "_getMsg parses handshake type %s with class %s, which is a %s message" % (ht, b, types[:1]),
                          fi.loc(x))
    ctx.require(m >= 14, "C15.REGISTRY: %d dispatch arms checked, floor 14" % m)


def rule_writer(ctx):
    R = "C15.WRITER"
    w = ctx.index.cls("utils.codec:Writer")
    variants = getattr(w, "cond_methods", {})
    checked = 0
    for nm in ("addTwo", "addThree", "addFour", "add"):
        for f in variants.get(nm, []):
            checked += 1
            body = [s for s in f.node.body if not (isinstance(s, ast.Expr) and isinstance(s.value, ast.Constant))]
            ok = False
            if len(body) >= 1 and isinstance(body[0], ast.If):
                t = body[0]
                ok = norm(t.test).startswith("not 0 <= val <=") and any(isinstance(s, ast.Raise) and "ValueError" in norm(s) for s in t.body)
            elif len(body) == 1 and isinstance(body[0], ast.Try):
                tr = body[0]
                hs = {norm(h.type): [norm(b) for b in h.body] for h in tr.handlers if h.type is not None}
                if "struct.error" in hs:
                    ok = any(b.startswith("raise ValueError") for b in hs["struct.error"])
                elif "OverflowError" in hs:
                    ok = any(b.startswith("raise ValueError") for b in hs["OverflowError"])
                elif "KeyError" in hs:
                    ok = True       # python 2 generic path: falls back to a manual loop (not the py3 path)
            ctx.check(R, ok, f.qname, "%s (#%d) reports overflow as ValueError" % (nm, f.node.lineno),
                      "Writer.%s does not turn a value that does not fit into a ValueError: the field would be "
                      "silently truncated or wrapped" % nm, f.loc())
    ctx.require(checked >= 7, "C15.WRITER: %d Writer.add* variants found, floor 7" % checked)
    one = w.methods.get("addOne")
    ok = one is not None and any(norm(s) == "self.bytes.append(val)" for s in one.node.body)
    ctx.check(R, ok, w.qname + ".addOne", "addOne appends through bytearray.append (range-checked)",
              "addOne must rely on bytearray.append (ValueError outside 0..255)", one.loc() if one else "")
    # sequences: the length prefix is written with add(len*..) and elements with add()
    for nm in ("addFixSeq", "addVarSeq", "addVarTupleSeq", "add_var_bytes"):
        for f in ([w.methods[nm]] if nm in w.methods else []) + variants.get(nm, []):
            src = norm(f.node)
            ok = "self.add(" in src or "pack(" in src or "to_bytes" in src
            ctx.check(R, ok, f.qname, "%s writes through the overflow-checked primitives" % nm,
                      "%s bypasses the overflow-checked add()" % nm, f.loc())
    # SSLv2 header bit packing
    f = ctx.index.func("messages:RecordHeader2.write")
    g = ctx.an.cfg(f)
    from .common import spec_rows
    spec_rows(ctx, R, "messages:RecordHeader2.write", [
        dict(what="SSLv2 header: length must fit 15 bits (2-byte form) / 14 bits (3-byte form)",
             dom={"self.padding": [0, 1, 7], "self.securityEscape": [False, True],
                  "self.length": [0, 0x3fff, 0x4000, 0x7fff, 0x8000, 0x10000]},
             abort=lambda e: e["self.length"] >= (0x4000 if (e["self.padding"] or e["self.securityEscape"]) else 0x8000),
             msg="RecordHeader2.write must refuse a length that does not fit the header form it writes (15 bits "
                 "without padding/escape, 14 bits otherwise) - the length would silently wrap")])
    if True:
        # the same form decision drives the bits written
        src = [norm(s) for s in f.node.body]
        ok = any(s.startswith("if shortHeader:") or s == "if shortHeader:\n    firstByte |= 128" for s in src) or \
            any(isinstance(s, ast.If) and norm(s.test) == "shortHeader" for s in f.node.body)
        ok3 = any(isinstance(s, ast.If) and norm(s.test) == "not shortHeader" and
                  any("writer.add(self.padding, 1)" in norm(b) for b in s.body) for s in f.node.body)
        ctx.check(R, ok and ok3, f.qname, "header form bit and padding byte follow the same decision",
                  "the 2-/3-byte form flag and the padding byte must follow the form used by the overflow gate", f.loc())


def rule_fieldlen(ctx):
    """FIELDLEN: a number field parsed as `self.L = p.get(k); self.F = bytesToNumber(p.getFixBytes(self.L))`
    is written back with its OWN parsed length: numberToByteArray(self.F, self.L)."""
    R = "C15.FIELDLEN"
    pairs_total = 0
    for mod in ("messages", "extensions"):
        for cname, ci in ctx.index.module(mod).classes.items():
            pairs = {}
            for m in ci.methods.values():
                for x in own_nodes(m.node):
                    if isinstance(x, ast.Assign) and len(x.targets) == 1 and isinstance(x.value, ast.Call) \
                            and call_name(x.value) == "bytesToNumber" and x.value.args \
                            and isinstance(x.value.args[0], ast.Call) and call_name(x.value.args[0]) == "getFixBytes":
                        f = attr_chain(x.targets[0])
                        ln = attr_chain(x.value.args[0].args[0]) if x.value.args[0].args else None
                        if f and ln and f.startswith("self.") and ln.startswith("self."):
                            pairs[f] = ln
            if not pairs:
                continue
            pairs_total += len(pairs)
            for m in ci.methods.values():
                for c in calls_in(m.node):
                    if call_name(c) == "numberToByteArray" and len(c.args) >= 2 and attr_chain(c.args[0]) in pairs:
                        f = attr_chain(c.args[0])
                        ctx.check(R, attr_chain(c.args[1]) == pairs[f], m.qname,
                                  "%s written with its own parsed length %s" % (f, pairs[f]),
                                  "`%s`: the field %s was parsed with length %s, writing it with another length "
                                  "changes the bytes (and the transcript hash computed over write())" % (
                                      norm(c), f, pairs[f]), m.loc(c), what="%s %s" % (m.short, f))
    ctx.require(pairs_total >= 6, "C15.FIELDLEN: %d (field, length) pairs found in parsers, floor 6" % pairs_total)


def rule_fresh(ctx):
    """FRESH: every element parsed inside a loop is parsed into an object constructed in that iteration."""
    R = "C15.FRESH"
    n = 0
    for fi in ctx.index.all_functions():
        if fi.module.name not in ("messages", "extensions"):
            continue
        for lp in own_nodes(fi.node):
            if not isinstance(lp, (ast.While, ast.For)):
                continue
            inner = [x for s_ in lp.body for x in ast.walk(s_)]
            for c in inner:
                if not (isinstance(c, ast.Call) and isinstance(c.func, ast.Attribute) and c.func.attr == "parse"):
                    continue
                n += 1
                recv = c.func.value
                ok = isinstance(recv, ast.Call)
                if isinstance(recv, ast.Name):
                    defs_in = [x for x in inner if isinstance(x, ast.Assign) and any(
                        isinstance(t, ast.Name) and t.id == recv.id for t in x.targets)]
                    ok = bool(defs_in) and all(isinstance(x.value, ast.Call) and isinstance(x.value.func, ast.Name)
                                               and x.value.func.id[:1].isupper() for x in defs_in) \
                        and min(x.lineno for x in defs_in) < c.lineno
                ctx.check(R, ok, fi.qname, "`%s` parses into an object created in the same iteration" % norm(c)[:60],
                          "`%s` runs once per list element but its receiver is created outside the loop: elements "
                          "parsed into the same object alias each other (the last one overwrites the earlier ones)"
                          % norm(c)[:80], fi.loc(c), what="%s %s" % (fi.short, norm(c)[:50]))
    ctx.require(n >= 10, "C15.FRESH: %d element parses inside loops found, floor 10" % n)


RULES = [
    ("C15.FIELDLEN", "quick", rule_fieldlen),
    ("C15.FRESH", "quick", rule_fresh),
    ("C15.PAIR", "quick", rule_pair),
    ("C15.EXHAUST", "quick", rule_exhaust),
    ("C15.LOOPS", "quick", rule_loops),
    ("C15.REGISTRY", "quick", rule_registry),
    ("C15.WRITER", "quick", rule_writer),
    # declared lengths bound what is accepted (incl. the declared size of a compressed certificate)
    ("C15.CAP", "quick", borrowed("c08", "rule_cap", "C08.CAP", "C15.CAP")),
]


# ----------------------------------------------------------------- LAYOUT (flat structures)
_FIX = {"addOne": 1, "addTwo": 2, "addThree": 3, "addFour": 4}


def _subst(e, mapping):
    class S(ast.NodeTransformer):
        def visit_Name(self, node):
            if node.id in mapping and isinstance(node.ctx, ast.Load):
                return mapping[node.id]
            return node
    import copy
    return S().visit(copy.deepcopy(e))


def _const(e):
    try:
        return ev(e, {})
    except (Unknown, TypeError):
        return None


def _wtrace(ctx, fi, mapping, depth=0):
    """wire layout a straight-line serialiser produces: [(kind, size, value expression text)] of the
    Writer whose `.bytes` it returns; None when the function is not of that shape."""
    writers = {}
    body = [s for s in fi.node.body if not (isinstance(s, ast.Expr) and isinstance(s.value, ast.Constant))]
    for st in body:
        if isinstance(st, ast.Assign) and len(st.targets) == 1 and isinstance(st.targets[0], ast.Name) \
                and isinstance(st.value, ast.Call) and call_name(st.value) == "Writer" and not st.value.args:
            writers[st.targets[0].id] = []
            continue
        if isinstance(st, ast.Expr) and isinstance(st.value, ast.Call) and isinstance(st.value.func, ast.Attribute) \
                and isinstance(st.value.func.value, ast.Name) and st.value.func.value.id in writers:
            c = st.value
            w, op = writers[c.func.value.id], c.func.attr
            if c.keywords or not c.args:
                return None
            val = norm(_subst(c.args[0], mapping))
            if op in _FIX and len(c.args) == 1:
                w.append(("fix", _FIX[op], val))
            elif op == "add" and len(c.args) == 2 and _const(c.args[1]) is not None:
                w.append(("fix", _const(c.args[1]), val))
            elif op == "add_var_bytes" and len(c.args) == 2 and _const(c.args[1]) is not None:
                w.append(("varbytes", _const(c.args[1]), val))
            elif op == "addVarSeq" and len(c.args) == 3 and _const(c.args[1]) is not None and _const(c.args[2]) is not None:
                w.append(("varbytes", _const(c.args[2]), val) if _const(c.args[1]) == 1
                         else ("varlist", (_const(c.args[1]), _const(c.args[2])), val))
            elif op == "addFixSeq" and len(c.args) == 2 and _const(c.args[1]) is not None:
                w.append(("fixlist", _const(c.args[1]), val))
            else:
                return None
            continue
        if isinstance(st, ast.AugAssign) and isinstance(st.op, ast.Add) and isinstance(st.target, ast.Attribute) \
                and st.target.attr == "bytes" and isinstance(st.target.value, ast.Name) and st.target.value.id in writers:
            w = writers[st.target.value.id]
            v = st.value
            if isinstance(v, ast.Call) and depth < 2 and not v.keywords:
                from ..condeval import _helper
                h = _helper(ctx.index, v.func)
                if h is not None:
                    names = [a.arg for a in h.node.args.args]
                    if len(names) == len(v.args):
                        sub = _wtrace(ctx, h, {nm: _subst(a, mapping) for nm, a in zip(names, v.args)}, depth + 1)
                        if sub is not None:
                            w += sub
                            continue
                return None
            w.append(("raw", None, norm(_subst(v, mapping))))
            continue
        if isinstance(st, ast.Return):
            v = st.value
            if isinstance(v, ast.Attribute) and v.attr == "bytes" and isinstance(v.value, ast.Name) and v.value.id in writers:
                return writers[v.value.id]
            return None
        return None
    return None


def _ptrace(ctx, fi):
    """wire layout a straight-line parser reads and where each field ends up: [(kind, size, destination)]"""
    args = [a.arg for a in fi.node.args.args]
    if len(args) < 2:
        return None
    P = args[1]
    trace = []
    local_at = {}      # local name -> indices in trace (a tuple-valued local: several)

    def reads(e):
        """(kind, size) list for an expression made of parser reads, else None"""
        if isinstance(e, ast.Call) and isinstance(e.func, ast.Attribute) and isinstance(e.func.value, ast.Name) \
                and e.func.value.id == P and not e.keywords:
            op = e.func.attr
            a = [_const(x) for x in e.args]
            if op == "get" and len(a) == 1 and a[0] is not None:
                return [("fix", a[0])]
            if op == "getVarBytes" and len(a) == 1 and a[0] is not None:
                return [("varbytes", a[0])]
            if op == "getFixBytes" and len(a) == 1 and a[0] is not None:
                return [("raw", None)]
            if op == "getVarList" and len(a) == 2 and None not in a:
                return [("varlist", (a[0], a[1]))]
            if op == "getFixList" and len(a) == 2 and None not in a:
                return [("fixlist", a[1])]
            return None
        if isinstance(e, ast.Tuple):
            out = []
            for x in e.elts:
                r = reads(x)
                if r is None or len(r) != 1:
                    return None
                out += r
            return out
        # tuple(p.getFixList(k, n)) / list(..): n fields of k bytes, as a sequence
        if isinstance(e, ast.Call) and isinstance(e.func, ast.Name) and e.func.id in ("tuple", "list") \
                and len(e.args) == 1 and not e.keywords:
            inner = e.args[0]
            if isinstance(inner, ast.Call) and isinstance(inner.func, ast.Attribute) and isinstance(inner.func.value, ast.Name) \
                    and inner.func.value.id == P and inner.func.attr == "getFixList" and len(inner.args) == 2:
                k_, n_ = _const(inner.args[0]), _const(inner.args[1])
                if isinstance(k_, int) and isinstance(n_, int) and 0 < n_ <= 8:
                    return [("fix", k_)] * n_
        return None

    def touches(node):
        return any(isinstance(x, ast.Name) and x.id == P for x in ast.walk(node))
    body = [s for s in fi.node.body if not (isinstance(s, ast.Expr) and isinstance(s.value, ast.Constant))]
    for st in body:
        if isinstance(st, ast.Return):
            break
        if not touches(st):
            # a constructor that files locals under attribute names: self.A = Cls(kw=local, ...)
            if isinstance(st, ast.Assign) and len(st.targets) == 1 and isinstance(st.value, ast.Call) \
                    and st.value.keywords and not st.value.args and attr_chain(st.targets[0]):
                base = attr_chain(st.targets[0])
                for kw in st.value.keywords:
                    if isinstance(kw.value, ast.Name) and kw.value.id in local_at:
                        idx = local_at.pop(kw.value.id)
                        for j, i_ in enumerate(idx):
                            k_, s_, _ = trace[i_]
                            trace[i_] = (k_, s_, "%s.%s%s" % (base, kw.arg, "[%d]" % j if len(idx) > 1 else ""))
            continue
        if isinstance(st, (ast.If, ast.For, ast.While, ast.Try, ast.With)):
            return None
        if isinstance(st, ast.Assign) and len(st.targets) == 1:
            r = reads(st.value)
            if r is None:
                return None
            tg = st.targets[0]
            name = attr_chain(tg)
            if name is None:
                return None
            idx = []
            for j, (k_, s_) in enumerate(r):
                idx.append(len(trace))
                trace.append((k_, s_, "%s%s" % (name, "[%d]" % j if len(r) > 1 else "")))
            if isinstance(tg, ast.Name):
                local_at[tg.id] = idx
            continue
        if isinstance(st, ast.Expr) and isinstance(st.value, ast.Call) and call_name(st.value) in (
                "startLengthCheck", "stopLengthCheck", "setLengthCheck"):
            return None
        return None
    if any(not d.startswith("self.") for _, _, d in trace) or not trace:
        return None
    return trace


def rule_layout(ctx):
    """LAYOUT (flat structures): for every class whose parse() and write() are straight-line, the
    sequence of wire fields written - (width, attribute) - equals the sequence read and where it was
    stored.  Serialisers assembled from static helpers are followed with the arguments substituted.
    Structures with version- or content-dependent layout are not decided here."""
    R = "C15.LAYOUT"
    n = 0
    names = []
    for mod in PARSE_MODULES:
        m = ctx.index.module(mod)
        for cname, cls in sorted(m.classes.items()):
            pf, wf = cls.methods.get("parse"), cls.methods.get("write")
            if pf is None or wf is None:
                continue
            pt = _ptrace(ctx, pf)
            wt = _wtrace(ctx, wf, {})
            if pt is None or wt is None:
                continue
            # `addTwo(len(x)); bytes += x` is the hand-written form of add_var_bytes(x, 2)
            canon = []
            for el in wt:
                if canon and el[0] == "raw" and canon[-1][0] == "fix" and canon[-1][2] == "len(%s)" % el[2]:
                    canon[-1] = ("varbytes", canon[-1][1], el[2])
                else:
                    canon.append(el)
            wt = canon
            n += 1
            names.append(cname)
            same = len(pt) == len(wt) and all(
                (a[0] == b[0] or {a[0], b[0]} <= {"raw", "fixlist"}) and (a[1] == b[1] or None in (a[1], b[1]))
                and a[2] == b[2] for a, b in zip(wt, pt))
            diff = ""
            if not same:
                for i_, (a, b) in enumerate(zip(wt, pt)):
                    if a != b:
                        diff = "field %d is written from `%s` as %s/%s but parsed into `%s` as %s/%s" % (
                            i_ + 1, a[2], a[0], a[1], b[2], b[0], b[1])
                        break
                else:
                    diff = "%d fields written, %d parsed" % (len(wt), len(pt))
            ctx.check(R, same, wf.qname, "write() mirrors parse()",
                      "%s.write does not serialise what %s.parse reads: %s (parse(write(x)) differs from x)" % (
                          cname, cname, diff), wf.loc(), what="%s: write() mirrors parse() (%d fields)" % (cname, len(pt)))
    ctx.info["layout_classes"] = names
    if n < 1 or "DelegatedCredential" not in names:
        raise AnalysisError("%s: flat parse/write pairs recognised: %s (DelegatedCredential must be among them)" % (R, names))


RULES.append(("C15.LAYOUT", "quick", rule_layout))
# fields the parsers leave open (empty lists, absent payloads) are closed by the ClientHello sanity checks
RULES.append(("C15.HELLO", "quick", borrowed("c08", "rule_hello_checks", "C08.HELLO", "C15.HELLO")))
# parse(write(x)) == x for tickets needs the format version to cover the fields set
RULES.append(("C15.TICKET-FIELDS", "quick", borrowed("c13", "rule_ticket_fields", "C13.TICKET-FIELDS", "C15.TICKET-FIELDS")))
