"""Helpers shared by the gate-family rules."""
import ast

from ..index import AnalysisError, attr_chain, chain_prefixes, norm, own_nodes
from ..query import (calls_in, call_name, is_value_yield, lines, mentions_all, falsy_edges,
                     assigns, assigns_none, const_flag_cuts)
from ..flow import GateSummary, backward_slice_mentions, reaching_defs

TLSCONN = "tlsconnection:TLSConnection."
TLSREC = "tlsrecordlayer:TLSRecordLayer."
RECLAYER = "recordlayer:RecordLayer."


def fin_local_gate(fi, g, n):
    """`if X.verify_data != Y:` (fail on T) / `==` (fail on F)."""
    if n.kind != "test" or not isinstance(n.expr, ast.Compare) or len(n.expr.ops) != 1:
        return None
    sides = [n.expr.left, n.expr.comparators[0]]
    if not any((attr_chain(s) or "").endswith(".verify_data") for s in sides):
        return None
    if isinstance(n.expr.ops[0], ast.NotEq):
        return ("T",)
    if isinstance(n.expr.ops[0], ast.Eq):
        return ("F",)
    return None


def fin_summary(ctx):
    if "fin_summary" not in ctx.__dict__:
        ctx.fin_summary = GateSummary(ctx.an, fin_local_gate, "FIN")
    return ctx.fin_summary


def nodes_with_call(g, name):
    """CFG nodes whose own expression contains a call named `name`."""
    out = []
    for n in g.nodes:
        e = n.expr
        if e is None:
            continue
        if any(call_name(c) == name for c in calls_in(e)):
            out.append(n)
    return out


def consumes_of(g, name):
    return [n for n in g.nodes if n.kind in ("consume", "noreturn") and call_name(n.call) == name]


def getmsg_nodes(g, hs_type=None, content_type=None):
    """consume nodes of _getMsg, optionally filtered by a HandshakeType / ContentType
    member named anywhere in the arguments."""
    out = []
    for n in consumes_of(g, "_getMsg"):
        names = set()
        for a in list(n.call.args) + [k.value for k in n.call.keywords]:
            for x in ast.walk(a):
                c = attr_chain(x) if isinstance(x, ast.Attribute) else None
                if c:
                    names.add(c)
        if hs_type and ("HandshakeType." + hs_type) not in names:
            continue
        if content_type and ("ContentType." + content_type) not in names:
            continue
        out.append(n)
    return out


def dead_edge_labels(g, test, sinks, blocked=(), cut=()):
    """labels among T/F of `test` from which no sink is reachable."""
    out = []
    for lbl in ("T", "F"):
        starts = g.succ_on(test, lbl)
        if not starts:
            continue
        seen = g.reach(starts, blocked=blocked, cut=cut)
        if not any(s.id in seen for s in sinks):
            out.append(lbl)
    return out


def effective_tests(g, tests, sinks, blocked=(), cut=()):
    """tests that have at least one edge from which no sink is reachable."""
    return [t for t in tests if dead_edge_labels(g, t, sinks, blocked, cut)]


def tests_mentioning(g, chains, contains=None, kinds=("test",)):
    out = []
    for n in g.nodes:
        if n.kind in kinds and n.expr is not None and mentions_all(n.expr, chains):
            if contains and contains not in norm(n.expr):
                continue
            out.append(n)
    return out


def must_pass(ctx, rule, fi, g, sources, sinks, gates, what, msg, cut=(), kills=(),
              start_after=True):
    """every path source -> sink passes one of `gates`; records ok / finding with a path."""
    if not sinks:
        raise AnalysisError("%s: no sink found for '%s' in %s" % (rule, what, fi.qname))
    if not sources:
        raise AnalysisError("%s: no source found for '%s' in %s" % (rule, what, fi.qname))
    starts = []
    cutset = set(cut)
    for s in sources:
        if start_after:
            starts += [m for m, l in s.succ if not l.startswith("exc")
                       and (s.id, l) not in cutset and (s.id, m.id, l) not in cutset]
        else:
            starts.append(s)
    seen = g.reach(starts, blocked=list(gates) + list(kills), cut=cut)
    hit = [k for k in sinks if k.id in seen]
    if hit:
        path = g.path(seen, hit[0].id)
        ctx.fail(rule, fi.qname, what, msg, fi.loc(hit[0].ast) if hit[0].ast is not None else fi.loc(),
                 path=lines(path))
        return False
    ctx.ok(rule, "%s: %s" % (fi.short, what), fi.loc(sinks[0].ast) if sinks[0].ast is not None else fi.loc(),
           sample={"gates_at_lines": sorted({x.line for x in gates})[:8]})
    return True


def senderror_desc(n):
    """alert description name of a noreturn (_sendError) node."""
    if n.kind != "noreturn" or not n.call.args:
        return None
    c = attr_chain(n.call.args[0]) or norm(n.call.args[0]).replace(" ", "")
    return c.split(".")[-1]


def rule_consume(ctx, R):
    """CONSUME: every call that resolves to a generator function is consumed by an accepted
    idiom; a forwarded (idiom a) callee never yields values."""
    from ..cfg import consume_idiom
    an = ctx.an
    counts = {"a": 0, "b": 0, "c": 0, "d": 0}
    valued = {}

    def yields_values(f):
        if f.qname not in valued:
            g = an.cfg(f)
            valued[f.qname] = any(is_value_yield(n) for n in g.nodes)
        return valued[f.qname]
    for fi in ctx.index.all_functions():
        if fi.module.name.startswith("integration") and fi.module.name != "integration.asyncstatemachine":
            continue
        parents = {}
        for n in ast.walk(fi.node):
            for c in ast.iter_child_nodes(n):
                parents[c] = n
        for n in own_nodes(fi.node):
            if not isinstance(n, ast.Call) or not isinstance(n.func, ast.Attribute):
                continue
            if not (n.func.attr == "_sendError" or an.is_generator_call(fi, n)):
                continue
            par = parents.get(n)
            what = "%s consumes %s" % (fi.short, norm(n.func))
            if isinstance(par, ast.For) and par.iter is n:
                idi = consume_idiom(par)
                if idi is None and _blocking_take(par):
                    counts["c"] += 1
                    ctx.ok(R, what + " #%d (blocking take)" % par.lineno, fi.loc(par))
                    continue
                if idi is None:
                    ctx.fail(R, fi.qname, norm(par.iter) + " consumption loop",
                             "generator %s is iterated by a loop that is none of the accepted consumption "
                             "idioms (forward all / forward 0,1 and take the value / drain): suspension or "
                             "result may be lost" % norm(n.func), fi.loc(par))
                    continue
                counts[idi[0]] += 1
                if idi[0] == "a":
                    tg = ctx.index.resolve_call(fi, n)
                    bad = [t for t in tg if t.is_generator and yields_values(t)]
                    # a forwarding wrapper may forward values if it is itself consumed with idiom b
                    ctx.check(R, not bad or fi.name in FORWARDERS, fi.qname, what,
                              "%s forwards every yield of %s although that generator also yields a result "
                              "value: the value would be passed on as if it were a would-block indication"
                              % (fi.short, norm(n.func)), fi.loc(par), what=what + " #%d" % par.lineno)
                else:
                    ctx.ok(R, what + " #%d" % par.lineno, fi.loc(par))
            elif isinstance(par, (ast.Assign, ast.Return)):
                counts["d"] += 1
                ok = isinstance(par, ast.Return) or any(
                    (isinstance(t, ast.Name) and t.id in ("handshaker", "gen", "generator")) or
                    (attr_chain(t) in ("self.handshaker", "self.closer", "self.reader", "self.writer"))
                    for t in par.targets)
                ctx.check(R, ok, fi.qname, what, "generator object %s is stored in a variable that is not "
                          "driven by a wrapper" % norm(n.func), fi.loc(par), what=what + " #%d" % par.lineno)
            else:
                ctx.fail(R, fi.qname, norm(n)[:120],
                         "generator %s is called but never iterated: nothing it was meant to do (send an "
                         "alert, abort the handshake, perform I/O) happens" % norm(n.func), fi.loc(n))
    ctx.info[R + ".idioms"] = counts
    ctx.require(sum(counts.values()) >= 280, "%s: only %d generator consumption sites found, floor 280"
                % (R, sum(counts.values())))


# functions that forward a value-yielding generator unchanged on purpose (their own consumers
# take the value): public async wrappers
FORWARDERS = ("_handshakeClientAsync", "handshakeServerAsync", "closeAsync", "_sendMsgs",
              "_queue_flush", "_sendMsg", "_sendError", "send", "sendRecord", "_recvHeader")


def _blocking_take(st):
    """`for r in g(): if r in (0, 1): pass else: return r` (blocking wrapper taking the value)."""
    from ..cfg import _is_01_test
    if not (isinstance(st.target, ast.Name) and len(st.body) == 1 and isinstance(st.body[0], ast.If)):
        return False
    i = st.body[0]
    return _is_01_test(i.test, st.target.id) and len(i.body) == 1 and isinstance(i.body[0], ast.Pass) \
        and len(i.orelse) == 1 and isinstance(i.orelse[0], ast.Return) and \
        isinstance(i.orelse[0].value, ast.Name) and i.orelse[0].value.id == st.target.id


def gate_table(ctx, R, qname, table, sources="entry", sinks="exit", note=""):
    """named effective gates that must lie on every path sources -> sinks of one function.

    table rows: dict(what=..., chains=[...] and/or text=..., frag=..., fail='T'|'F'|None (either),
    presence=<chain whose falsy edges are exempt>, cond=(domain, spec) for finite-domain meaning,
    protects=<predicate on node> to use other sinks, msg=...)."""
    from ..condeval import check_cond
    fi = ctx.index.func(qname)
    g = ctx.an.cfg(fi)

    def pick(spec, default):
        if callable(spec):
            return [n for n in g.nodes if spec(n)]
        if spec == "entry":
            return [g.entry]
        if spec == "exit":
            return [g.exit]
        if spec == "yield":
            return [n for n in g.nodes if is_value_yield(n)]
        if spec == "return":
            return [n for n in g.nodes if n.kind == "return"]
        return default
    base_sinks = pick(sinks, [g.exit])
    srcs = pick(sources, [g.entry])
    for row in table:
        snk = pick(row["protects"], base_sinks) if row.get("protects") else base_sinks
        if not snk:
            raise AnalysisError("%s: nothing to protect for '%s' in %s" % (R, row["what"], qname))
        tests = []
        for t in g.nodes:
            if t.kind != "test" or t.expr is None:
                continue
            s = norm(t.expr)
            if row.get("text") is not None and s != row["text"]:
                continue
            if row.get("chains") and not mentions_all(t.expr, row["chains"]):
                continue
            if row.get("frag") and row["frag"] not in s:
                continue
            tests.append(t)
        cut = set()
        if row.get("presence"):
            for pv in ([row["presence"]] if isinstance(row["presence"], str) else row["presence"]):
                cut |= falsy_edges(g, pv)
        if row.get("cut_tests"):
            for t in g.nodes:
                if t.kind == "test" and norm(t.expr) in row["cut_tests"]:
                    cut.add((t.id, row["cut_tests"][norm(t.expr)]))
        eff = []
        for t in tests:
            dl = dead_edge_labels(g, t, snk, cut=cut)
            want = row.get("fail")
            if (want and want in dl) or (not want and dl):
                eff.append(t)
        ok = must_pass(ctx, R, fi, g, srcs, snk, eff, row["what"],
                       row.get("msg") or ("%s: the check is missing, not effective, or bypassed on some path%s"
                                          % (row["what"], note)),
                       cut=cut, start_after=(srcs != [g.entry]))
        if ok and eff and row.get("cond"):
            dom, spec = row["cond"]
            check_cond(ctx, R, fi, eff[0].ast, eff[0].expr, dom, spec, row["what"] + " (meaning)",
                       row.get("msg") or row["what"], closed=True)


def borrowed(module, fname, src, dst, **kw):
    """run another property's rule under this property's name: the obligation is a necessary
    condition of both properties (src/dst are rule-name prefixes, e.g. 'C10.PEER-VALUES' ->
    'C05.PROOF-VALUES').  The module is imported lazily (rule modules import each other)."""
    def run(ctx):
        import importlib
        fn = getattr(importlib.import_module("tlsverif.rules." + module), fname)
        ctx.rename = (src, dst)
        try:
            fn(ctx, **kw)
        finally:
            ctx.rename = None
    return run


def spec_rows(ctx, R, qname, rows):
    """Finite-domain meaning of the abort checks of one function.  Each row binds some operands of
    the function's tests to boundary values (`dom`: operand text -> values; locals may be bound by
    name) and states when the function must abort (`abort(env)`).  The function's CFG is walked for
    every assignment with all unrelated abort checks assumed to pass (condeval.outcomes): it must end
    in an abort (raise / _sendError) exactly when the row says so.  Nothing is executed; equivalent
    rewrites of the checks give the same verdicts."""
    import itertools
    from ..condeval import outcomes
    fi = ctx.index.func(qname)
    g = ctx.an.cfg(fi)
    cache = {}

    def ao(t):
        if t.id not in cache:
            cache[t.id] = dead_edge_labels(g, t, [g.exit])
        return cache[t.id]
    for row in rows:
        dom = row["dom"]
        keys = sorted(dom)
        bad = None
        n = 0
        memo = {}
        for combo in itertools.product(*[dom[k] for k in keys]):
            env = dict(zip(keys, combo))
            if row.get("when") and not row["when"](env):
                continue
            n += 1
            env["__index__"] = ctx.index
            env["__an__"] = ctx.an
            extra = row.get("env") or {}
            env.update(extra)       # bindings that are not part of the domain (hooks, fixed samples)
            watch = row.get("effects")
            reached = set()
            # an effect is named by its statement text, or by (predicate on the statement, expectation)
            wspec = None
            if watch:
                if any(isinstance(v, tuple) for v in watch.values()):
                    wspec = {k: (v[0] if isinstance(v, tuple) else (lambda st_, k=k: norm(st_) == k))
                             for k, v in watch.items()}
                    watch = {k: (v[1] if isinstance(v, tuple) else v) for k, v in watch.items()}
                else:
                    wspec = set(watch)
            out, both = outcomes(g, fi.node, env, ao, memo, watch=wspec, reached=reached)
            del env["__index__"]
            del env["__an__"]
            for k_ in extra:
                env.pop(k_, None)
            exp = bool(row["abort"](env))
            ends = {x for x, t in out}
            # must abort: no path at all may complete; must continue: no abort on a path decided by the row
            # (a row that must continue and cannot complete on any path, decided or not, aborts too)
            ok = ("pass" not in ends and "raise" in ends) if exp else \
                (("raise", False) not in out and not (ends == {"raise"}))
            if not ok:
                bad = (env, out, exp, both)
                break
            if watch and not exp:
                # statements named by the row run (on the path the row decides) exactly when it says so
                for txt, pred in watch.items():
                    want = bool(pred(env))
                    got = (txt, False) in reached or (txt, True) in reached    # may-reach
                    if want != got:
                        bad_effect = (env, txt, want)
                        break
                else:
                    continue
                shown = ", ".join("%s=%r" % (k, v) for k, v in sorted(env.items()))
                ctx.fail(R, fi.qname, row["what"] + " (effect)", "%s: for %s the statement `%s` %s" % (
                    row.get("msg") or row["what"], shown, bad_effect[1],
                    "must run but does not" if bad_effect[2] else "runs but must not"), fi.loc())
                bad = "effect"
                break
        what = row["what"]
        if bad == "effect":
            continue
        if bad:
            env, out, exp, both = bad
            shown = ", ".join("%s=%r" % (k, v) for k, v in sorted(env.items()))
            ends = {x for x, t in out}
            if exp and ends == {"raise", "pass"} and both:
                why = "for %s it aborts on some paths only (undecided: `%s`)" % (shown, norm(both[0].expr)[:70])
            else:
                why = "for %s it %s but must %s" % (
                    shown, "aborts" if (("raise", False) in out or ends == {"raise"}) else "continues",
                    "abort" if exp else "continue")
            ctx.fail(R, fi.qname, what, "%s: %s" % (row.get("msg") or what, why), fi.loc())
        else:
            ctx.ok(R, "%s: %s" % (fi.short, what), fi.loc(), sample={"operands": keys, "assignments": n})


def role_effects(ctx, fi, env):
    """What one function does for one assignment of the operands its tests read (typically
    {"self.client": True/False}): walks the CFG with condeval.outcomes in symbolic mode and returns
    {"assign": {target chain: symbolic value of the LAST assignment on the decided path},
     "calls": [(callee name, [symbolic args], [target texts])], "returns": [symbolic values],
     "undecided": tests explored both ways}.  Locals are followed through their assignments, so
    `w = clientState; self._pendingWriteState = w` and the direct form give the same answer."""
    from ..condeval import outcomes, ev, Unknown, Sym
    g = ctx.an.cfg(fi)
    cache = {}

    def ao(t):
        if t.id not in cache:
            cache[t.id] = dead_edge_labels(g, t, [g.exit])
        return cache[t.id]
    res = {"assign": {}, "calls": [], "returns": [], "order": []}

    def sym(e, ve):
        try:
            return ev(e, ve)
        except (Unknown, TypeError, AttributeError, KeyError, IndexError):
            if isinstance(e, ast.Tuple):
                return tuple(sym(x, ve) for x in e.elts)
            return Sym(norm(e))

    def visit(n, ve, taint):
        a = n.ast
        if isinstance(a, ast.Return):
            res["returns"].append(sym(a.value, ve) if a.value is not None else None)
            return
        if isinstance(a, (ast.Assign, ast.Expr)) and isinstance(a.value, ast.Call):
            c = a.value
            res["calls"].append((call_name(c), [sym(x, ve) for x in c.args],
                                 [norm(t) for t in a.targets] if isinstance(a, ast.Assign) else []))
        if isinstance(a, ast.Assign):
            for t in a.targets:
                ch = attr_chain(t)
                if ch and "." in ch:
                    res["assign"][ch] = sym(a.value, ve)
                    res["order"].append(ch)
    e = dict(env)
    e["__sym__"] = True
    out, both = outcomes(g, fi.node, e, ao, visit=visit, track_all=True)
    res["undecided"] = both
    return res


def effective_labels(g, t, sinks):
    """labels L of test `t` after which no sink is reachable - directly (the edge leads only to an
    abort) or through a boolean flag: `ok = False` on that edge and a later `if not ok: raise` (the
    infeasible edges of tests of flags that only ever hold constants are cut along the way)."""
    from ..query import flag_cuts_from, assigns
    flags = set()
    for n in g.nodes:
        if n.kind == "stmt" and isinstance(n.ast, ast.Assign) and len(n.ast.targets) == 1 \
                and isinstance(n.ast.targets[0], ast.Name) and isinstance(n.ast.value, ast.Constant) \
                and isinstance(n.ast.value.value, bool):
            flags.add(n.ast.targets[0].id)
    out = []
    for lab in ("T", "F"):
        starts = g.succ_on(t, lab)
        if not starts:
            continue
        cut = set()
        for f in flags:
            # knowledge established on this edge: the first statement(s) set the flag
            setters = []
            for s0 in starts:
                cur = s0
                while cur is not None and cur.kind == "stmt":
                    if assigns(cur, f):
                        setters.append(cur)
                        break
                    nx = g.normal_succ(cur)
                    cur = nx[0] if len(nx) == 1 and nx[0].kind == "stmt" else None
            if setters:
                cut |= flag_cuts_from(g, setters, f)
        seen = g.reach(starts, cut=cut)
        if not any(k.id in seen for k in sinks):
            out.append(lab)
    return out


def reach_flagged(g, starts, blocked=(), cut=(), init=None):
    """forward reachability that follows boolean flags holding constants: the state is (node, known
    flag values); `flag = True/False` updates it, a test `flag` / `not flag` with a known value takes
    only the feasible edge.  Returns {node id} reached."""
    flags = set()
    for n in g.nodes:
        if n.kind == "stmt" and isinstance(n.ast, ast.Assign) and len(n.ast.targets) == 1 \
                and isinstance(n.ast.targets[0], ast.Name) and isinstance(n.ast.value, ast.Constant) \
                and isinstance(n.ast.value.value, bool):
            flags.add(n.ast.targets[0].id)
    blocked = {b.id if hasattr(b, "id") else b for b in blocked}
    cut = set(cut)
    seen = set()
    out = set()
    st = []
    for s_ in starts:
        known = dict(init or {})
        for f in flags:
            if f in known:
                continue
            ds = reaching_defs(g, s_, f)
            vals = {d_.ast.value.value for d_ in ds if d_.ast is not None and isinstance(d_.ast, ast.Assign)
                    and isinstance(d_.ast.value, ast.Constant) and isinstance(d_.ast.value.value, bool)}
            if ds and len(vals) == 1 and all(d_.ast is not None and isinstance(d_.ast, ast.Assign)
                                             and isinstance(d_.ast.value, ast.Constant) for d_ in ds):
                known[f] = vals.pop()
        st.append((s_, tuple(sorted(known.items()))))
    while st:
        n, fv = st.pop()
        if (n.id, fv) in seen or n.id in blocked:
            continue
        seen.add((n.id, fv))
        out.add(n.id)
        d = dict(fv)
        if n.kind == "stmt" and isinstance(n.ast, ast.Assign) and len(n.ast.targets) == 1 \
                and isinstance(n.ast.targets[0], ast.Name) and n.ast.targets[0].id in flags:
            if isinstance(n.ast.value, ast.Constant) and isinstance(n.ast.value.value, bool):
                d[n.ast.targets[0].id] = n.ast.value.value
            else:
                d.pop(n.ast.targets[0].id, None)
        elif n.kind in ("stmt", "consume", "loop") and n.ast is not None:
            # any other binding of a flag name (tuple targets, loop variables) forgets it
            for x in ast.walk(n.ast) if n.kind != "consume" else []:
                if isinstance(x, ast.Name) and isinstance(x.ctx, ast.Store) and x.id in d and not (
                        isinstance(n.ast, ast.Assign) and len(n.ast.targets) == 1 and n.ast.targets[0] is x):
                    d.pop(x.id, None)
        fv2 = tuple(sorted(d.items()))
        only = None
        if n.kind == "test" and n.expr is not None:
            t, neg = n.expr, False
            while isinstance(t, ast.UnaryOp) and isinstance(t.op, ast.Not):
                t, neg = t.operand, not neg
            if isinstance(t, ast.Name) and t.id in d:
                only = "T" if (d[t.id] != neg) else "F"
        for m, l in n.succ:
            if (n.id, l) in cut or (n.id, m.id, l) in cut:
                continue
            if only is not None and l in ("T", "F") and l != only:
                continue
            st.append((m, fv2))
    return out


def resolved_text(fn_node, expr, depth=3):
    """normalised text of `expr` with every local that has exactly one definition in the function
    replaced by that definition (for recognising WHAT an expression reads, not for deciding when)."""
    import copy
    defs = {}
    for n in own_nodes(fn_node):
        if isinstance(n, ast.Assign) and len(n.targets) == 1 and isinstance(n.targets[0], ast.Name):
            defs.setdefault(n.targets[0].id, []).append(n.value)
        elif isinstance(n, (ast.For, ast.AugAssign, ast.With)):
            tgts = [n.target] if hasattr(n, "target") else [i.optional_vars for i in n.items if i.optional_vars is not None]
            for tg in tgts:
                for x in ast.walk(tg):
                    if isinstance(x, ast.Name) and isinstance(x.ctx, (ast.Store, ast.Load)) and not isinstance(tg, ast.Attribute):
                        defs.setdefault(x.id, []).append(None)
    e = copy.deepcopy(expr)
    for _ in range(depth):
        changed = False

        class T(ast.NodeTransformer):
            def visit_Name(self, node):
                nonlocal changed
                d = defs.get(node.id)
                if isinstance(node.ctx, ast.Load) and d and len(d) == 1 and d[0] is not None:
                    changed = True
                    return copy.deepcopy(d[0])
                return node
        e = T().visit(e)
        if not changed:
            break
    return norm(e)


def run_block(stmts, env):
    """outcome of a loop-free statement list whose tests the environment decides:
    ("raise" | "return" | "fall", [normalised simple statements executed, in order])."""
    from ..condeval import ev
    done = []

    def go(body):
        for st in body:
            if isinstance(st, ast.If):
                r = go(st.body if ev(st.test, env) else st.orelse)
                if r != "fall":
                    return r
            elif isinstance(st, ast.Raise):
                done.append(norm(st))
                return "raise"
            elif isinstance(st, ast.Return):
                done.append(norm(st))
                return "return"
            elif isinstance(st, (ast.Continue, ast.Break)):
                done.append(norm(st))
                return norm(st)
            elif isinstance(st, ast.Pass):
                continue
            else:
                done.append(norm(st))
        return "fall"
    return go(stmts), done


def size_primitives(ctx):
    """meaning of the package's integer-size helpers, for rows that evaluate code calling them; the
    aliases they are defined by are checked first (a vanished alias is an analysis error)."""
    mod = ctx.index.module("utils.cryptomath")
    alias = {}
    for st in mod.tree.body:
        if isinstance(st, ast.Assign) and len(st.targets) == 1 and isinstance(st.targets[0], ast.Name) \
                and isinstance(st.value, ast.Name):
            alias[st.targets[0].id] = st.value.id
    if alias.get("numBits") != "bit_length" or alias.get("numBytes") != "byte_length":
        raise AnalysisError("numBits / numBytes are no longer the aliases of bit_length / byte_length")
    return {"numBits": lambda n: int(n).bit_length(), "numBytes": lambda n: (int(n).bit_length() + 7) // 8,
            "bit_length": lambda n: int(n).bit_length(), "byte_length": lambda n: (int(n).bit_length() + 7) // 8}


def module_constants(ctx, modname, seed=None):
    """module-level NAME = <expression condeval can evaluate> bindings (with `seed` operands bound)."""
    from ..condeval import ev, Unknown
    env = dict(seed or {})
    for st in ctx.index.module(modname).tree.body:
        if isinstance(st, ast.Assign) and len(st.targets) == 1 and isinstance(st.targets[0], ast.Name):
            try:
                v = ev(st.value, dict(env))
                hash(v)
                env[st.targets[0].id] = v
            except (Unknown, TypeError, AttributeError, KeyError, IndexError):
                continue
    return env


def recv_length_caps(ctx, R):
    """RecordSocket.recv: the declared record length is capped before the body is read (allocated).
    The header variable is whatever the code binds from _recvHeader(); the union of the effective
    abort gates on its `.length` must refuse exactly lengths above limit+2048, and above limit+256
    for TLS 1.3 framing (evaluated over boundary values, names resolved)."""
    from ..condeval import ev, Unknown
    rs = ctx.index.func("recordlayer:RecordSocket.recv")
    g = ctx.an.cfg(rs)
    hdr = [n for n in g.nodes if n.kind in ("consume", "loop") and n.var and getattr(n, "call", None) is not None
           and call_name(n.call) == "_recvHeader"]
    if not hdr:
        hdr = [n for n in g.nodes if n.kind == "loop" and n.var and isinstance(n.expr, ast.Call) and call_name(n.expr) == "_recvHeader"]
    if not hdr:
        raise AnalysisError("%s: _recvHeader consumption not found in RecordSocket.recv" % R)
    H = hdr[0].var
    L = "%s.length" % H
    body = [n for n in consumes_of(g, "_sockRecvAll")]
    if not body:
        raise AnalysisError("%s: record body read not found" % R)
    ctx.check(R, resolved_text(rs.node, body[0].call.args[0]) == L if body[0].call.args else False, rs.qname,
              "the body read asks for exactly the declared length",
              "RecordSocket.recv reads `%s` bytes, not the length its header declared" % (norm(body[0].call.args[0]) if body[0].call.args else "?"),
              rs.loc(body[0].ast) if body[0].ast is not None else rs.loc())
    gates = []
    for t in g.nodes:
        if t.kind != "test" or t.expr is None:
            continue
        if L not in resolved_text(rs.node, t.expr):
            continue
        if "T" in dead_edge_labels(g, t, body) or "F" in dead_edge_labels(g, t, body):
            gates.append(t)
    bad = None
    for tls13 in (False, True):
        for ln in (100, 16384 + 256, 16384 + 257, 16384 + 2048, 16384 + 2049, 70000):
            aborted = False
            for t in gates:
                import copy
                e = ast.parse(resolved_text(rs.node, t.expr), mode="eval").body
                try:
                    v = bool(ev(e, {L: ln, "self.recv_record_limit": 16384, "self.tls13record": tls13}))
                except (Unknown, TypeError):
                    continue
                dl = dead_edge_labels(g, t, body)
                if ("T" in dl and v) or ("F" in dl and not v):
                    aborted = True
            want = ln > 16384 + 2048 or (tls13 and ln > 16384 + 256)
            if aborted != want:
                bad = (tls13, ln, aborted)
    ctx.check(R, bad is None and len(gates) >= 1, rs.qname, "record length capped before the body is read (allocation bound)",
              "the record body is read (allocated) before the declared length was checked against the limits "
              "(limit + 2048; limit + 256 under TLS 1.3 framing): %s" % (
                  "for tls13record=%s a declared length of %d is %s" % (bad[0], bad[1], "refused" if bad[2] else "accepted")
                  if bad else "no effective check found"), rs.loc())


def bound_args(call, fdef):
    """{parameter name: normalised argument} for a call of `fdef` (positional and keyword arguments),
    without self/cls."""
    names = [a.arg for a in fdef.args.args]
    if names and names[0] in ("self", "cls"):
        names = names[1:]
    out = {}
    for i, a in enumerate(call.args):
        if i < len(names):
            out[names[i]] = norm(a)
    for k in call.keywords:
        if k.arg:
            out[k.arg] = norm(k.value)
    return out


def pmatch(patterns, texts, fn_node=None):
    """Match statement/expression patterns with metavariables against normalised texts.
    `patterns`: list of strings in which `$name` stands for one local variable (the same everywhere);
    `texts`: iterable of normalised source texts.  Returns the binding {name: identifier} under which
    EVERY pattern equals some text, or None.  Locals the code hoisted into single-definition names are
    tried both as written and resolved (when `fn_node` is given, texts may be pre-resolved by the
    caller)."""
    import re as _re
    import itertools
    texts = list(dict.fromkeys(texts))
    metas = sorted({m for p_ in patterns for m in _re.findall(r"\$(\w+)", p_)})

    def rx(p_, bound):
        out, pos = "", 0
        for m in _re.finditer(r"\$(\w+)", p_):
            out += _re.escape(p_[pos:m.start()])
            nm = m.group(1)
            if nm in bound:
                out += _re.escape(bound[nm])
            else:
                out += r"(?P<%s>[A-Za-z_]\w*)" % nm if ("(?P<%s>" % nm) not in out else "(?P=%s)" % nm
            pos = m.end()
        return "^" + out + _re.escape(p_[pos:]) + "$"

    def solve(i, bound):
        if i == len(patterns):
            return bound
        r = _re.compile(rx(patterns[i], bound))
        for t in texts:
            m = r.match(t)
            if m:
                b2 = dict(bound)
                b2.update({k: v for k, v in m.groupdict().items() if v is not None})
                if len(set(b2.values())) != len(b2):
                    continue        # two metavariables never name the same local
                res = solve(i + 1, b2)
                if res is not None:
                    return res
        return None
    return solve(0, {})
