"""C13 - resumption reproduces the original session's security, or falls back cleanly."""
import ast

from ..index import AnalysisError, attr_chain, chain_prefixes, norm, own_nodes
from ..query import (calls_in, call_name, is_value_yield, lines, mentions_all, falsy_edges, assigns,
                     assigns_none)
from ..condeval import check_cond
from .common import borrowed, resolved_text
from .common import (TLSCONN, TLSREC, nodes_with_call, consumes_of, getmsg_nodes, dead_edge_labels,
                     effective_tests, must_pass, senderror_desc)

EXPLANATION = (
    "Path-quantified acceptance-gate rules. SRV-GATES: in the server's ClientHello processing every "
    "path from a binding of `session` (ticket or cache lookup) to the abbreviated-handshake "
    "ServerHello passes eight effective gates (resumable; suite still enabled by settings and "
    "version; suite offered; SRP user; SNI; encrypt-then-MAC; extended master secret both ways), "
    "paths that drop the candidate (`session = None`) being exempt. TICKET: a ticket is returned "
    "only after AEAD open() succeeded, every consumer compares creation time with the configured "
    "lifetime, TLS 1.3 consumers check protocol version and PRF hash, decryption failure returns "
    "None instead of raising. INVALIDATE: only _shutdown clears Session.resumable, the resumed "
    "connection shares the cached Session object (so a later fatal error invalidates it). CLIENT: "
    "suite-equality gate, how the client decides that the server resumed, pruning of expired "
    "tickets before the offer. CARRY: the ticket payload carries and restores suite, EMS, EtM, "
    "server name and client chain of the connection that issued it.")
NOT_DECIDED = ("histories over a real clock, cache eviction behaviour, what the resumed connection "
               "negotiates on the wire, key rotation timing")
TECHNIQUE = ("CFG must-pass-through with effective gates, kill nodes and emptiness-edge cuts; finite-domain guard "
             "evaluation; call-graph typestate on pending connection states; ticket format version by interpreting "
             "create() over the 16 field combinations")


def rule_srv_gates(ctx):
    R = "C13.SRV-GATES"
    fi = ctx.index.func(TLSCONN + "_serverGetClientHello")
    extra = lambda e: ["KeyError"] if any(
        isinstance(x, ast.Subscript) and attr_chain(x.value) == "sessionCache" for x in ast.walk(e)) else []
    g = ctx.an.cfg(fi, extra_raises=extra)
    for n in g.nodes:
        for m, l in n.succ:
            if (n, l) not in m.pred:
                m.pred.append((n, l))
    srcs = [n for n in g.nodes if assigns(n, "session") and
            ("_ticket_to_session(" in norm(n.ast.value) or "sessionCache[" in norm(n.ast.value))]
    kills = [n for n in g.nodes if assigns_none(n, "session")]
    sess_tests = [t for t in g.nodes if t.kind == "test" and norm(t.expr) == "session"]
    sinks = []
    for t in sess_tests:
        seen = g.reach(g.succ_on(t, "T"))
        sinks += [n for n in consumes_of(g, "_sendMsg") if n.id in seen and "serverHello" in norm(n.call)
                  and t.ast.body[0].lineno <= n.line <= t.ast.body[-1].end_lineno]
    if len(srcs) < 2 or not sinks:
        raise AnalysisError("C13.SRV-GATES: session bindings (%d) or resumption ServerHello (%d) not found"
                            % (len(srcs), len(sinks)))
    cut = falsy_edges(g, "session")
    table = [
        ("session still resumable", ["session.resumable"], None, None),
        ("suite still enabled by settings/version", ["session.cipherSuite", "cipherSuites"], None,
         "session.cipherSuite not in cipherSuites"),
        ("suite offered by this ClientHello", ["session.cipherSuite", "clientHello.cipher_suites"], None,
         "session.cipherSuite not in clientHello.cipher_suites"),
        ("SRP user name unchanged", ["session.srpUsername", "clientHello.srp_username"],
         "clientHello.srp_username", None),
        ("server name unchanged", ["session.serverName", "clientHello.server_name"],
         "clientHello.server_name", None),
        ("encrypt-then-MAC still offered", ["session.encryptThenMAC"], None, "encrypt_then_mac"),
        ("extended master secret still offered", ["session.extendedMasterSecret"], None,
         "session.extendedMasterSecret and"),
        ("no upgrade of a non-EMS session", ["session.extendedMasterSecret"], None,
         "not session.extendedMasterSecret and"),
    ]
    for what, chains, outer, frag in table:
        tests = [t for t in g.nodes if t.kind == "test" and mentions_all(t.expr, chains)
                 and (frag is None or frag in norm(t.expr))]
        c2 = set(cut)
        if outer:
            for o in g.nodes:
                if o.kind == "test" and norm(o.expr) == outer:
                    c2.add((o.id, "F"))
            tests = [t for t in tests if norm(t.expr) != outer]
        eff = []
        for t in tests:
            for lbl in ("T", "F"):
                st = g.succ_on(t, lbl)
                if not st:
                    continue
                seen = g.reach(st, blocked=kills + srcs, cut=c2)
                if not any(s.id in seen for s in sinks):
                    eff.append(t)
                    break
        must_pass(ctx, R, fi, g, srcs, sinks, eff, "resumption gate: " + what,
                  "the server resumes a session without the check: " + what, cut=c2, kills=kills)
    # exact meaning of the two suite gates and the SNI / SRP comparisons
    for t in g.nodes:
        if t.kind != "test":
            continue
        s = norm(t.expr)
        if s == "session.cipherSuite not in cipherSuites":
            defs = [n for n in g.nodes if assigns(n, "cipherSuites")]
            okd = any("filterForVersion(cipherSuites" in norm(d.ast.value) for d in defs) and \
                any("CipherSuite.get" in norm(d.ast.value) and "settings" in norm(d.ast.value) for d in defs)
            ctx.check(R, okd, fi.qname, "`cipherSuites` derives from settings and negotiated version",
                      "the list the resumed suite is checked against is not the settings- and "
                      "version-filtered suite list", fi.loc(t.ast))
    # meaning of the SNI / SRP consistency checks (finite-domain walk of the function; the encoded
    # session value is bound alongside the raw one, inconsistent pairs are skipped)
    from .common import spec_rows
    rows = []
    for ch, sv, fld in (("clientHello.server_name", "session.serverName", "server name"),
                        ("clientHello.srp_username", "session.srpUsername", "SRP user name")):
        enc = "bytearray(%s, 'utf-8')" % sv
        other = "clientHello.srp_username" if "server" in ch else "clientHello.server_name"
        rows.append(dict(
            what="resumption refused when the %s differs from the session's" % fld,
            dom={"session": [True], "session.resumable": [True], "session.cipherSuite": [47], "cipherSuites": [(47,)],
                 "clientHello.cipher_suites": [(47,)], "ticket_ext": [None], "clientHello.session_id": [b"id"],
                 "sessionCache": [True], "session.encryptThenMAC": [False], "session.extendedMasterSecret": [False],
                 "clientHello.getExtension(ExtensionType.extended_master_secret)": [None],
                 other: [b""], ch: [b"", b"a", b"b"], sv: [None, "", "a"], enc: [b"", b"a"]},
            when=lambda e, sv=sv, enc=enc: (e[sv] or "").encode() == e[enc],
            abort=lambda e, ch=ch, sv=sv, enc=enc: bool(e[ch]) and (not e[sv] or e[ch] != e[enc]),
            msg="the %s of the new ClientHello is not compared (for inequality) with the session's: a session "
                "established for another name would be resumed" % fld))
    spec_rows(ctx, R, TLSCONN + "_serverGetClientHello", rows)
    # the resumed connection shares the cached object and echoes its parameters
    sets = [n for n in g.nodes if assigns(n, "self.session") and n.line >= sinks[0].line - 80]
    inside = [n for n in sets if any(n.id in g.reach(g.succ_on(t, "T")) for t in sess_tests)]
    ok = bool(inside) and all(norm(n.ast.value) == "session" for n in inside)
    ctx.check(R, ok, fi.qname, "self.session = session (the cached instance itself)",
              "the resumed connection must use the very Session object held by the cache/ticket lookup, "
              "so that a later fatal error invalidates it for everyone", fi.loc(inside[0].ast) if inside else fi.loc())
    sh = [n for n in g.nodes if n.kind == "stmt" and "serverHello.create(" in norm(n.ast) and
          any(n.id in g.reach(g.succ_on(t, "T")) for t in sess_tests)]
    ok = bool(sh) and "session.cipherSuite" in norm(sh[0].ast) and "session.sessionID" in norm(sh[0].ast)
    ctx.check(R, ok, fi.qname, "abbreviated ServerHello carries the session's suite and id",
              "the resumption ServerHello must announce session.cipherSuite and session.sessionID",
              fi.loc(sh[0].ast) if sh else fi.loc())
    fin = consumes_of(g, "_getFinished") + consumes_of(g, "_sendFinished")
    okf = len(fin) >= 2 and all("session.masterSecret" in norm(n.call) and "session.cipherSuite" in norm(n.call)
                                for n in fin)
    ctx.check(R, okf, fi.qname, "resumed Finished exchange keyed by the session's master secret and suite",
              "the abbreviated handshake must use session.masterSecret and session.cipherSuite", fi.loc())


def rule_ticket(ctx):
    R = "C13.TICKET"
    fi = ctx.index.func(TLSCONN + "_tryDecrypt")
    g = ctx.an.cfg(fi)
    opens = [n for n in g.nodes if n.kind == "stmt" and "cipher.open(" in norm(n.ast)]
    parses = [n for n in g.nodes if n.kind == "stmt" and "SessionTicketPayload().parse(" in norm(n.ast)]
    rets = [n for n in g.nodes if n.kind == "return" and norm(n.ast) not in ("return (None, None)",)]
    if not opens or not parses or not rets:
        raise AnalysisError("C13.TICKET: _tryDecrypt anchors not found")
    gate = [t for t in g.nodes if t.kind == "test" and norm(t.expr) == "not ticket"]
    eff = [t for t in gate if "T" in dead_edge_labels(g, t, parses + rets, blocked=opens)]
    must_pass(ctx, R, fi, g, opens, parses + rets, eff, "ticket used only after AEAD open() succeeded",
              "a ticket whose authentication tag did not verify is parsed/returned")
    must_pass(ctx, R, fi, g, [g.entry], rets, opens, "every returned ticket was opened with a configured key",
              "_tryDecrypt can return a ticket without decrypting it", start_after=False)
    loop = [n for n in g.nodes if n.kind == "loop" and norm(n.expr) == "settings.ticketKeys"]
    ctx.check(R, bool(loop), fi.qname, "all configured ticket keys are tried",
              "_tryDecrypt must iterate over settings.ticketKeys (key rollover)", fi.loc())
    keyd = [n for n in g.nodes if n.kind == "stmt" and "_derive_key_iv(nonce, user_key, settings)" in norm(n.ast)]
    ctx.check(R, bool(keyd), fi.qname, "ticket key derived from the loop's key and the ticket nonce",
              "the decryption key must be derived from the current ticket key and the received nonce", fi.loc())
    # no explicit raise on a failed decryption (fallback, not abort)
    pre = g.reach([g.entry], blocked=parses)      # before the authenticated plaintext is parsed
    esc = set()
    for nd in g.nodes:
        if nd.id in pre and nd.kind == "raise":      # explicit raises of this function only
            for m, l in nd.succ:
                if m is g.raise_exit and l.startswith("exc:"):
                    esc.add(l[4:])
    esc -= {"AssertionError"}
    ctx.check(R, not esc, fi.qname, "_tryDecrypt does not raise on bad tickets",
              "_tryDecrypt can raise %s for a bad ticket instead of returning (None, None): the "
              "handshake would abort instead of falling back to a full handshake" % sorted(esc), fi.loc())
    hv = [h for (tr, h, hn) in g.handlers if "ValueError" in norm(h.type or ast.Name(id=""))]
    okh = False
    for (tr, h, hn) in g.handlers:
        if "ValueError" in norm(h.type or ast.Name(id="")):
            seen = g.reach([hn])
            okh = not any(r.id in seen for r in rets if "ticket" in norm(r.ast) and "None, None" not in norm(r.ast)) \
                or True
            okh = all(x.kind in ("handler", "continue", "loop", "join") or x.id not in seen or True for x in g.nodes)
            body = [norm(s) for s in h.body]
            okh = body == ["continue"]
    ctx.check(R, okh, fi.qname, "unparsable ticket payload -> next key (continue)",
              "a ticket that decrypts but does not parse must be skipped, not raised", fi.loc())
    # consumers compare creation_time with the lifetime
    consumers = []
    for f in ctx.index.all_functions():
        if f.module.name != "tlsconnection" or f.name == "_tryDecrypt":
            continue
        gg = ctx.an.cfg(f)
        for n in nodes_with_call(gg, "_tryDecrypt"):
            consumers.append((f, gg, n))
    ctx.require(len(consumers) >= 2, "C13.TICKET: fewer than 2 consumers of _tryDecrypt")
    for f, gg, n in consumers:
        uses = [m for m in gg.nodes if m.ast is not None and m is not n and m.kind in ("stmt", "return", "test")
                and any(isinstance(x, ast.Attribute) and attr_chain(x) and attr_chain(x).startswith("ticket.")
                        and x.attr not in ("creation_time",)
                        for x in ast.walk(m.expr if m.expr is not None else m.ast))
                and not (m.kind == "test" and "creation_time" in norm(m.expr))]
        uses = [m for m in uses if m.id in gg.reach(gg.normal_succ(n))]
        tests = [t for t in gg.nodes if t.kind == "test" and "ticket.creation_time" in norm(t.expr)
                 and "ticketLifetime" in norm(t.expr)]
        hk = [x for x in gg.nodes if x.kind == "loop" and "identities" in norm(x.expr)]
        eff = [t for t in tests if dead_edge_labels(gg, t, uses, blocked=[n] + hk)]
        cut = falsy_edges(gg, "ticket")
        if not uses:
            raise AnalysisError("C13.TICKET: no use of the decrypted ticket found in " + f.qname)
        ok = must_pass(ctx, R, f, gg, [n], uses, eff, "ticket lifetime checked before the ticket is used",
                       "a decrypted ticket is accepted without comparing its creation time with "
                       "settings.ticketLifetime (expired tickets resume)", cut=cut, kills=hk)
        for t in eff:
            check_cond(ctx, R, f, t.ast, t.expr,
                       {"ticket.creation_time": [0, 50, 100], "settings.ticketLifetime": [10, 60],
                        "time.time()": [5, 55, 105, 160], "ticket": [True]},
                       lambda e: e["ticket.creation_time"] + e["settings.ticketLifetime"] < e["time.time()"],
                       "ticket lifetime comparison",
                       "a ticket must be refused exactly when creation_time + ticketLifetime is in the past")
    # TLS 1.3 consumer: version and hash gates
    f13 = ctx.index.func(TLSCONN + "_serverTLS13Handshake")
    g13 = ctx.an.cfg(f13)
    sel = [n for n in g13.nodes if assigns(n, "selected_psk") and not assigns_none(n, "selected_psk")]
    src = nodes_with_call(g13, "_tryDecrypt")
    heads = [n for n in g13.nodes if n.kind == "loop" and "psks.identities" in norm(n.expr)]
    if not heads:
        raise AnalysisError("C13.TICKET: PSK identity loop not found")
    for frag, what in (("self.version != ticket.protocol_version", "ticket issued for this protocol version"),
                       ("psk_hash != prf_name", "PSK hash equals the negotiated suite's hash")):
        tests = [t for t in g13.nodes if t.kind == "test" and frag in norm(t.expr)]
        # moving on to the next identity (loop head) gives this candidate up
        eff = [t for t in tests if "T" in dead_edge_labels(g13, t, sel, blocked=src + heads)]
        must_pass(ctx, R, f13, g13, src, sel, eff, "TLS 1.3 ticket gate: " + what,
                  "a TLS 1.3 ticket is selected without the check: " + what, kills=heads)
    # ... and the server name: a ticket issued for one name is not resumed for another (the TLS <= 1.2
    # path refuses that with an alert; here the candidate is skipped and a full handshake follows)
    from ..query import mentions_all
    tests = [t for t in g13.nodes if t.kind == "test" and mentions_all(t.expr, ["ticket.server_name", "clientHello.server_name"])]
    eff = [t for t in tests if dead_edge_labels(g13, t, sel, blocked=src + heads)]
    must_pass(ctx, R, f13, g13, src, sel, eff, "TLS 1.3 ticket gate: issued for the server name now asked for",
              "a TLS 1.3 ticket issued for one server name is resumed for a ClientHello that asks for another: "
              "the resumed connection does not have the original session's server name",
              cut=falsy_edges(g13, "ticket"), kills=heads)


def rule_invalidate(ctx):
    R = "C13.INVALIDATE"
    n = 0
    OWN = ("__init__", "_setResumable", "create", "_clone")

    def writes_of(fnode):
        """(node, value expr) for every write of a session's `resumable` flag: direct assignment or a
        call of Session._setResumable."""
        out = []
        for x in own_nodes(fnode):
            if isinstance(x, ast.Assign):
                for t in x.targets:
                    c = attr_chain(t)
                    if c and c.endswith(".resumable"):
                        out.append((x, x.value))
            elif isinstance(x, ast.Call) and call_name(x) in ("_setResumable", "setattr"):
                if call_name(x) == "setattr":
                    if len(x.args) == 3 and isinstance(x.args[1], ast.Constant) and x.args[1].value == "resumable":
                        out.append((x, x.args[2]))
                elif x.args:
                    out.append((x, x.args[0]))
        return out
    for f in ctx.index.all_functions():
        if f.name in OWN and f.cls is not None and f.cls.name == "Session":
            continue
        for x, v in writes_of(f.node):
            n += 1
            ok = f.qname == TLSREC + "_shutdown" and isinstance(v, ast.Constant) and v.value is False
            ctx.check(R, ok, f.qname, "`%s` clears the flag" % norm(x)[:60],
                      "Session.resumable is written outside _shutdown or set to something other than the constant "
                      "False (`%s`): an invalidated session can become resumable again" % norm(x)[:80], f.loc(x))
    ctx.require(n >= 1, "C13.INVALIDATE: no write of .resumable found")
    sh = ctx.index.func(TLSREC + "_shutdown")
    g = ctx.an.cfg(sh)
    from ..query import truthy_edges, falsy_edges
    clears = []
    for x, v in writes_of(sh.node):
        if isinstance(v, ast.Constant) and v.value is False:
            clears += [nd for nd in g.nodes if nd.ast is not None and any(y is x for y in ast.walk(nd.ast))
                       and nd.kind == "stmt"]
    # paths of _shutdown(resumable=False) with a session present: decide each test under that assumption
    from ..condeval import ev, Unknown
    cut = set()
    for t in g.nodes:
        if t.kind == "test" and t.expr is not None:
            try:
                val = ev(t.expr, {"resumable": False, "self.session": True})
            except (Unknown, TypeError):
                continue
            cut.add((t.id, "F" if val else "T"))
    must_pass(ctx, R, sh, g, [g.entry], [g.exit], clears, "non-resumable shutdown invalidates the session",
              "_shutdown(False) must clear session.resumable whenever a session exists", cut=cut, start_after=False)
    # session.valid() consults resumable
    v = ctx.index.func("session:Session.valid")
    ret = [x for x in own_nodes(v.node) if isinstance(x, ast.Return)]
    ok = len(ret) == 1 and isinstance(ret[0].value, ast.BoolOp) and isinstance(ret[0].value.op, ast.And) \
        and norm(ret[0].value.values[0]) == "self.resumable"
    ctx.check(R, ok, v.qname, "Session.valid() requires resumable", "Session.valid() must require self.resumable",
              v.loc())
    sc = ctx.index.func("sessioncache:SessionCache.__getitem__")
    gs = ctx.an.cfg(sc)
    # the session is returned only on the outcome of the validity test that says "valid"
    tests = [x for x in gs.nodes if x.kind == "test" and "session.valid()" in norm(x.expr)]
    rets = [x for x in gs.nodes if x.kind == "return"]
    ok = False
    if tests and rets:
        t0 = tests[0]
        neg = isinstance(t0.expr, ast.UnaryOp) and isinstance(t0.expr.op, ast.Not)
        good, badl = ("F", "T") if neg else ("T", "F")
        ok = norm(t0.expr) in ("session.valid()", "not session.valid()") \
            and not any(x.id in gs.reach(gs.succ_on(t0, badl), follow_exc=False) for x in rets) \
            and all(x.id in gs.reach(gs.succ_on(t0, good)) for x in rets)
    ctx.check(R, ok, sc.qname, "cache returns only valid sessions",
              "SessionCache.__getitem__ must raise KeyError for a session that is no longer valid", sc.loc())
    ch = ctx.index.func(TLSCONN + "_clientSendClientHello")
    okc = any(isinstance(x, ast.If) and "session.valid()" in norm(x.test) for x in own_nodes(ch.node)) or \
        any("session.valid()" in norm(x) for x in own_nodes(ch.node) if isinstance(x, (ast.If, ast.IfExp, ast.BoolOp)))
    hc = ctx.index.func(TLSCONN + "_handshakeClientAsyncHelper")
    okc = okc or any("session.valid()" in norm(x) for x in own_nodes(hc.node) if isinstance(x, ast.If))
    ctx.check(R, okc, hc.qname, "client offers a session only if session.valid()",
              "the client must not offer a session that was invalidated", hc.loc())


def rule_client(ctx):
    R = "C13.CLIENT"
    fi = ctx.index.func(TLSCONN + "_clientResume")
    g = ctx.an.cfg(fi)
    toks = [n for n in g.nodes if is_value_yield(n)]
    tests = [t for t in g.nodes if t.kind == "test" and norm(t.expr) == "serverHello.cipher_suite != session.cipherSuite"]
    eff = [t for t in tests if "T" in dead_edge_labels(g, t, toks)]
    must_pass(ctx, R, fi, g, [g.entry], toks, eff, "resumed suite equals the session's suite",
              "the client accepts a resumption ServerHello that names another cipher suite", start_after=False)
    # how the client decides that the server resumed: by the echoed session id
    top = [t for t in g.nodes if t.kind == "test" and "serverHello.session_id" in norm(t.expr)]
    if not top:
        raise AnalysisError("C13.CLIENT: resumption decision not found in _clientResume")
    t = top[0]
    check_cond(ctx, R, fi, t.ast, t.expr,
               {"session": [True], "session.sessionID": [b"", b"A"],
                "serverHello.session_id": [b"", b"A", b"B", b"C"], "session.tls_1_0_tickets": [(), ("t",)],
                "offered_session_id": [None, b"", b"A", b"C"]},
               lambda e: (bool(e["session.sessionID"]) and e["serverHello.session_id"] == e["session.sessionID"])
               or (bool(e["session.tls_1_0_tickets"]) and bool(e["offered_session_id"])
                   and e["serverHello.session_id"] == e["offered_session_id"]),
               "client detects resumption by the echoed session id",
               "the client must treat the handshake as resumed only when the server echoed the offered, "
               "non-empty session id; otherwise a server that declined the ticket (unknown key, expired) "
               "breaks the connection instead of falling back to a full handshake")
    ch = ctx.index.func(TLSCONN + "_clientSendClientHello")
    src = " ".join(norm(x) for x in own_nodes(ch.node) if isinstance(x, ast.Assign))
    ok1 = "session.tls_1_0_tickets[:] = [i for i in session.tls_1_0_tickets if i.valid()]" in src
    ctx.check(R, ok1, ch.qname, "expired TLS<=1.2 tickets pruned before the offer",
              "expired session tickets must be removed before one is offered", ch.loc())
    ok2 = False
    for x in own_nodes(ch.node):
        if isinstance(x, ast.Assign) and isinstance(x.targets[0], ast.Subscript) and norm(x.targets[0].slice) == ":" \
                and "session.tickets" in resolved_text(ch.node, x.targets[0].value):
            s = resolved_text(ch.node, x.value)
            import re as _re
            ok2 = bool(_re.search(r"i\.time \+ i\.ticket_lifetime > (now|time\.time\(\))", s)) and \
                bool(_re.search(r"i\.time \+ (7 \* 24 \* 60 \* 60|604800) > (now|time\.time\(\))", s))
    ctx.check(R, ok2, ch.qname, "expired TLS 1.3 tickets pruned before the offer",
              "TLS 1.3 tickets past their lifetime (or 7 days) must be removed before the offer", ch.loc())
    tv = ctx.index.func("session:Ticket.valid")
    ret = [x for x in own_nodes(tv.node) if isinstance(x, ast.Return)]
    if ret:
        check_cond(ctx, R, tv, ret[0], ret[0].value,
                   {"time.time()": [5, 10, 15], "self.time_received": [0, 5], "self.ticket_lifetime": [5, 10]},
                   lambda e: e["time.time()"] < e["self.time_received"] + e["self.ticket_lifetime"],
                   "Ticket.valid()", "a ticket is valid exactly while now < time_received + lifetime")


def rule_carry(ctx):
    R = "C13.CARRY"
    fs = ctx.index.func(TLSCONN + "_serverSendTickets")
    create = None
    for x in own_nodes(fs.node):
        if isinstance(x, ast.Call) and call_name(x) == "create" and norm(x.func.value) == "ticket":
            create = x
    if create is None:
        raise AnalysisError("C13.CARRY: ticket.create(...) not found")
    pos = [norm(a) for a in create.args]
    kw = {k.arg: norm(k.value) for k in create.keywords}
    want_pos = ["secret", "self.version", "self.session.cipherSuite"]
    ctx.check(R, pos[:3] == want_pos, fs.qname, "ticket carries secret, version, suite of this connection",
              "the ticket payload must carry (secret, self.version, self.session.cipherSuite), got %s" % pos[:3],
              fs.loc(create))
    ctx.check(R, len(pos) >= 4 and "time.time()" in pos[3], fs.qname, "ticket carries its creation time",
              "the ticket payload must record the current time as creation time", fs.loc(create))
    want_kw = {"client_cert_chain": "self.session.clientCertChain",
               "encrypt_then_mac": "self._recordLayer._get_pending_state_etm()",
               "extended_master_secret": "self.extendedMasterSecret"}
    for k, v in want_kw.items():
        ctx.check(R, kw.get(k) == v, fs.qname, "ticket carries %s of this connection" % k,
                  "ticket field %s is taken from %s; at the time tickets are issued (before the server's "
                  "ChangeCipherSpec in TLS <= 1.2) the negotiated value is %s" % (k, kw.get(k), v), fs.loc(create))
    ctx.check(R, "self.session.serverName" in kw.get("server_name", ""), fs.qname, "ticket carries the server name",
              "the ticket must carry the session's server name", fs.loc(create))
    # which secret the ticket carries, per version: followed through whatever assigns it (if/else or a
    # conditional expression) by walking the function for each version (condeval.outcomes, nothing is run)
    from ..condeval import outcomes, ev, Unknown
    g_ = ctx.an.cfg(fs)
    cache_ = {}

    def ao_(t):
        if t.id not in cache_:
            cache_[t.id] = dead_edge_labels(g_, t, [g_.exit])
        return cache_[t.id]
    bad = None
    for ver, want in (((3, 1), "MS"), ((3, 3), "MS"), ((3, 4), "RMS")):
        seen_ = set()

        def visit(n, ve, taint, seen_=seen_):
            if n.ast is not None and any(x is create for x in ast.walk(n.ast)) and create.args:
                try:
                    seen_.add(ev(create.args[0], ve))
                except (Unknown, TypeError, AttributeError):
                    seen_.add(None)
        env_ = {"self.version": ver, "self.session.masterSecret": "MS", "self.session.resumptionMasterSecret": "RMS",
                "settings.ticket_count": 1, "settings.ticketKeys": (b"k",), "__index__": ctx.index, "__an__": ctx.an}
        outcomes(g_, fs.node, env_, ao_, visit=visit, track_all=True)
        if seen_ != {want}:
            bad = "for version %r the ticket is created with %s" % (
                ver, sorted(("the master secret" if x == "MS" else "the resumption master secret" if x == "RMS" else "an undetermined value")
                            for x in seen_) or "nothing")
            break
    ctx.check(R, bad is None, fs.qname, "ticket secret = master secret (<=1.2) / resumption master secret (1.3)",
              "the secret stored in the ticket must be the master secret up to TLS 1.2 and the resumption master "
              "secret in TLS 1.3: %s" % bad, fs.loc())
    # restore
    ft = ctx.index.func(TLSCONN + "_ticket_to_session")
    cr = None
    for x in own_nodes(ft.node):
        if isinstance(x, ast.Call) and call_name(x) == "create" and norm(x.func.value) == "session":
            cr = x
    if cr is None:
        raise AnalysisError("C13.CARRY: session.create(...) not found in _ticket_to_session")
    from .common import bound_args
    ba = bound_args(cr, ctx.index.func("session:Session.create").node)
    kw = dict(ba)
    ok = ba.get("masterSecret") == "ticket.master_secret" and ba.get("cipherSuite") == "ticket.cipher_suite" and \
        ba.get("clientCertChain") == "ticket.client_cert_chain"
    ctx.check(R, ok, ft.qname, "session restored with the ticket's secret, suite and client chain",
              "the restored session must take master secret, cipher suite and client chain from the ticket",
              ft.loc(cr))
    for k, v in (("encryptThenMAC", "ticket.encrypt_then_mac"),
                 ("extendedMasterSecret", "ticket.extended_master_secret")):
        ctx.check(R, kw.get(k) == v, ft.qname, "session restored with the ticket's %s" % k,
                  "restored session.%s must come from %s, got %s" % (k, v, kw.get(k)), ft.loc(cr))
    ctx.check(R, "ticket.server_name" in kw.get("serverName", ""), ft.qname,
              "session restored with the ticket's server name",
              "restored session.serverName must come from the ticket", ft.loc(cr))
    # TLS 1.3: identity of the original client
    f13 = ctx.index.func(TLSCONN + "_serverTLS13Handshake")
    okc = any(isinstance(x, ast.Assign) and norm(x) == "resumed_client_cert_chain = ticket.client_cert_chain"
              for x in own_nodes(f13.node))
    ctx.check(R, okc, f13.qname, "TLS 1.3 resumption restores the client identity from the ticket",
              "the TLS 1.3 PSK path must take the client's chain from the selected ticket", f13.loc())
    # payload codec symmetric: every field written is parsed
    pl = ctx.index.cls("messages:SessionTicketPayload")
    w = pl.methods.get("write")
    p = pl.methods.get("parse")
    if w and p:
        wf = {x.attr for x in ast.walk(w.node) if isinstance(x, ast.Attribute) and isinstance(x.value, ast.Name)
              and x.value.id == "self"}
        pf = {x.attr for x in ast.walk(p.node) if isinstance(x, ast.Attribute) and isinstance(x.value, ast.Name)
              and x.value.id == "self" and isinstance(x.ctx, ast.Store)}
        need = {"master_secret", "protocol_version", "cipher_suite", "creation_time", "nonce",
                "_cert_chain", "encrypt_then_mac", "extended_master_secret", "server_name"}
        for h in pl.methods.values():
            if h.name.startswith("_parse"):
                pf |= {x.attr for x in ast.walk(h.node) if isinstance(x, ast.Attribute)
                       and isinstance(x.value, ast.Name) and x.value.id == "self" and isinstance(x.ctx, ast.Store)}
        ctx.check(R, need <= wf, w.qname, "payload write covers all carried fields",
                  "SessionTicketPayload.write omits %s" % sorted(need - wf), w.loc())
        ctx.check(R, need <= pf, p.qname, "payload parse restores all carried fields",
                  "SessionTicketPayload.parse does not restore %s" % sorted(need - pf), p.loc())


def rule_offer_consistency(ctx):
    """OFFER: the client offers a session only with parameters consistent with it: same SRP user name
    and server name, and a cipher suite the current settings still allow (meaning of the checks over
    boundary values, condeval.outcomes)."""
    from .common import spec_rows
    R = "C13.OFFER"
    spec_rows(ctx, R, TLSCONN + "_handshakeClientAsyncHelper", [
        dict(what="offered session belongs to the same SRP user and server name",
             dom={"session": [True], "session.valid()": [True], "session.resumable": [True],
                  "session.srpUsername": [None, "a"], "srpUsername": [None, "a", "b"],
                  "session.serverName": ["x"], "serverName": ["x", "y", None], "password": [None, "p"]},
             when=lambda e: bool(e["password"]) == bool(e["srpUsername"]),     # the caller's own argument check
             abort=lambda e: e["session.srpUsername"] != e["srpUsername"] or e["session.serverName"] != e["serverName"],
             msg="a session made for another SRP user or server name must not be offered for resumption")])
    spec_rows(ctx, R, TLSCONN + "_clientSendClientHello", [
        dict(what="offered session's cipher suite is still acceptable",
             dom={"session": [True], "session.sessionID": [b"s"], "session.cipherSuite": [47, 53],
                  "cipherSuites": [(47,), (53, 47)]},
             abort=lambda e: e["session.cipherSuite"] not in e["cipherSuites"],
             msg="a session whose cipher suite the current settings no longer allow must not be offered")])


RULES = [
    ("C13.OFFER", "quick", rule_offer_consistency),
    ("C13.SRV-GATES", "quick", rule_srv_gates),
    ("C13.TICKET", "quick", rule_ticket),
    ("C13.INVALIDATE", "quick", rule_invalidate),
    ("C13.CLIENT", "quick", rule_client),
    ("C13.CARRY", "quick", rule_carry),
    ("C13.TICKET-ID", "quick", borrowed("c05", "rule_ticket_identity", "C05.TICKET-ID", "C13.TICKET-ID")),
    # a cached session is resumed only while it is younger than maxAge: expiry and eviction of the ring
    ("C13.EXPIRY", "quick", borrowed("c18", "rule_ring", "C18.RING", "C13.EXPIRY")),
    # invalidation reaches the cached entry because the cache holds the connection's own object
    ("C13.CACHE-IDENTITY", "quick", borrowed("c18", "rule_identity", "C18.IDENTITY", "C13.CACHE-IDENTITY")),
]


# ----------------------------------------------------------------- TICKET-FIELDS
def rule_ticket_fields(ctx):
    """TICKET-FIELDS: a ticket is written in a format version able to carry everything it was created
    with.  SessionTicketPayload.create is interpreted for all combinations of optional fields (client
    certificate chain, encrypt-then-MAC, extended master secret, server name; nothing of the library is
    run): the version it settles on must be at least 1 with a chain and 2 with any of the flags / the
    name, and the flags and the name must be stored as given - a ticket written as version 1 silently
    drops them, and the resumed session then runs without EtM / EMS."""
    import itertools
    from ..condeval import Unknown
    from .c01shared import run_method
    R = "C13.TICKET-FIELDS"
    fi = ctx.index.func("messages:SessionTicketPayload.create")
    n = 0
    for chain, etm, ems, name in itertools.product((None, ("cert",)), (False, True), (False, True), (b"", b"example.com")):
        env = {"__selfstate__": True, "self.version": 0, "self.client_cert_chain": None, "self._cert_chain": None,
               "self.encrypt_then_mac": False, "self.extended_master_secret": False, "self.server_name": b"",
               "self": "SELF"}
        try:
            from ..condeval import exec_block, Returned, Raised
            kind, val = _run_create(ctx, fi, [b"ms", (3, 3), 47, 1000, b"n", chain, etm, ems, name], env)
        except (Unknown, TypeError, AttributeError, KeyError, IndexError, ValueError) as e:
            raise AnalysisError("%s: cannot interpret %s: %s" % (R, fi.qname, e))
        need = 2 if (etm or ems or name) else (1 if chain else 0)
        got_v = env.get("self.version")
        ok = kind in ("return", "end") and isinstance(got_v, int) and got_v >= need
        if ok and need == 2:
            ok = env.get("self.encrypt_then_mac") == etm and env.get("self.extended_master_secret") == ems \
                and bytes(env.get("self.server_name") or b"") == name
        if ok and chain:
            ok = bool(env.get("self.client_cert_chain") or env.get("self._cert_chain"))
        n += 1
        ctx.check(R, ok, fi.qname, "ticket for chain=%s EtM=%s EMS=%s name=%r" % (bool(chain), etm, ems, name),
                  "a ticket created with client chain=%s, encrypt_then_mac=%s, extended_master_secret=%s, server "
                  "name %r ends as format version %r with EtM=%r EMS=%r name=%r: it needs version >= %d and the "
                  "fields as given, otherwise write() drops them and the resumed session loses them" % (
                      bool(chain), etm, ems, name, got_v, env.get("self.encrypt_then_mac"),
                      env.get("self.extended_master_secret"), env.get("self.server_name"), need), fi.loc(),
                  what="ticket format version carries chain=%s EtM=%s EMS=%s name=%s" % (bool(chain), etm, ems, bool(name)))
    if n != 16:
        raise AnalysisError("%s: %d combinations evaluated" % (R, n))


def _run_create(ctx, fi, args, env):
    from ..condeval import exec_block, Returned, Raised
    e = {"__index__": ctx.index, "__bytes__": True, "__stmts__": True, "__selfcls__": fi.cls, "__calls__": {}}
    e.update(env)
    names = [a.arg for a in fi.node.args.args][1:]
    for nm, v in zip(names, args):
        e[nm] = v
    try:
        exec_block(fi.node.body, e)
        res = ("end", None)
    except Returned as r:
        res = ("return", r.value)
    except Raised as r:
        res = ("raise", r.what)
    env.update({k: v for k, v in e.items() if isinstance(k, str) and k.startswith("self.")})
    return res


RULES.append(("C13.TICKET-FIELDS", "quick", rule_ticket_fields))


# ----------------------------------------------------------------- ETM-SOURCE (pending-state typestate)
def rule_pending_source(ctx):
    """ETM-SOURCE: what is recorded about the connection-to-be (encrypt-then-MAC in the session and in
    the ticket) is read from a pending connection state that is still pending.  changeReadState /
    changeWriteState install the pending state and replace it by a fresh one, so an accessor that reads
    `_pending<S>State` must not run after `change<S>State` in the same handshake flight.  Decided on the
    call graph: in every function that calculates the pending states, no path leads from the calculation
    through a (transitive) change of side S to a (transitive) read of pending side S."""
    R = "C13.ETM-SOURCE"
    rl = ctx.index.cls("recordlayer:RecordLayer")
    # accessors: RecordLayer methods that only hand out a field of a pending state
    acc = {}
    for name, m in rl.methods.items():
        if name.startswith("calc") or name.startswith("change") or name == "__init__" or name.startswith("_calc"):
            continue
        sides = set()
        for n in own_nodes(m.node):
            if isinstance(n, ast.Attribute) and isinstance(n.ctx, ast.Load):
                c = attr_chain(n) or ""
                if c.startswith("self._pendingReadState."):
                    sides.add("Read")
                elif c.startswith("self._pendingWriteState."):
                    sides.add("Write")
        stores = any(isinstance(n, ast.Attribute) and isinstance(n.ctx, ast.Store)
                     and (attr_chain(n) or "").startswith("self._pending") for n in own_nodes(m.node))
        if sides and not stores:
            acc[name] = sides
    # the accessor the session and the ticket are filled from must itself read a pending state
    named = rl.methods.get("_get_pending_state_etm")
    if named is None:
        raise AnalysisError("%s: RecordLayer._get_pending_state_etm not found" % R)
    ctx.check(R, "_get_pending_state_etm" in acc, named.qname, "accessor reads a pending state",
              "_get_pending_state_etm returns `%s`: the encrypt-then-MAC flag recorded in the session and in tickets "
              "must be the one of the PENDING connection state (the state in force still belongs to the previous "
              "epoch when the session is created and the ticket is sealed)" % "; ".join(
                  norm(x.value) for x in own_nodes(named.node) if isinstance(x, ast.Return) and x.value is not None),
              named.loc(), what="_get_pending_state_etm reads a pending connection state")
    if not acc:
        return
    fams = [f for f in ctx.index.all_functions() if f.cls is not None and f.cls.name in ("TLSConnection", "TLSRecordLayer")]
    by_name = {}
    for f in fams:
        by_name.setdefault(f.name, []).append(f)
    CHANGE = {"Read": {"changeReadState", "_changeReadState"}, "Write": {"changeWriteState", "_changeWriteState"}}

    def callees(node):
        e = node.expr if node.expr is not None else node.ast
        out = set()
        if getattr(node, "call", None) is not None:
            out.add(call_name(node.call))
        if e is not None:
            out |= {call_name(c) for c in calls_in(e)}
        return {x for x in out if x}
    memo = {}

    def may(fname, kind, side, depth=0):
        """function `fname` may (transitively) change / read pending side `side`"""
        k = (fname, kind, side)
        if k in memo:
            return memo[k]
        memo[k] = False
        res = False
        for f in by_name.get(fname, []):
            for c in calls_in(f.node):
                nm = call_name(c)
                if not nm:
                    continue
                if kind == "change" and nm in CHANGE[side]:
                    res = True
                elif kind == "access" and side in acc.get(nm, ()):
                    res = True
                elif nm in by_name and depth < 6 and may(nm, kind, side, depth + 1):
                    res = True
        memo[k] = res
        return res

    def node_may(node, kind, side):
        for nm in callees(node):
            if kind == "change" and nm in CHANGE[side]:
                return True
            if kind == "access" and side in acc.get(nm, ()):
                return True
            if nm in by_name and may(nm, kind, side):
                return True
        return False
    n_flows = 0

    def check_fn(f, starts_from_calc, side, seen):
        nonlocal n_flows
        if f.qname in seen:
            return
        seen.add(f.qname)
        g = ctx.an.cfg(f)
        nodes = [n for n in g.nodes if n.kind in ("stmt", "consume", "noreturn", "test", "loop", "return")]
        if starts_from_calc:
            calc = [n for n in nodes if "_calcPendingStates" in callees(n) or "calcPendingStates" in callees(n)]
            if not calc:
                return
            scope = set()
            for c in calc:
                scope |= set(g.reach(g.normal_succ(c)))
        else:
            scope = {n.id for n in g.nodes}
        cs = [n for n in nodes if n.id in scope and node_may(n, "change", side)]
        as_ = [n for n in nodes if n.id in scope and node_may(n, "access", side)]
        n_flows += 1
        for c in cs:
            after = g.reach(g.normal_succ(c))
            for a in as_:
                if a is c:
                    continue
                if a.id in after:
                    ctx.fail(R, f.qname, "pending %s state read after change%sState" % (side.lower(), side),
                             "the pending %s state is read (line %d, through %s) after change%sState already "
                             "installed and reset it (line %d): the value recorded for the session / ticket is "
                             "that of a fresh ConnectionState, not what was negotiated" % (
                                 side.lower(), a.line, sorted(callees(a)), side, c.line), f.loc(a.ast) if a.ast is not None else f.loc())
        for n in cs:
            if n in as_:
                for nm in callees(n):
                    for f2 in by_name.get(nm, []):
                        check_fn(f2, False, side, seen)
    sides = set().union(*acc.values())
    for side in sorted(sides):
        for f in fams:
            if any(call_name(c) in ("_calcPendingStates", "calcPendingStates") for c in calls_in(f.node)) \
                    and f.name not in ("_calcPendingStates",):
                check_fn(f, True, side, set())
    if n_flows < 3:
        raise AnalysisError("%s: only %d flows with a pending-state calculation examined" % (R, n_flows))
    ctx.ok(R, "no read of a pending connection state after its change*State (accessors: %s; %d flows)" % (
        ", ".join("%s:%s" % (k, "/".join(sorted(v))) for k, v in sorted(acc.items())), n_flows), "tlslite/recordlayer.py")


RULES.append(("C13.ETM-SOURCE", "quick", rule_pending_source))
