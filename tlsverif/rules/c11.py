"""C11 - RSA key transport gives no padding oracle (control-flow clauses)."""
import ast
import re
import itertools

from ..index import AnalysisError, attr_chain, norm, own_nodes
from ..query import calls_in, call_name
from ..condeval import ev, Unknown
from .common import borrowed, TLSCONN, nodes_with_call, consumes_of, dead_edge_labels, must_pass

EXPLANATION = (
    "TAINT: in RSAKey.decrypt everything derived from the raw RSA plaintext is tainted; no branch "
    "condition, conditional expression, boolean short-circuit, comprehension filter, assert, "
    "subscript index (except the final slice by the mask-selected start) may depend on a tainted "
    "value, tainted values flow only into the branch-free ct_* helpers (each checked to contain no "
    "branch) and iteration builtins, and after the raw private-key operation the only exit is the "
    "final return. HEADER: the two leading bytes 0x00 0x02 are each checked by their own "
    "constant-time comparison, the separator search visits every byte, and the returned start is "
    "mask-selected between real and synthetic start by error_detected only. NO-SIGNAL: the server's "
    "processClientKeyExchange is a loop-free decision tree with no raise and a single return; its "
    "guards, evaluated over the finite domain of plaintext classes (None, empty, 47/48/49 bytes, "
    "version below/equal/above client and negotiated version), replace the premaster by the "
    "pre-generated random value exactly for every malformation, and no byte of the plaintext is "
    "indexed before its length was checked. NO-HANDLER: nothing that method can raise is turned into "
    "an alert by the handlers around its call; the failure can only surface at Finished.")
NOT_DECIDED = ("timing and memory-access patterns, uniformity of the synthetic length distribution, "
               "correctness of the ct_* arithmetic itself")
TECHNIQUE = ("taint (information-flow) analysis over the syntax tree + finite-domain evaluation of a decision tree; "
             "padding verdicts of RSAKey.decrypt by interpreting its source over sample blocks with the checker's own "
             "AST evaluator (nothing of the library is run)")

DEC = "utils.rsakey:RSAKey.decrypt"
SAFE_FUNCS = {"enumerate", "next", "zip", "iter", "bytearray", "len", "range", "reversed"}


def _names(e):
    return {x.id for x in ast.walk(e) if isinstance(x, ast.Name)}


def rule_taint(ctx):
    R = "C11.TAINT"
    fi = ctx.index.func(DEC)
    fn = fi.node
    g = ctx.an.cfg(fi)
    src = [n for n in g.nodes if n.kind == "stmt" and isinstance(n.ast, ast.Assign)
           and "_raw_private_key_op_bytes(" in norm(n.ast.value)]
    if len(src) != 1:
        raise AnalysisError("C11.TAINT: raw private key operation not found in decrypt")
    tainted = set(attr_chain(t) for t in src[0].ast.targets)
    # forward propagation to a fixpoint (flow-insensitive over the statements after the source)
    stmts = [n for n in ast.walk(fn) if isinstance(n, (ast.Assign, ast.AugAssign, ast.For))]
    changed = True
    while changed:
        changed = False
        for s in stmts:
            if isinstance(s, ast.Assign):
                rhs, tg = s.value, s.targets
            elif isinstance(s, ast.AugAssign):
                rhs, tg = s.value, [s.target]
            else:
                rhs, tg = s.iter, [s.target]
            if _names(rhs) & tainted:
                for t in tg:
                    for x in ast.walk(t):
                        if isinstance(x, ast.Name) and x.id not in tainted:
                            tainted.add(x.id)
                            changed = True
    ctx.info["tainted_names"] = sorted(tainted)
    ctx.require({"dec_bytes", "error_detected", "msg_start", "val"} <= tainted,
                "C11.TAINT: taint did not reach the padding-check variables")
    after = src[0].line
    n_checked = 0
    # the handler of the try around the private-key operation is the publicly-invalid exit
    # (ciphertext of wrong length / not below the modulus): the operation did not produce a plaintext
    public_exit = set()
    for t in ast.walk(fn):
        if isinstance(t, ast.Try) and any(x is src[0].ast for s_ in t.body for x in ast.walk(s_)):
            for h in t.handlers:
                for x in ast.walk(h):
                    public_exit.add(id(x))
    final_ret = [n for n in ast.walk(fn) if isinstance(n, ast.Return) and norm(n) == "return ret"]
    for n in ast.walk(fn):
        if getattr(n, "lineno", 0) <= after:
            continue
        bad = None
        if isinstance(n, (ast.If, ast.While, ast.IfExp, ast.Assert)) and _names(n.test) & tainted:
            bad = "branch on"
        elif isinstance(n, ast.BoolOp) and any(_names(v) & tainted for v in n.values):
            bad = "short-circuit boolean over"
        elif isinstance(n, ast.comprehension) and any(_names(i) & tainted for i in n.ifs):
            bad = "comprehension filter on"
        elif isinstance(n, ast.Subscript) and isinstance(n.ctx, ast.Load):
            idx = n.slice
            if _names(idx) & tainted:
                # the final slice by the selected start is the accepted length disclosure
                ok = isinstance(idx, ast.Slice) and idx.upper is None and isinstance(idx.lower, ast.Name) \
                    and idx.lower.id == "ret_msg_start"
                if not ok:
                    bad = "table/array index by"
        elif isinstance(n, ast.Call):
            fnm = call_name(n)
            args = list(n.args) + [k.value for k in n.keywords]
            if any(_names(a) & tainted for a in args):
                if not (fnm and (fnm.startswith("ct_") or fnm in SAFE_FUNCS)):
                    bad = "call of non-constant-time function %s with" % fnm
        elif isinstance(n, (ast.Return, ast.Raise)) and n not in final_ret and id(n) not in public_exit:
            bad = "additional exit after the private-key operation; it follows"
        if isinstance(n, (ast.If, ast.While, ast.IfExp, ast.Assert, ast.BoolOp, ast.comprehension,
                          ast.Subscript, ast.Call, ast.Return, ast.Raise)):
            n_checked += 1
            if bad:
                ctx.fail(R, fi.qname, n if not isinstance(n, ast.comprehension) else n.iter,
                         "%s a value derived from the RSA plaintext: the kind of padding error becomes "
                         "observable (control flow / memory access depends on secret data)" % bad,
                         fi.loc(n if hasattr(n, "lineno") else fn))
            else:
                ctx.ok(R, "decrypt construct #%d %s" % (n_checked, type(n).__name__))
    ctx.require(n_checked >= 30, "C11.TAINT: too few constructs examined (%d)" % n_checked)
    ctx.check(R, len(final_ret) == 1, fi.qname, "single final `return ret`", "decrypt must end in one `return ret`",
              fi.loc())
    # exits before the source are public
    for n in ast.walk(fn):
        if isinstance(n, (ast.Return, ast.Raise)) and n.lineno < after:
            ctx.ok(R, "public exit before the private-key operation: " + norm(n)[:50])
    # the ct_* helpers are branch free
    mod = ctx.index.module("utils.constanttime")
    used = {call_name(c) for c in calls_in(fn) if (call_name(c) or "").startswith("ct_")}
    for nm in sorted(used):
        f = mod.functions.get(nm)
        if f is None:
            raise AnalysisError("C11.TAINT: helper %s not found in constanttime.py" % nm)
        br = [x for x in own_nodes(f.node) if isinstance(x, (ast.If, ast.While, ast.IfExp, ast.BoolOp, ast.For,
                                                             ast.Compare))]
        ctx.check(R, not br, f.qname, "%s is branch- and comparison-free" % nm,
                  "constant-time helper %s contains %s" % (nm, type(br[0]).__name__ if br else ""), f.loc())


def rule_header(ctx):
    """HEADER: what RSAKey.decrypt returns for each class of decrypted block, decided by interpreting its
    source over sample blocks (c01shared.run_method; the raw key operation, the hashes and the PRF are
    replaced by stand-ins, the constant-time primitives by their meaning; nothing of the library runs):
    a block `00 02 <at least 8 non-zero bytes> 00 M` gives M - for the empty, a short and the longest M - and
    EVERY other block (wrong first or second byte, a zero among the first eight padding bytes, no
    separator at all) gives the synthetic message: the tail of the PRF's "message" stream whose length is
    the last PRF "length" candidate below the maximum - never an error, never part of the block.  A
    publicly invalid ciphertext (the raw operation refuses it) gives None."""
    import hashlib
    import hmac
    from ..condeval import Unknown, Raised
    from .c01shared import run_method
    from .common import size_primitives
    R = "C11.HEADER"
    fi = ctx.index.func(DEC)
    K = 64
    N = (1 << (8 * K - 1)) | 12345
    CT = b"C" * K

    def prf(base, key, label, out_len):
        out, i = b"", 0
        while len(out) < out_len // 8:
            out += hashlib.sha256(b"prf" + bytes(key) + bytes(label) + bytes([i])).digest()
            i += 1
        return out[:out_len // 8]
    max_sep = K - 10
    lmask = (1 << max_sep.bit_length()) - 1
    for letter in range(65, 91):
        # a sample ciphertext whose synthetic message is long enough to tell it from anything else
        CT = bytes([letter]) * K
        kdk = hmac.new(b"KH", CT, "sha256").digest()
        lens, msg = prf(None, kdk, b"length", 128 * 2 * 8), prf(None, kdk, b"message", K * 8)
        synth_len = 0
        for i in range(0, len(lens), 2):
            c = ((lens[i] << 8) + lens[i + 1]) & lmask
            if c < max_sep:
                synth_len = c
        if synth_len >= 12:
            break
    synthetic = msg[K - synth_len:]
    hooks = dict(size_primitives(ctx))
    hooks.update({"ct_lt_u32": lambda a, b: int((a & 0xffffffff) < (b & 0xffffffff)),
                  "ct_isnonzero_u32": lambda a: int((a & 0xffffffff) != 0),
                  "ct_neq_u32": lambda a, b: int((a & 0xffffffff) != (b & 0xffffffff)),
                  "ct_eq_u32": lambda a, b: int((a & 0xffffffff) == (b & 0xffffffff)),
                  "ct_le_u32": lambda a, b: int((a & 0xffffffff) <= (b & 0xffffffff)),
                  "ct_lsb_prop_u16": lambda a: 0xffff if a & 1 else 0, "ct_lsb_prop_u8": lambda a: 0xff if a & 1 else 0,
                  "hasPrivateKey": lambda base: True, "hasattr": lambda o, nm: True,
                  "secureHash": lambda d, a: hashlib.sha256(bytes(d)).digest(),
                  "secureHMAC": lambda k, d, a: hmac.new(bytes(k), bytes(d), a).digest(),
                  "numberToByteArray": lambda n, l=None: int(n).to_bytes(l or (int(n).bit_length() + 7) // 8, "big"),
                  "_dec_prf": prf})

    def block(first=0, second=2, pad=None, m=b"hello world", sep=True):
        pad = pad if pad is not None else b"\x11" * (K - 3 - len(m))
        return bytes([first, second]) + pad + (b"\x00" if sep else b"\x33") + m
    samples = [("valid, 11-byte message", block(), b"hello world"),
               ("valid, empty message", block(m=b""), b""),
               ("valid, longest message (8 padding bytes)", block(pad=b"\x11" * 8, m=b"M" * (K - 11)), b"M" * (K - 11)),
               ("first byte 01", block(first=1), None), ("second byte 01", block(second=1), None),
               ("second byte 03", block(second=3), None), ("leading bytes 02 00", block(first=2, second=0), None),
               ("leading bytes 02 02", block(first=2, second=2), None), ("leading bytes 00 00", block(second=0), None), ("no separator", block(sep=False).replace(b"\x00", b"\x44", 1)[:K] if False else bytes([0, 2]) + b"\x55" * (K - 2), None)]
    for pos in (2, 5, 9):
        b_ = bytearray(block())
        b_[pos] = 0
        samples.append(("zero padding byte at offset %d" % pos, bytes(b_), None))
    n = 0
    for label, dec, want in samples:
        h = dict(hooks)
        h["_raw_private_key_op_bytes"] = lambda base, c, dec=dec: bytes(dec)
        try:
            kind, val = run_method(ctx, fi, [CT], {"self.n": N, "self.key_type": "rsa", "self._key_hash": b"KH",
                                                    "self.d": 5, "self": "SELF", "__exc__": ctx.an.exc}, h)
        except (Unknown, TypeError, AttributeError, KeyError, IndexError, ValueError) as e:
            raise AnalysisError("%s: cannot interpret %s for `%s`: %s" % (R, fi.qname, label, e))
        exp = want if want is not None else synthetic
        n += 1
        ok = kind == "return" and val is not None and bytes(val) == exp
        ctx.check(R, ok, fi.qname, "decrypted block: " + label,
                  "for a decrypted block that is %s, decrypt() %s; it must return %s" % (
                      label, ("returns %r" % (bytes(val)[:16] if val is not None else None)) if kind == "return" else "ends with %s %s" % (kind, val),
                      ("the message %r" % want[:16]) if want is not None else "the synthetic message (PRF-selected, %d bytes) and nothing else" % len(synthetic)),
                  fi.loc(), what="decrypt(): " + label)
    # a ciphertext the raw operation refuses is publicly invalid: None, no exception
    h = dict(hooks)

    def refuse(base, c):
        raise Raised("ValueError('Message has incorrect length for the key size')")
    h["_raw_private_key_op_bytes"] = refuse
    try:
        kind, val = run_method(ctx, fi, [CT], {"self.n": N, "self.key_type": "rsa", "self._key_hash": b"KH", "self.d": 5,
                                                "self": "SELF", "__exc__": ctx.an.exc}, h)
    except (Unknown, TypeError, AttributeError, KeyError, IndexError, ValueError) as e:
        raise AnalysisError("%s: cannot interpret %s for a refused ciphertext: %s" % (R, fi.qname, e))
    ctx.check(R, kind == "return" and val is None, fi.qname, "publicly invalid ciphertext gives None",
              "a ciphertext of the wrong length / not below the modulus must make decrypt() return None (outcome: %s %r)" % (kind, val),
              fi.loc())
    if n < 9:
        raise AnalysisError("%s: only %d sample blocks evaluated" % (R, n))


def _tree_outcomes(stmts, env, out):
    """evaluate a loop-free statement list over a concrete abstract environment."""
    for s in stmts:
        if isinstance(s, ast.Expr) and isinstance(s.value, ast.Constant):
            continue
        if isinstance(s, ast.Assign) and len(s.targets) == 1 and isinstance(s.targets[0], ast.Name):
            env[s.targets[0].id] = ev(s.value, env)
        elif isinstance(s, ast.If):
            if ev(s.test, env):
                r = _tree_outcomes(s.body, env, out)
            else:
                r = _tree_outcomes(s.orelse, env, out)
            if r:
                return True
        elif isinstance(s, ast.Return):
            out.append(ev(s.value, env))
            return True
        elif isinstance(s, ast.Pass):
            continue
        elif isinstance(s, ast.For) and not s.orelse and isinstance(s.target, ast.Name) \
                and not any(isinstance(x, (ast.Break, ast.Continue)) for b in s.body for x in ast.walk(b)):
            # a loop over a short sequence the environment determines is unrolled
            items = list(ev(s.iter, env))
            if len(items) > 8:
                raise Unknown("long loop")
            for it in items:
                env[s.target.id] = it
                if _tree_outcomes(s.body, env, out):
                    return True
        else:
            raise Unknown("statement " + type(s).__name__)
    return False


def rule_no_signal(ctx):
    R = "C11.NO-SIGNAL"
    fi = ctx.index.func("keyexchange:RSAKeyExchange.processClientKeyExchange")
    fn = fi.node
    raises = [n for n in own_nodes(fn) if isinstance(n, (ast.Raise, ast.Assert))]
    ctx.check(R, not raises, fi.qname, "no raise / assert", "processClientKeyExchange must not raise for any "
              "malformed premaster (the failure may only surface at Finished)", fi.loc(raises[0]) if raises else fi.loc())
    # every exit is a return (which value it returns for which plaintext is decided below, class by class)
    rets = [n for n in own_nodes(fn) if isinstance(n, ast.Return)]
    ctx.check(R, len(rets) >= 1 and all(r.value is not None for r in rets) and isinstance(fn.body[-1], ast.Return),
              fi.qname, "every exit returns a premaster secret",
              "processClientKeyExchange must end every path by returning a premaster secret (falling off the "
              "end or returning nothing changes what the server does next)", fi.loc())
    loops = [n for n in own_nodes(fn) if isinstance(n, (ast.While, ast.Try))]
    ctx.check(R, not loops, fi.qname, "decision tree without while/try", "unexpected while/try in processClientKeyExchange", fi.loc())
    g = ctx.an.cfg(fi)
    rnd = [n for n in g.nodes if n.kind == "stmt" and norm(n.ast) == "randomPreMasterSecret = getRandomBytes(48)"]
    tests = [t for t in g.nodes if t.kind == "test"]
    ok = len(rnd) == 1 and all(rnd[0].id not in g.reach(g.normal_succ(t)) for t in tests)
    ctx.check(R, ok, fi.qname, "replacement generated before and independently of every test",
              "the random replacement premaster must be generated unconditionally before the first check", fi.loc())
    # no plaintext byte is indexed before the length gate
    subs = [n for n in g.nodes if n.ast is not None and n.kind in ("stmt", "test") and
            any(isinstance(x, ast.Subscript) and attr_chain(x.value) == "premasterSecret"
                for x in ast.walk(n.expr if n.expr is not None else n.ast))]
    lent = [t for t in tests if "len(premasterSecret)" in norm(t.expr)]
    nul = [t for t in tests if norm(t.expr) == "not premasterSecret"]
    if subs:
        eff = [t for t in lent if "T" in dead_edge_labels(g, t, subs)]
        must_pass(ctx, R, fi, g, [g.entry], subs, eff, "length checked before any byte is indexed",
                  "bytes of the decrypted premaster are indexed before its length was checked: a short "
                  "plaintext raises IndexError (no alert, connection dropped) - a distinguishable outcome",
                  start_after=False)
    # finite-domain evaluation of the decision tree
    dec_key = None
    for s in fn.body:
        if isinstance(s, ast.Assign) and norm(s.targets[0]) == "premasterSecret" and "decrypt(" in norm(s.value):
            dec_key = norm(s.value)
    if dec_key is None:
        raise AnalysisError("C11.NO-SIGNAL: decrypt call not found")
    CV, SV = (3, 3), (3, 1)
    cases = [("None", None), ("empty", b""), ("1 byte", b"\x03"), ("47 bytes", bytes([3, 3]) + b"x" * 45),
             ("49 bytes", bytes([3, 3]) + b"x" * 47)]
    for v in ((3, 0), (3, 1), (3, 2), (3, 3), (3, 4), (4, 0), (255, 255)):
        cases.append(("48 bytes version %s" % (v,), bytes(v) + b"x" * 46))
    n_ok = 0
    for label, pm in cases:
        env = {dec_key: pm, "getRandomBytes(48)": "RANDOM", "self.clientHello.client_version": CV,
               "self.serverHello.server_version": SV}
        out = []
        try:
            _tree_outcomes(fn.body, env, out)
        except Unknown as u:
            raise AnalysisError("C11.NO-SIGNAL: decision tree uses a construct the rule does not model: %s" % u)
        except (IndexError, TypeError) as e:
            ctx.fail(R, fi.qname, "premaster class: " + label,
                     "for a decrypted premaster that is %s the function would raise %s instead of "
                     "substituting the random premaster" % (label, type(e).__name__), fi.loc())
            continue
        good = pm is not None and len(pm) == 48 and (tuple(pm[:2]) == CV or tuple(pm[:2]) == SV)
        exp = pm if good else "RANDOM"
        got = out[0] if out else "<no return>"
        ctx.check(R, got == exp, fi.qname, "premaster class: " + label,
                  "for a decrypted premaster that is %s the function returns %s; it must return %s (every "
                  "malformation - wrong length, wrong version bytes - is replaced by the random value, only "
                  "the exact client or negotiated version is accepted)" % (
                      label, "the plaintext" if got is pm else got, "the plaintext" if good else "the random replacement"),
                  fi.loc())


def rule_no_handler(ctx):
    R = "C11.NO-HANDLER"
    fi = ctx.index.func("keyexchange:RSAKeyExchange.processClientKeyExchange")
    esc = ctx.an.raises(fi)
    srv = ctx.index.func(TLSCONN + "_serverCertKeyExchange")
    g = ctx.an.cfg(srv)
    site = nodes_with_call(g, "processClientKeyExchange")
    ctx.require(len(site) == 1, "C11.NO-HANDLER: call of processClientKeyExchange not found")
    caught = []
    for (tr, h, hn) in g.handlers:
        if any(site[0].ast is s for s in tr.body):
            ty = norm(h.type or ast.Name(id="BaseException"))
            for e in esc:
                if ctx.an.exc.is_sub(e, ty):
                    caught.append((e, ty))
    ctx.check(R, not caught, srv.qname, "no exception of RSA processClientKeyExchange is turned into an alert",
              "RSAKeyExchange.processClientKeyExchange can raise %s which the server turns into an alert at "
              "ClientKeyExchange time: a padding oracle" % caught, srv.loc(site[0].ast) if site else srv.loc())
    ctx.info["rsa_pcke_explicit_raises"] = sorted(esc)
    # between the call and the Finished exchange no alert depends on the premaster
    pm_uses = []
    if site:
        seen = g.reach(g.normal_succ(site[0]), follow_exc=False)
        for n in g.nodes:
            if n.id in seen and n.kind == "test" and "premasterSecret" in norm(n.expr):
                pm_uses.append(n)
    ctx.check(R, not pm_uses, srv.qname, "no branch on the premaster secret before Finished",
              "the server branches on the premaster secret after ClientKeyExchange", srv.loc())


def rule_keyhash(ctx):
    """KEYHASH: the secret that seeds the synthetic (implicit rejection) message is derived from the
    key's own private exponent at the point of use.  Every write of `_key_hash` is either the `None`
    reset or lies in RSAKey.decrypt, is computed from `self.d`, and precedes the HMAC that consumes it;
    the derivation key `kdk` is the HMAC of that secret over the ciphertext."""
    R = "C11.KEYHASH"
    writes = []
    for fi in ctx.index.all_functions():
        for n in own_nodes(fi.node):
            tg = []
            if isinstance(n, ast.Assign):
                tg = n.targets
            elif isinstance(n, (ast.AugAssign, ast.AnnAssign)):
                tg = [n.target]
            for t in tg:
                for x in ast.walk(t):
                    if isinstance(x, ast.Attribute) and x.attr == "_key_hash":
                        writes.append((fi, n))
            if isinstance(n, ast.Call) and call_name(n) == "setattr" and len(n.args) >= 2 and \
                    isinstance(n.args[1], ast.Constant) and n.args[1].value == "_key_hash":
                writes.append((fi, n))
    ctx.require(len(writes) >= 2, "C11.KEYHASH: writes of `_key_hash` not found")
    dec = ctx.index.func("utils.rsakey:RSAKey.decrypt")
    derived = 0
    for fi, n in writes:
        v = getattr(n, "value", None)
        if isinstance(n, ast.Assign) and isinstance(v, ast.Constant) and v.value is None:
            ctx.ok(R, "%s: `_key_hash` reset to None" % fi.short, fi.loc(n))
            continue
        ok = fi is dec and isinstance(n, ast.Assign) and isinstance(v, ast.Call) and call_name(v) == "secureHash" \
            and "self.d" in {attr_chain(x) for x in ast.walk(v) if isinstance(x, ast.Attribute)} \
            and len(v.args) >= 2 and isinstance(v.args[1], ast.Constant) and v.args[1].value in ("sha256", "sha384", "sha512")
        derived += 1 if ok else 0
        ctx.check(R, ok, fi.qname, "`%s` derived from self.d inside decrypt" % norm(n)[:60],
                  "the implicit-rejection secret `_key_hash` is written outside RSAKey.decrypt or not from the "
                  "key's current private exponent: keys whose numbers are filled in after construction "
                  "(generate) or copied would answer invalid ciphertexts with a message that is predictable "
                  "or differs between equal keys", fi.loc(n))
    g = ctx.an.cfg(dec)
    uses = [n for n in g.nodes if n.kind == "stmt" and isinstance(n.ast, ast.Assign)
            and isinstance(n.ast.value, ast.Call) and call_name(n.ast.value) == "secureHMAC"
            and [norm(a) for a in n.ast.value.args[:2]] == ["self._key_hash", "encBytes"]]
    ctx.check(R, len(uses) == 1 and derived == 1, dec.qname, "kdk = HMAC(_key_hash, ciphertext)",
              "the key-derivation key of the synthetic message must be the HMAC of the per-key secret over the "
              "ciphertext", dec.loc(uses[0].ast) if uses else dec.loc())
    if uses:
        # on every path to the HMAC the secret is non-empty: either just derived or tested truthy
        sets = [n for n in g.nodes if n.kind == "stmt" and isinstance(n.ast, ast.Assign)
                and any(attr_chain(t) == "self._key_hash" for t in n.ast.targets)]
        from ..query import falsy_edges, truthy_edges
        seen = g.reach([g.entry], blocked=sets, cut=truthy_edges(g, "self._key_hash"))
        ctx.check(R, uses[0].id not in seen, dec.qname, "secret derived on every path on which it is still unset",
                  "decrypt can reach the HMAC with `_key_hash` unset/empty", dec.loc(uses[0].ast))


def rule_public_fail(ctx):
    """PUBLIC-FAIL: the only failure decrypt() reports is `None` for a publicly invalid ciphertext: every
    exception an implementation of the raw private-key operation can raise (explicit-raise summary,
    all RSAKey subclasses) is of a class the handler around its call in decrypt() catches, and that
    handler returns None."""
    R = "C11.PUBLIC-FAIL"
    dec = ctx.index.func("utils.rsakey:RSAKey.decrypt")
    g = ctx.an.cfg(dec)
    call = [n for n in g.nodes if n.ast is not None and n.kind == "stmt"
            and any(call_name(c) == "_raw_private_key_op_bytes" for c in calls_in(n.ast))]
    if not call:
        raise AnalysisError("C11.PUBLIC-FAIL: raw private key operation call not found in decrypt")
    caught = []
    for (tr, h, hn) in g.handlers:
        if any(any(x is call[0].ast for x in ast.walk(b)) for b in tr.body):
            body = [norm(b) for b in h.body if not (isinstance(b, ast.Expr) and isinstance(b.value, ast.Constant))]
            if body == ["return None"]:
                caught += [norm(t) for t in (h.type.elts if isinstance(h.type, ast.Tuple) else [h.type])] if h.type is not None else ["BaseException"]
    ctx.check(R, bool(caught), dec.qname, "handler around the raw operation returns None",
              "decrypt() must turn a failure of the raw private-key operation into `return None`", dec.loc(call[0].ast))
    impls = [m for c in [ctx.index.cls("utils.rsakey:RSAKey")] + ctx.index.cls("utils.rsakey:RSAKey").descendants()
             for m in c.methods.values() if m.name in ("_raw_private_key_op_bytes", "_rawPrivateKeyOp")]
    ctx.require(len(impls) >= 2, "C11.PUBLIC-FAIL: implementations of the raw private key operation not found")
    for m in impls:
        for e in sorted(ctx.an.raises(m)):
            if e == "NotImplementedError":
                ctx.exempt(R, "%s: NotImplementedError" % m.short, "abstract-method marker of the base class; "
                           "every concrete key class overrides _rawPrivateKeyOp")
                continue
            ok = any(g._is_sub(e, t) for t in caught)
            ctx.check(R, ok, m.qname, "%s raised by %s is caught by decrypt()" % (e, m.short),
                      "%s can raise %s, which the handler in RSAKey.decrypt (%s) does not catch: a ciphertext that "
                      "is merely out of range makes decrypt() raise instead of returning None, and the server "
                      "drops the connection at ClientKeyExchange without an alert - a distinguishable outcome"
                      % (m.short, e, ", ".join(caught) or "none"), m.loc())


def rule_ct_length(ctx):
    """CT-LENGTH: the private- and public-key operations accept exactly the encodings of the modulus'
    byte length.  A ciphertext with extra leading zero bytes has the same integer value but another
    encoding; the implicit-rejection key is derived from the bytes, so accepting it gives the attacker a
    second query with the same padding verdict and a different synthetic message - a padding oracle.
    The length gates are evaluated over sample lengths (condeval.outcomes; nothing is run)."""
    from .common import spec_rows, size_primitives
    R = "C11.CT-LENGTH"
    prims = size_primitives(ctx)
    N = (1 << 2047) | 12345
    n = 0
    for q, arg in (("utils.rsakey:RSAKey._raw_private_key_op_bytes", "message"),
                   ("utils.rsakey:RSAKey._raw_public_key_op_bytes", "ciphertext")):
        if not ctx.index.has_func(q):
            continue
        n += 1
        spec_rows(ctx, R, q, [
            dict(what="%s: only encodings of exactly the modulus length are processed" % q.split(".")[-1],
                 dom={arg: [bytes(255), bytes(256), b"\x00" + bytes(256), bytes(300)]},
                 env={"self.n": N, "n": N, "__calls__": prims, "__bytes__": True},
                 abort=lambda e, arg=arg: len(e[arg]) != 256,
                 msg="a value whose encoding is shorter or LONGER than the modulus (256 bytes here) must be "
                     "refused before the key operation")])
    if n < 1:
        raise AnalysisError("%s: raw key operations of RSAKey not found" % R)


RULES = [
    ("C11.CT-LENGTH", "quick", rule_ct_length),
    ("C11.PUBLIC-FAIL", "quick", rule_public_fail),
    ("C11.KEYHASH", "quick", rule_keyhash),
    ("C11.TAINT", "quick", rule_taint),
    ("C11.HEADER", "quick", rule_header),
    ("C11.NO-SIGNAL", "quick", rule_no_signal),
    ("C11.NO-HANDLER", "quick", rule_no_handler),
    ("C11.LOCKSET-RSA", "quick", borrowed("c18", "rule_lockset", "C18.LOCKSET", "C11.LOCKSET", only="utils.python_rsakey:Python_RSAKey")),
]
