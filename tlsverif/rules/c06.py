"""C06 - handshake messages are accepted only in protocol order; no renegotiation."""
import ast

from ..index import AnalysisError, attr_chain, norm, own_nodes
from ..query import calls_in, call_name, is_value_yield, lines, falsy_edges, assigns
from ..flow import reaching_defs
from ..condeval import check_cond
from .common import borrowed
from .common import (TLSCONN, TLSREC, nodes_with_call, consumes_of, getmsg_nodes, dead_edge_labels,
                     effective_tests, must_pass, senderror_desc, rule_consume)
from . import c20

EXPLANATION = (
    "Structural rules on the receive gate and on the coroutines that call it. GETMSG: in _getMsg "
    "every path to the parse dispatch passes the effective content-type and handshake-type gates, "
    "the TLS 1.3 interleaving and key-change-alignment gates are effective and mean what RFC 8446 "
    "5.1 says (Defragmenter.is_empty is true only when every buffer is empty), and every handshake "
    "type any call site asks for has a dispatch arm. ARGS: all _getMsg call sites pass compile-time "
    "constant content types and HandshakeType members (locals resolved through reaching "
    "definitions). CCS: receive CCS -> switch read state -> receive Finished, and send CCS -> switch "
    "write state -> send Finished on all paths; TLS 1.3 state switches are preceded by the matching "
    "key calculation. RENEG: _handshakeStart refuses unless closed, the renegotiation arm answers "
    "no_renegotiation and never yields the message, only _handshakeDone re-opens the connection and "
    "both TLS 1.3 flows clear the middlebox-CCS tolerance unconditionally before completion. SUITE: "
    "per-suite message expectations of the client (reused from C20.KX). CONSUME: every generator call "
    "(including every _sendError) is iterated.")
NOT_DECIDED = ("the full accepted language of each role (design item C06.NFA is not built); "
               "data-dependent requirements on message contents; alert descriptions in general")
TECHNIQUE = "CFG must-pass-through / ordering queries, constant-argument resolution by reaching definitions, finite-domain guard evaluation"


def rule_getmsg(ctx):
    R = "C06.GETMSG"
    fi = ctx.index.func(TLSREC + "_getMsg")
    g = ctx.an.cfg(fi)
    parse_yields = [n for n in g.nodes if is_value_yield(n) and ".parse(p)" in norm(n.ast)]
    hs_yields = [n for n in parse_yields if not any(k in norm(n.ast) for k in
                                                    ("ChangeCipherSpec()", "Alert()", "ApplicationData()"))]
    ctx.require(len(hs_yields) >= 14, "C06.GETMSG: handshake dispatch not recognised")
    rec = consumes_of(g, "_getNextRecord")
    if not rec:
        raise AnalysisError("C06.GETMSG: _getNextRecord consumption not found")
    # content type gate
    ct = [t for t in g.nodes if t.kind == "test" and norm(t.expr) == "recordHeader.type not in expectedType"]
    # inside that arm, everything that is not alert / renegotiation / heartbeat reaches _sendError
    okct = False
    if ct:
        tb = g.reach(g.succ_on(ct[0], "T"), blocked=rec, follow_exc=False)
        okct = not any(y.id in tb for y in parse_yields)
    ctx.check(R, okct, fi.qname, "unexpected content type never reaches the parse dispatch",
              "a record whose content type is not in expectedType can reach the parse dispatch", fi.loc())
    must_pass(ctx, R, fi, g, rec, parse_yields, ct, "content-type gate before the dispatch",
              "_getMsg can dispatch a record without checking its content type against expectedType")
    st = [t for t in g.nodes if t.kind == "test" and norm(t.expr) == "subType not in secondaryType"]
    eff = [t for t in st if "T" in dead_edge_labels(g, t, hs_yields)]
    cut = set()
    for t in g.nodes:
        if t.kind == "test" and norm(t.expr) == "recordHeader.ssl2":
            cut.add((t.id, "T"))       # the SSLv2 ClientHello arm has its own two gates
    must_pass(ctx, R, fi, g, rec, hs_yields, eff, "handshake-type gate before the dispatch",
              "_getMsg can hand over a handshake message whose type is not in secondaryType", cut=cut)
    ssl2 = [t for t in g.nodes if t.kind == "test" and norm(t.expr) in (
        "subType != HandshakeType.client_hello", "HandshakeType.client_hello not in secondaryType")]
    eff2 = [t for t in ssl2 if "T" in dead_edge_labels(g, t, hs_yields)]
    ctx.check(R, len(eff2) == 2, fi.qname, "SSLv2 record arm admits only an expected ClientHello",
              "the SSLv2-record arm must refuse anything but a ClientHello that the caller expects", fi.loc())
    # TLS 1.3 interleaving and alignment gates
    il = [t for t in g.nodes if t.kind == "test" and "self._defragmenter.buffers[ContentType.handshake]" in norm(t.expr)]
    effil = [t for t in il if "T" in dead_edge_labels(g, t, parse_yields)]
    if effil:
        check_cond(ctx, R, fi, effil[0].ast, effil[0].expr,
                   {"self.version": [(3, 3), (3, 4)], "recordHeader.type": [22, 23],
                    "ContentType.handshake": [22],
                    "self._defragmenter.buffers[ContentType.handshake]": [b"", b"x"]},
                   lambda e: e["self.version"] > (3, 3) and e["recordHeader.type"] != 22 and
                   bool(e["self._defragmenter.buffers[ContentType.handshake]"]),
                   "TLS 1.3 no-interleaving gate",
                   "in TLS 1.3 a non-handshake record while a handshake message is partially buffered must be refused")
    else:
        ctx.fail(R, fi.qname, "TLS 1.3 no-interleaving gate", "the gate refusing non-handshake records "
                 "between fragments of a handshake message is missing or not effective", fi.loc())
    al = [t for t in g.nodes if t.kind == "test" and "self._defragmenter.is_empty()" in norm(t.expr)]
    effal = [t for t in al if "T" in dead_edge_labels(g, t, hs_yields)]
    if effal:
        hts = {"HandshakeType.client_hello": 1, "HandshakeType.end_of_early_data": 5,
               "HandshakeType.server_hello": 2, "HandshakeType.finished": 20, "HandshakeType.key_update": 24}
        dom = {k: [v] for k, v in hts.items()}
        dom.update({"self.version": [(3, 3), (3, 4)], "subType": [1, 2, 5, 11, 20, 24],
                    "self._defragmenter.is_empty()": [True, False]})
        # the meaning of the gate is decided by the C06.RECORD-GATES row (which follows locals the
        # condition may be built from); here: it is on every dispatch path
        must_pass(ctx, R, fi, g, rec, hs_yields, effal, "alignment gate on every handshake dispatch path",
                  "a handshake message can be dispatched without the key-change alignment check", cut=cut)
    else:
        ctx.fail(R, fi.qname, "TLS 1.3 key-change alignment gate", "gate missing or not effective", fi.loc())
    # is_empty means: every buffer empty
    ie = ctx.index.func("defragmenter:Defragmenter.is_empty")
    ret = [x for x in own_nodes(ie.node) if isinstance(x, ast.Return)]
    # decided by evaluating the method's body over small buffer tables (nothing is run)
    from ..condeval import _call, Rec, Unknown
    ok = True
    try:
        for bufs in ({}, {20: b"", 21: b"", 22: b""}, {20: b"", 21: b"x", 22: b""}, {20: b"\x01", 21: b"", 22: b""},
                     {20: b"", 21: b"", 22: b"\x0b\x00"}, {20: b"a", 21: b"b", 22: b"c"}):
            got = _call(ie, [Rec(buffers=bufs)], {"__index__": ctx.index})
            if bool(got) != all(not v for v in bufs.values()):
                ok = False
    except (Unknown, TypeError, AttributeError):
        ok = False
    ctx.check(R, ok, ie.qname, "is_empty() is true only when every buffer is empty",
              "Defragmenter.is_empty must report pending bytes of any content type (a partial message "
              "counts); it returns `%s`" % (norm(ret[0].value) if ret else "?"), ie.loc())
    # middlebox CCS arm (TLS 1.3): tolerated only while _middlebox_compat_mode
    mb = [t for t in g.nodes if t.kind == "test" and "self._middlebox_compat_mode" in norm(t.expr)]
    if mb:
        check_cond(ctx, R, fi, mb[0].ast, mb[0].expr,
                   {"self.version": [(3, 3), (3, 4)], "ContentType.handshake in expectedType": [True, False],
                    "self._middlebox_compat_mode": [True, False], "recordHeader.type": [20, 22],
                    "ContentType.change_cipher_spec": [20]},
                   lambda e: e["self.version"] > (3, 3) and e["ContentType.handshake in expectedType"]
                   and e["self._middlebox_compat_mode"] and e["recordHeader.type"] == 20,
                   "compatibility CCS tolerated only in TLS 1.3 handshakes while the flag is set",
                   "a ChangeCipherSpec record may be ignored only during a TLS 1.3 handshake in middlebox "
                   "compatibility mode")
    else:
        ctx.fail(R, fi.qname, "middlebox CCS arm", "arm not found", fi.loc())
    # dispatch covers every handshake type any caller asks for
    arms = set()
    for t in g.nodes:
        if t.kind == "test" and isinstance(t.expr, ast.Compare) and norm(t.expr.left) == "subType" and \
                isinstance(t.expr.ops[0], ast.Eq):
            c = attr_chain(t.expr.comparators[0])
            if c and c.startswith("HandshakeType."):
                arms.add(c.split(".")[1])
    asked = ctx.__dict__.setdefault("c06_asked", None)
    if asked is None:
        asked = _asked_types(ctx)
        ctx.c06_asked = asked
    missing = sorted(t for t in asked if t not in arms)
    ctx.check(R, not missing, fi.qname, "dispatch arm for every requested handshake type",
              "call sites ask _getMsg for %s but the dispatch has no arm (AssertionError)" % missing, fi.loc())
    ctx.info["dispatch_arms"] = sorted(arms)
    ctx.info["requested_types"] = sorted(asked)


def _const_types(ctx, fi, g, node, expr, depth=0):
    """set of 'ContentType.x'/'HandshakeType.x'/'CertificateType.x' named by expr, resolving
    locals by reaching definitions; None if not constant."""
    if depth > 4:
        return None
    if isinstance(expr, ast.Attribute):
        c = attr_chain(expr)
        if c and c.split(".")[0] in ("ContentType", "HandshakeType", "CertificateType"):
            return {c}
        return None
    if isinstance(expr, (ast.Tuple, ast.List)):
        out = set()
        for e in expr.elts:
            r = _const_types(ctx, fi, g, node, e, depth + 1)
            if r is None:
                return None
            out |= r
        return out
    if isinstance(expr, ast.Constant) and expr.value is None:
        return set()
    if isinstance(expr, ast.Name):
        defs = reaching_defs(g, node, expr.id)
        if not defs:
            return None
        out = set()
        for d in defs:
            if d.kind == "stmt" and isinstance(d.ast, ast.Assign):
                r = _const_types(ctx, fi, g, d, d.ast.value, depth + 1)
                if r is None:
                    return None
                out |= r
            else:
                return None
        return out
    return None


def _asked_types(ctx):
    asked = set()
    for fi in ctx.index.all_functions():
        if fi.module.name not in ("tlsconnection", "tlsrecordlayer"):
            continue
        g = ctx.an.cfg(fi)
        for n in consumes_of(g, "_getMsg"):
            if len(n.call.args) >= 2:
                r = _const_types(ctx, fi, g, n, n.call.args[1])
                if r:
                    asked |= {x.split(".")[1] for x in r if x.startswith("HandshakeType.")}
    return asked


def rule_args(ctx):
    R = "C06.ARGS"
    sites = 0
    for fi in ctx.index.all_functions():
        if fi.module.name not in ("tlsconnection", "tlsrecordlayer"):
            continue
        g = ctx.an.cfg(fi)
        for n in consumes_of(g, "_getMsg"):
            sites += 1
            args = n.call.args
            ct = _const_types(ctx, fi, g, n, args[0]) if args else None
            okct = ct is not None and ct and all(x.startswith("ContentType.") for x in ct)
            if fi.name == "readAsync":
                okct = ct is not None     # allowedTypes chosen from two constant alternatives
            ctx.check(R, okct, fi.qname, "content types of " + norm(n.call)[:70],
                      "_getMsg is called with content types that are not compile-time constants",
                      fi.loc(n.ast), what="%s ct %d" % (fi.short, n.line))
            if ct and "ContentType.handshake" in ct:
                ht = _const_types(ctx, fi, g, n, args[1]) if len(args) >= 2 else None
                okht = ht is not None and ht and all(x.startswith("HandshakeType.") for x in ht)
                ctx.check(R, okht, fi.qname, "handshake types of " + norm(n.call)[:70],
                          "_getMsg expects handshake content but the admitted handshake types are not a "
                          "constant set of HandshakeType members (anything could be admitted)",
                          fi.loc(n.ast), what="%s ht %d" % (fi.short, n.line))
    ctx.require(sites >= 28, "C06.ARGS: %d _getMsg call sites, confirmed floor 28" % sites)


def rule_ccs(ctx):
    R = "C06.CCS"
    fi = ctx.index.func(TLSCONN + "_getFinished")
    g = ctx.an.cfg(fi)
    ccs = [n for n in consumes_of(g, "_getMsg") if "ContentType.change_cipher_spec" in norm(n.call)]
    fin = getmsg_nodes(g, hs_type="finished")
    rs = nodes_with_call(g, "_changeReadState")
    if not ccs or not fin or not rs:
        raise AnalysisError("C06.CCS: _getFinished anchors not found")
    must_pass(ctx, R, fi, g, [g.entry], fin, rs, "read state switched before Finished is received",
              "the peer's Finished can be received without switching to the pending read state",
              start_after=False)
    must_pass(ctx, R, fi, g, [g.entry], rs, ccs, "ChangeCipherSpec received before the read state switch",
              "the read state is switched without having received ChangeCipherSpec", start_after=False)
    # the first receive admits CCS or NewSessionTicket only; if a ticket came, a CCS must follow
    first = ccs[0]
    flag = [t for t in g.nodes if t.kind == "test" and norm(t.expr) == "expect_ccs_message"]
    typ = [t for t in g.nodes if t.kind == "test" and isinstance(t.expr, ast.Compare) and len(t.expr.ops) == 1
           and isinstance(t.expr.ops[0], ast.NotEq) and isinstance(t.expr.left, ast.Attribute)
           and t.expr.left.attr == "type" and norm(t.expr.comparators[0]) == "1"]
    efft = [t for t in typ if "T" in dead_edge_labels(g, t, rs)]
    ctx.require(bool(typ), "C06.CCS: ChangeCipherSpec type check not found in _getFinished")
    # every ChangeCipherSpec receive reaches the read-state switch only through an effective type gate
    # every receive of _getFinished happens at most once per call (a loop would accept duplicates)
    for c in consumes_of(g, "_getMsg"):
        again = c.id in g.reach([m for m in g.normal_succ(c) if m is not c], follow_exc=False)
        ctx.check(R, not again, fi.qname, "receive #%d is not repeated" % c.line,
                  "_getFinished can receive the same kind of message again in a loop: a duplicated "
                  "NewSessionTicket / ChangeCipherSpec / Finished would be accepted instead of aborting",
                  fi.loc(c.ast) if c.ast is not None else fi.loc())
    from .common import reach_flagged
    for c in ccs:
        seen = reach_flagged(g, g.normal_succ(c), blocked=efft + [x for x in ccs if x is not c])
        ctx.check(R, not any(r.id in seen for r in rs), fi.qname,
                  "ChangeCipherSpec type checked before the read state switch (#%d)" % c.line,
                  "a ChangeCipherSpec whose type is not 1 must abort", fi.loc(c.ast) if c.ast is not None else fi.loc())
    # after a NewSessionTicket the path to the state switch passes the second CCS receive
    nst = [n for n in g.nodes if n.kind == "stmt" and norm(n.ast) == "session_ticket = result"]
    if nst and len(ccs) >= 2:
        from ..query import flag_cuts_from
        cut = flag_cuts_from(g, nst, "expect_ccs_message")
        must_pass(ctx, R, fi, g, nst, rs, ccs[1:], "CCS still required after a NewSessionTicket",
                  "after a NewSessionTicket the read state can be switched without ChangeCipherSpec", cut=cut)
    fs = ctx.index.func(TLSCONN + "_sendFinished")
    gs = ctx.an.cfg(fs)
    sccs = [n for n in consumes_of(gs, "_sendMsg") if "ChangeCipherSpec()" in norm(n.call)]
    ws = nodes_with_call(gs, "_changeWriteState")
    from .common import resolved_text as _rt
    sfin = [n for n in consumes_of(gs, "_sendMsg") if n.call.args and "Finished(" in _rt(fs.node, n.call.args[0])
            and "ChangeCipherSpec(" not in _rt(fs.node, n.call.args[0])]
    if not sccs or not ws or not sfin:
        raise AnalysisError("C06.CCS: _sendFinished anchors not found")
    must_pass(ctx, R, fs, gs, [gs.entry], ws, sccs, "CCS sent before the write state switch",
              "the write state is switched before ChangeCipherSpec is sent", start_after=False)
    must_pass(ctx, R, fs, gs, [gs.entry], sfin, ws, "write state switched before Finished is sent",
              "Finished can be sent under the old write state", start_after=False)
    # TLS 1.3: each state switch preceded by a key calculation since the previous switch
    for q in (TLSCONN + "_clientTLS13Handshake", TLSCONN + "_serverTLS13Handshake"):
        f = ctx.index.func(q)
        gg = ctx.an.cfg(f)
        calc = nodes_with_call(gg, "calcTLS1_3PendingState")
        sw = nodes_with_call(gg, "_changeReadState") + nodes_with_call(gg, "_changeWriteState")
        ctx.require(len(calc) >= 2 and len(sw) >= 4, "C06.CCS: TLS 1.3 key switch anchors not found in " + q)
        for s in sw:
            seen = gg.reach([gg.entry], blocked=calc)
            ctx.check(R, s.id not in seen, f.qname, "%s preceded by calcTLS1_3PendingState" % norm(s.ast),
                      "a TLS 1.3 state switch is reachable before any traffic keys were calculated",
                      f.loc(s.ast), what="%s %s #%d" % (f.short, norm(s.ast), s.line))
        # between two switches of the SAME direction there is a key calculation
        for nm in ("_changeReadState", "_changeWriteState"):
            ss = nodes_with_call(gg, nm)
            for a in ss:
                seen = gg.reach(gg.normal_succ(a), blocked=calc)
                again = [b for b in ss if b.id in seen and b is not a]
                ctx.check(R, not again, f.qname, "%s twice needs new keys in between (#%d)" % (nm, a.line),
                          "the same direction's state is switched twice without calculating new keys "
                          "(the second switch would install an empty state)", f.loc(a.ast))


def rule_reneg(ctx):
    R = "C06.RENEG"
    fi = ctx.index.func(TLSREC + "_handshakeStart")
    g = ctx.an.cfg(fi)
    tests = [t for t in g.nodes if t.kind == "test" and norm(t.expr) == "not self.closed"]
    eff = [t for t in tests if "T" in dead_edge_labels(g, t, [g.exit])]
    must_pass(ctx, R, fi, g, [g.entry], [g.exit], eff, "_handshakeStart refuses an open connection",
              "a second handshake can be started on an open connection (renegotiation)", start_after=False)
    # every handshake entry coroutine calls _handshakeStart before any message
    for q in (TLSCONN + "_handshakeClientAsyncHelper", TLSCONN + "_handshakeServerAsyncHelper"):
        f = ctx.index.func(q)
        gg = ctx.an.cfg(f)
        hs = nodes_with_call(gg, "_handshakeStart")
        io = [n for n in gg.nodes if n.kind in ("consume", "noreturn")]
        ctx.require(bool(hs), "C06.RENEG: _handshakeStart call missing in " + q)
        if hs:
            seen = gg.reach([gg.entry], blocked=hs)
            early = [n for n in io if n.id in seen]
            ctx.check(R, not early, f.qname, "_handshakeStart precedes all handshake I/O",
                      "handshake messages can be exchanged before _handshakeStart's renegotiation gate",
                      f.loc(early[0].ast) if early else f.loc())
    fm = ctx.index.func(TLSREC + "_getMsg")
    gm = ctx.an.cfg(fm)
    # the test guarding the no_renegotiation answer (whatever the renegotiation condition is called)
    al_ = [n for n in gm.nodes if n.kind == "stmt" and "AlertDescription.no_renegotiation" in norm(n.ast)]
    t = [x for x in gm.nodes if x.kind == "test" and "self.session" in norm(x.expr) and al_
         and any(a.id in gm.reach(gm.succ_on(x, "T"), follow_exc=False) for a in al_)
         and not any(a.id in gm.reach(gm.succ_on(x, "F"), blocked=consumes_of(gm, "_getNextRecord"), follow_exc=False) for a in al_)]
    t = sorted(t, key=lambda x: -x.line)[:1]
    ok = False
    if t:
        seen = gm.reach(gm.succ_on(t[0], "T"), follow_exc=False)
        sends = [n for n in consumes_of(gm, "_sendMsg") if n.id in seen]
        al = [n for n in gm.nodes if n.id in seen and n.kind == "stmt" and "no_renegotiation" in norm(n.ast)]
        conts = [n for n in gm.nodes if n.id in seen and n.kind == "continue"]
        # from the arm, no parse yield reachable without reading the next record
        rec = consumes_of(gm, "_getNextRecord")
        leak = gm.reach(gm.succ_on(t[0], "T"), blocked=rec, follow_exc=False)
        ok = bool(sends) and bool(al) and bool(conts) and not any(
            is_value_yield(n) and n.id in leak for n in gm.nodes)
    ctx.check(R, ok, fm.qname, "renegotiation attempt answered with no_renegotiation and discarded",
              "a HelloRequest / ClientHello received after the handshake must be answered with "
              "no_renegotiation and never be handed to the caller", fm.loc(t[0].ast) if t else fm.loc())
    # which messages count as a renegotiation attempt, by role (meaning row; nothing is run)
    from .common import spec_rows
    spec_rows(ctx, R, TLSREC + "_getMsg", [
        dict(what="renegotiation triggers: hello_request on clients, client_hello on servers, once a session exists",
             dom={"ContentType.handshake": [22], "ContentType.change_cipher_spec": [20], "ContentType.alert": [21],
                  "ContentType.application_data": [23], "ContentType.heartbeat": [24],
                  "recordHeader.type": [22], "recordHeader.type not in expectedType": [True],
                  "self.version": [(3, 3)], "self._middlebox_compat_mode": [False],
                  "self._defragmenter.buffers[ContentType.handshake]": [b""],
                  "HandshakeType.hello_request": [0], "HandshakeType.client_hello": [1],
                  "self._client": [True, False], "subType": [0, 1, 2], "self.session": [True, None]},
             abort=lambda e: not (e["self.session"] and e["subType"] == (0 if e["self._client"] else 1)),
             effects={"no_renegotiation warning": (
                 lambda st_: "AlertDescription.no_renegotiation" in norm(st_),
                 lambda e: bool(e["self.session"]) and e["subType"] == (0 if e["self._client"] else 1))},
             msg="renegotiation detection must recognise hello_request on clients and client_hello on servers "
                 "(answered with a no_renegotiation warning); any other unexpected handshake record aborts")])
    # middlebox tolerance cleared unconditionally before completion in both TLS 1.3 flows
    for q in (TLSCONN + "_clientTLS13Handshake", TLSCONN + "_serverTLS13Handshake"):
        f = ctx.index.func(q)
        gg = ctx.an.cfg(f)
        clr = [n for n in gg.nodes if n.kind == "stmt" and norm(n.ast) == "self._middlebox_compat_mode = False"]
        done = [n for n in gg.nodes if is_value_yield(n)]
        must_pass(ctx, R, f, gg, [gg.entry], done, clr, "middlebox CCS tolerance cleared before completion",
                  "a TLS 1.3 handshake can complete with _middlebox_compat_mode still set: plaintext "
                  "ChangeCipherSpec records would be silently ignored after the handshake",
                  start_after=False)
    n_w = 0
    for f in ctx.index.all_functions():
        for x in own_nodes(f.node):
            if isinstance(x, ast.Assign) and any(attr_chain(t) == "self._middlebox_compat_mode" for t in x.targets):
                n_w += 1
                v = norm(x.value)
                ok = (f.name == "__init__" and v == "True") or (f.name.endswith("TLS13Handshake") and v == "False")
                ctx.check(R, ok, f.qname, x, "_middlebox_compat_mode written outside __init__ / the TLS 1.3 flows",
                          f.loc(x))
    ctx.require(n_w >= 3, "C06.RENEG: writes of _middlebox_compat_mode not found")


def rule_suite_messages(ctx):
    """which messages the client expects for which suite (skipped/extra messages)."""
    # reuse the per-suite walk of C20.KX on _clientKeyExchange; findings are re-labelled
    sub = type(ctx)("C06", ctx.tier, ctx.index, ctx.an)
    c20.rule_kx(sub)
    R = "C06.SUITE"
    n = 0
    for f in sub.findings:
        if "_clientKeyExchange" in f.func:
            ctx.fail(R, f.func, f.stmt, f.msg, f.loc)
    for name, r in sub.rules.items():
        n += r["discharged"]
    for i in range(min(n, 400)):
        ctx.ok(R, "per-suite client message expectation #%d" % i)


def rule_consume_c06(ctx):
    rule_consume(ctx, "C06.CONSUME")


def rule_record_gates(ctx):
    """RECORD-GATES: meaning of the record-type checks of _getMsg and of the renegotiation_info checks
    on the initial ClientHello, over boundary values (condeval.outcomes; nothing is run)."""
    from .common import spec_rows
    R = "C06.RECORD-GATES"
    CT = {"ContentType.handshake": [22], "ContentType.change_cipher_spec": [20], "ContentType.alert": [21],
          "ContentType.application_data": [23]}

    def d(*ds):
        out = {}
        for x in ds:
            out.update(x)
        return out
    spec_rows(ctx, R, TLSREC + "_getMsg", [
        dict(what="TLS 1.3 compatibility ChangeCipherSpec must be the single byte 1",
             dom=d(CT, {"self.version": [(3, 4)], "ContentType.handshake in expectedType": [True],
                        "self._middlebox_compat_mode": [True], "recordHeader.type": [20], "ccs.type": [0, 1, 2]}),
             abort=lambda e: e["ccs.type"] != 1,
             msg="a TLS 1.3 middlebox-compatibility ChangeCipherSpec with another value is an unexpected message"),
        dict(what="TLS 1.3: no other record type while a handshake message is partially received",
             dom=d(CT, {"self.version": [(3, 3), (3, 4)], "ContentType.handshake in expectedType": [True],
                        "self._middlebox_compat_mode": [False], "recordHeader.type": [21, 22, 23],
                        "self._defragmenter.buffers[ContentType.handshake]": [b"", b"\x0b\x00"]}),
             abort=lambda e: e["self.version"] > (3, 3) and e["recordHeader.type"] != 22
             and bool(e["self._defragmenter.buffers[ContentType.handshake]"]),
             when=lambda e: e["self.version"] > (3, 3) or e["recordHeader.type"] == 22,
             msg="TLS 1.3 handshake messages must not be interleaved with records of another type"),
        dict(what="TLS 1.3 key-change messages end their record, for either role",
             dom=d(CT, {"HandshakeType.client_hello": [1], "HandshakeType.end_of_early_data": [5],
                        "HandshakeType.server_hello": [2], "HandshakeType.finished": [20],
                        "HandshakeType.key_update": [24], "self.version": [(3, 3), (3, 4)],
                        "subType": [1, 2, 5, 11, 20, 24], "self._defragmenter.is_empty()": [True, False],
                        "recordHeader.type": [22], "recordHeader.ssl2": [False], "subType not in secondaryType": [False],
                        "self._client": [True, False], "self._defragmenter.buffers[ContentType.handshake]": [b""],
                        "self._middlebox_compat_mode": [False]}),
             abort=lambda e: e["self.version"] > (3, 3) and e["subType"] in (1, 2, 5, 20, 24)
             and not e["self._defragmenter.is_empty()"],
             msg="ClientHello, EndOfEarlyData, ServerHello, Finished and KeyUpdate must end their record in TLS 1.3 "
                 "whichever side receives them (no data of the next epoch may share the record)"),
    ])
    for fn in ("_handshakeServerAsyncHelper", "_serverGetClientHello"):
        spec_rows(ctx, R, TLSCONN + fn, [
            dict(what="renegotiation_info of an initial ClientHello is empty",
                 dom={"renegoExt": [True], "renegoExt.renegotiated_connection": [b"", b"\x01"], "session": [True],
                      "clientHello.session_id": [b"s"], "sessionCache": [True], "version": [(3, 3)],
                      "result is None": [False]},
                 abort=lambda e: bool(e["renegoExt.renegotiated_connection"]),
                 msg="a ClientHello claiming to renegotiate (non-empty renegotiation_info) must be refused: "
                     "this implementation never renegotiates")])


def rule_alert_for_message(ctx):
    """ALERT-FOR-MSG: an alert record is accepted in the place of a handshake message only where the
    protocol allows it: the SSLv3 no_certificate alert instead of the client's Certificate.  Every
    `_getMsg` that lists ContentType.alert next to ContentType.handshake in the handshake functions is
    guarded by conditions that hold for version (3, 0) only (evaluated for each version)."""
    from ..condeval import ev, Unknown
    from .c02 import _guards
    R = "C06.ALERT-FOR-MSG"
    n = 0
    for fi in ctx.index.all_functions():
        if fi.module.name != "tlsconnection":
            continue
        for st in own_nodes(fi.node):
            if not (isinstance(st, ast.For) and isinstance(st.iter, ast.Call) and call_name(st.iter) == "_getMsg" and st.iter.args):
                continue
            first = st.iter.args[0]
            chains = {attr_chain(x) for x in ast.walk(first) if isinstance(x, ast.Attribute)}
            if not ({"ContentType.alert", "ContentType.handshake"} <= chains):
                continue
            n += 1
            guards = _guards(fi.node, st) or []
            allowed = []
            for ver in ((3, 0), (3, 1), (3, 2), (3, 3), (3, 4)):
                env = {"self.version": ver, "version": ver, "reqCert": True, "__index__": ctx.index}
                try:
                    ok = all(bool(ev(t_, dict(env))) == pol for t_, pol in guards)
                except (Unknown, TypeError):
                    ok = True           # a guard the row does not decide does not exclude the version
                if ok:
                    allowed.append(ver)
            ctx.check(R, allowed == [(3, 0)], fi.qname, st.iter,
                      "an alert is accepted in place of the expected handshake message for versions %s; only SSLv3 "
                      "(3, 0) knows the no_certificate alert - later versions must treat it as unexpected" % allowed,
                      fi.loc(st), what="%s: alert-for-message only in SSLv3" % fi.short)
    if n < 1:
        raise AnalysisError("%s: no _getMsg accepting an alert for a handshake message found (confirmed 1)" % R)


RULES = [
    ("C06.ALERT-FOR-MSG", "quick", rule_alert_for_message),
    ("C06.RECORD-GATES", "quick", rule_record_gates),
    ("C06.GETMSG", "quick", rule_getmsg),
    ("C06.ARGS", "quick", rule_args),
    ("C06.CCS", "quick", rule_ccs),
    ("C06.RENEG", "quick", rule_reneg),
    ("C06.SUITE", "quick", rule_suite_messages),
    ("C06.CONSUME", "quick", rule_consume_c06),
    ("C06.AUTH13", "quick", borrowed("c05", "rule_auth13", "C05.", "C06.")),
    ("C06.EARLY", "quick", borrowed("c02", "rule_early_snapshot", "C02.EARLY", "C06.EARLY")),
]
