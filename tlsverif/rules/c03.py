"""C03 - negotiated parameters lie inside both endpoints' policies (policy half)."""
import ast

from ..index import AnalysisError, attr_chain, norm, own_nodes
from ..query import calls_in, call_name, is_value_yield, lines, falsy_edges, mentions_all
from ..flow import reaching_defs
from ..condeval import check_cond
from .common import borrowed
from .common import (TLSCONN, TLSREC, nodes_with_call, consumes_of, getmsg_nodes, dead_edge_labels,
                     effective_tests, must_pass)
from . import c19, c20, c13

EXPLANATION = (
    "Policy-gate rules. SH-GATES: in _clientGetServerHello every path from the ServerHello to its "
    "acceptance passes effective gates on version (min, max/offered list), cipher suite (member of "
    "the offered suites filtered for the selected version), certificate type, compression, extended "
    "master secret requirement, ALPN (shape, offered, membership), session id echo (TLS 1.3), HRR "
    "suite consistency and record_size_limit range; presence-conditional gates are exempt only on "
    "the absent-extension edge. SRV-PICK: the server's suite is the first of ITS settings-derived "
    "list that the client offered (for/else loop with a membership test, raise on no match), the "
    "list derives from CipherSuite.get*Suites(settings, version) filtered for the version, and "
    "_filterSuites intersects MAC, cipher and key-exchange selections (table half: C20.POLICY). "
    "KEYPOLICY: _check_certchain_with_settings applies a settings gate on every certificate-type "
    "branch (catch-all key-size arm), and every use of a received chain's end-entity key is preceded "
    "by it (client <=1.2/1.3 via _clientGetKeyFromChain, server <=1.2, server 1.3). SESSION: "
    "Session.create stores every parameter, Session._clone copies every field. PROPAGATE: "
    "HandshakeSettings.validate copies every setting (C19.FIELDS). EXPORTER: both ends derive the "
    "TLS 1.3 exporter master secret at the same transcript position.")
NOT_DECIDED = ("equality of the two endpoints' views (needs two running endpoints), exporter output "
               "equality, that ALPN/SNI values agree, PHA client chains vs key-size policy (known finding)")
TECHNIQUE = "CFG must-pass-through with effective gates and presence-exempt edges; copy-completeness; sibling agreement"


def rule_suite_version(ctx):
    """the list the client checks the server's suite against is its own offer filtered for exactly the
    negotiated version: filterForVersion(clientHello.cipher_suites, v, v) with v the version that
    becomes self.version."""
    R = "C03.SH-GATES"
    fi = ctx.index.func(TLSCONN + "_clientGetServerHello")
    g = ctx.an.cfg(fi)
    gate = [t for t in g.nodes if t.kind == "test" and isinstance(t.expr, ast.Compare)
            and norm(t.expr.left) == "serverHello.cipher_suite" and isinstance(t.expr.ops[0], ast.NotIn)]
    if not gate:
        raise AnalysisError("C03.SH-GATES: ServerHello cipher suite membership gate not found")
    lst = t_name = norm(gate[0].expr.comparators[0])
    defs = reaching_defs(g, gate[0], lst)
    ver = [norm(n.ast.value) for n in g.nodes if n.kind == "stmt" and isinstance(n.ast, ast.Assign)
           and any(attr_chain(t) == "self.version" for t in n.ast.targets)]
    ok = bool(defs) and bool(ver)
    why = ""
    for d in defs:
        v = d.ast.value if isinstance(d.ast, ast.Assign) else None
        if not (isinstance(v, ast.Call) and call_name(v) == "filterForVersion"):
            ok, why = False, "it is `%s`" % (norm(v)[:60] if v is not None else "?")
            continue
        args = {k: norm(a) for k, a in zip(("suites", "minVersion", "maxVersion"), v.args)}
        args.update({k.arg: norm(k.value) for k in v.keywords})
        if args.get("suites") != "clientHello.cipher_suites":
            ok, why = False, "it filters `%s`, not the client's own offer" % args.get("suites")
        elif not (args.get("minVersion") == args.get("maxVersion") and args.get("minVersion") in ver):
            ok, why = False, ("it is filtered for versions %s..%s instead of exactly the negotiated version (%s)"
                              % (args.get("minVersion"), args.get("maxVersion"), ", ".join(sorted(set(ver)))))
    ctx.check(R, ok, fi.qname, "suite list = offered suites filtered for exactly the selected version",
              "the list the server's suite is checked against must be the client's own offer filtered for the "
              "selected version (a suite the client did not offer, or one not defined for the version, would "
              "pass): " + why, fi.loc(defs[0].ast) if defs and defs[0].ast is not None else fi.loc())


def rule_sh_gates(ctx):
    R = "C03.SH-GATES"
    fi = ctx.index.func(TLSCONN + "_clientGetServerHello")
    g = ctx.an.cfg(fi)
    sinks = [n for n in g.nodes if is_value_yield(n)]
    srcs = [n for n in g.nodes if n.kind == "stmt" and norm(n.ast) == "serverHello = result"]
    if not srcs or not sinks:
        raise AnalysisError("C03.SH-GATES: ServerHello binding or acceptance not found")
    table = [
        # what, predicate on normalised test text, presence condition (false edge exempt)
        ("version not below minVersion", lambda s: s == "real_version < settings.minVersion", None),
        ("version not above maxVersion / among offered versions",
         lambda s: s == "real_version > settings.maxVersion and real_version not in settings.versions", None),
        ("suite among the offered suites valid for the selected version",
         lambda s: s == "serverHello.cipher_suite not in cipherSuites", None),
        ("certificate type was offered", lambda s: s == "serverHello.certificate_type not in clientHello.certificate_types", None),
        ("no compression", lambda s: s == "serverHello.compression_method != 0", None),
        ("extended master secret when required",
         lambda s: s == "not serverHello.getExtension(ExtensionType.extended_master_secret) and settings.requireExtendedMasterSecret", None),
        ("TLS 1.3 session id echo", lambda s: s == "real_version > (3, 3) and serverHello.session_id != clientHello.session_id", None),
        ("ALPN: exactly one protocol", lambda s: s == "not alpnExt.protocol_names or len(alpnExt.protocol_names) != 1", "alpnExt"),
        ("ALPN: only if offered", lambda s: s == "not clntAlpnExt", "alpnExt"),
        ("ALPN: protocol among the offered", lambda s: s == "alpnExt.protocol_names[0] not in clntAlpnExt.protocol_names", "alpnExt"),
        ("record_size_limit well formed", lambda s: s == "size_limit_ext.record_size_limit is None", "size_limit_ext"),
        ("record_size_limit within 64..2**14", lambda s: s == "not 64 <= size_limit_ext.record_size_limit <= 2 ** 14", "size_limit_ext"),
        ("NPN only if offered", lambda s: s == "serverHello.next_protos and (not clientHello.supports_npn)", None),
    ]
    for what, pred, presence in table:
        tests = [t for t in g.nodes if t.kind == "test" and pred(norm(t.expr))]
        eff = [t for t in tests if "T" in dead_edge_labels(g, t, sinks)]
        cut = set()
        if presence:
            cut = falsy_edges(g, presence)
        must_pass(ctx, R, fi, g, srcs, sinks, eff, "ServerHello gate: " + what,
                  "the client accepts a ServerHello without the check: " + what, cut=cut)
    rule_suite_version(ctx)
    rv = [n for n in g.nodes if n.kind == "stmt" and isinstance(n.ast, ast.Assign) and
          any(attr_chain(t) == "real_version" for t in n.ast.targets)]
    ctx.check(R, len(rv) >= 1, fi.qname, "real_version from server_version / supported_versions",
              "the negotiated version must be taken from the ServerHello", fi.loc())
    # after acceptance the connection version is what was checked
    sv = [n for n in g.nodes if n.kind == "stmt" and norm(n.ast) in ("self.version = real_version",
                                                                    "self.version = serverHello.server_version")]
    ctx.check(R, bool(sv), fi.qname, "connection version := the checked version",
              "self.version must be set from the checked ServerHello version", fi.loc())


def rule_srv_pick(ctx):
    R = "C03.SRV-PICK"
    fi = ctx.index.func(TLSCONN + "_server_select_certificate")
    loops = [n for n in own_nodes(fi.node) if isinstance(n, ast.For) and norm(n.iter) == "ciphers"]
    ok = False
    if len(loops) == 1:
        lp = loops[0]
        ok = len(lp.body) == 1 and isinstance(lp.body[0], ast.If) and \
            norm(lp.body[0].test) == "cipher in client_hello.cipher_suites" and \
            isinstance(lp.body[0].body[0], ast.Break) and bool(lp.orelse) and \
            isinstance(lp.orelse[-1], ast.Raise)
    ctx.check(R, ok, fi.qname, "suite = first of the server's list that the client offered; none -> raise",
              "the server must pick the first suite of its own filtered list that is in the ClientHello and "
              "fail when there is none", fi.loc(loops[0]) if loops else fi.loc())
    defs = sorted([n for n in own_nodes(fi.node) if isinstance(n, ast.Assign) and norm(n.targets[0]) == "ciphers"],
                  key=lambda x: x.lineno)
    okd = bool(defs) and "filter_for_certificate(cipher_suites, cert)" in norm(defs[0].value) and \
        all("ciphers" in norm(d.value) or d is defs[0] for d in defs)
    ctx.check(R, okd, fi.qname, "candidate list derives from the server's settings-derived suites",
              "`ciphers` must derive from the server's cipher_suites filtered for the certificate", fi.loc())
    # the caller builds cipher_suites from settings and version
    sg = ctx.index.func(TLSCONN + "_serverGetClientHello")
    srcs = [norm(n) for n in own_nodes(sg.node) if isinstance(n, (ast.Assign, ast.AugAssign))
            and norm(n.targets[0] if isinstance(n, ast.Assign) else n.target) == "cipherSuites"]
    ok = any("CipherSuite.filterForVersion(cipherSuites, minVersion=version, maxVersion=version)" in s
             or "CipherSuite.filterForVersion(cipherSuites, version, version)" in s for s in srcs) \
        and sum(1 for s in srcs if "CipherSuite.get" in s and "(settings, version)" in s.replace("\n", "")) >= 6
    ctx.check(R, ok, sg.qname, "server suite list = get*Suites(settings, version) filtered for the version",
              "the server's suite list must be built from CipherSuite.get*Suites(settings, version) and "
              "filtered for the negotiated version", sg.loc())
    bad = [s for s in srcs if "CipherSuite.get" in s and "settings" not in s]
    ctx.check(R, not bad, sg.qname, "every suite family is filtered by the settings",
              "a suite family is added without the settings filter: %s" % bad, sg.loc())
    # get*Suites all go through _filterSuites
    cs = ctx.index.cls("constants:CipherSuite")
    n = 0
    for m in cs.methods.values():
        if m.name.startswith("get") and m.name.endswith("Suites"):
            n += 1
            ret = [x for x in own_nodes(m.node) if isinstance(x, ast.Return)]
            ok = len(ret) == 1 and call_name(ret[0].value) == "_filterSuites" and \
                [norm(a) for a in ret[0].value.args[1:]] == ["settings", "version"]
            ctx.check(R, ok, m.qname, "%s filters its family through _filterSuites(settings, version)" % m.name,
                      "%s must return _filterSuites(<family>, settings, version)" % m.name, m.loc())
    ctx.require(n >= 10, "C03.SRV-PICK: get*Suites methods not found")
    c20.rule_policy(_Relabel(ctx, "C20.POLICY", "C03.SRV-PICK"))


def rule_keypolicy(ctx):
    R = "C03.KEYPOLICY"
    fi = ctx.index.func(TLSCONN + "_check_certchain_with_settings")
    g = ctx.an.cfg(fi)
    ys = [n for n in g.nodes if is_value_yield(n)]
    tests = [t for t in g.nodes if t.kind == "test" and "settings." in norm(t.expr)]
    eff = [t for t in tests if dead_edge_labels(g, t, ys)]
    must_pass(ctx, R, fi, g, [g.entry], ys, eff, "every certificate type passes a settings gate",
              "_check_certchain_with_settings can return a key without having applied any limit from the "
              "settings (a certificate type falls through all branches): key size / curve policy is skipped",
              start_after=False)
    for frag, what in (("len(publicKey) < settings.minKeySize", "minKeySize"),
                       ("len(publicKey) > settings.maxKeySize", "maxKeySize")):
        t = [x for x in g.nodes if x.kind == "test" and norm(x.expr) == frag]
        ok = bool(t) and "T" in dead_edge_labels(g, t[0], ys)
        ctx.check(R, ok, fi.qname, "%s gate effective" % what, "the %s limit is not enforced" % what, fi.loc())
        if ok:
            # it must sit in the catch-all arm of the certificate-type chain
            par = None
            for n in own_nodes(fi.node):
                if isinstance(n, ast.If) and "cert_type" in norm(n.test):
                    cur = n
                    while len(cur.orelse) == 1 and isinstance(cur.orelse[0], ast.If):
                        cur = cur.orelse[0]
                    if any(x is t[0].ast for s in cur.orelse for x in ast.walk(s)):
                        par = cur
            ctx.check(R, par is not None, fi.qname, "%s gate in the catch-all arm" % what,
                      "the %s check must apply to every key type not handled by a dedicated branch (RSA, "
                      "RSA-PSS, DSA): it is no longer in the final else arm" % what, fi.loc(t[0].ast))
    # what each gate means, over boundary values (the function is walked, nothing is run)
    from .common import spec_rows
    C13 = ("secp256r1", "secp384r1", "secp521r1", "brainpoolP256r1", "brainpoolP384r1", "brainpoolP512r1")
    HASH = {"secp256r1": "sha256", "secp384r1": "sha384", "secp521r1": "sha512",
            "brainpoolP256r1": "sha256", "brainpoolP384r1": "sha384", "brainpoolP512r1": "sha512"}
    spec_rows(ctx, R, TLSCONN + "_check_certchain_with_settings", [
        dict(what="RSA/DSA key size within settings.minKeySize..maxKeySize",
             dom={"cert_type": ["rsa", "rsa-pss", "dsa"], "len(publicKey)": [1023, 1024, 2048, 4096, 4097],
                  "settings.minKeySize": [1024], "settings.maxKeySize": [4096]},
             abort=lambda e: not 1024 <= e["len(publicKey)"] <= 4096,
             msg="a peer key whose size is outside the settings' limits must be refused"),
        dict(what="ECDSA curve among settings.eccCurves in TLS <= 1.2",
             dom={"cert_type": ["ecdsa"], "curve_name": ["secp256r1", "secp384r1", "secp224r1"],
                  "self.version": [(3, 1), (3, 3)], "settings.eccCurves": [("secp256r1",), ("secp384r1", "secp256r1")]},
             abort=lambda e: e["curve_name"] not in e["settings.eccCurves"],
             msg="an ECDSA peer certificate on a curve the settings do not enable must be refused"),
        dict(what="ECDSA curve permitted by TLS 1.3 and its hash among settings.ecdsaSigHashes",
             dom={"cert_type": ["ecdsa"], "curve_name": list(C13) + ["secp224r1"], "self.version": [(3, 4)],
                  "settings.eccCurves": [()],
                  "settings.ecdsaSigHashes": [("sha256",), ("sha384",), ("sha512",), ("sha256", "sha384", "sha512")]},
             abort=lambda e: e["curve_name"] not in C13 or HASH[e["curve_name"]] not in e["settings.ecdsaSigHashes"],
             msg="in TLS 1.3 an ECDSA peer certificate must use a TLS 1.3 curve whose matching hash the settings enable"),
        dict(what="EdDSA certificate needs TLS >= 1.2 and its scheme in settings.more_sig_schemes",
             dom={"cert_type": ["Ed25519", "Ed448"], "self.version": [(3, 2), (3, 3), (3, 4)],
                  "settings.more_sig_schemes": [(), ("Ed25519",), ("Ed448", "Ed25519")]},
             abort=lambda e: e["self.version"] < (3, 3) or e["cert_type"] not in e["settings.more_sig_schemes"],
             msg="an EdDSA peer certificate must be refused below TLS 1.2 or when its scheme is not enabled"),
        dict(what="ML-DSA certificate needs TLS 1.3 and its scheme in settings.more_sig_schemes",
             dom={"cert_type": ["mldsa44", "mldsa65", "mldsa87"], "self.version": [(3, 3), (3, 4)],
                  "settings.more_sig_schemes": [(), ("mldsa44",), ("mldsa65", "mldsa87", "mldsa44")]},
             abort=lambda e: e["self.version"] < (3, 4) or e["cert_type"] not in e["settings.more_sig_schemes"],
             msg="an ML-DSA peer certificate must be refused below TLS 1.3 or when its scheme is not enabled"),
    ])
    # every use of a received chain's end-entity key is preceded by the policy check
    n_sites = 0
    for f in ctx.index.all_functions():
        if f.module.name not in ("tlsconnection", "tlsrecordlayer") or f.name == "_check_certchain_with_settings":
            continue
        gg = ctx.an.cfg(f)
        for n in gg.nodes:
            if n.expr is None or n.ast is None:
                continue
            for c in calls_in(n.expr):
                if call_name(c) == "getEndEntityPublicKey":
                    recv = attr_chain(c.func.value) or ""
                    received = any(k in recv for k in ("client_cert_chain", "clientCertChain", "cert.cert_chain",
                                                       "serverCertChain", "cert_chain"))
                    local = recv in ("cert_chain", "certChain", "self.session.serverCertChain") and \
                        f.name in ("_pickServerKeyExchangeSig", "_server_select_certificate", "_serverGetClientHello",
                                   "_handshakeServerAsyncHelper")
                    if not received or local:
                        continue
                    n_sites += 1
                    chk = [x for x in consumes_of(gg, "_check_certchain_with_settings")
                           if norm(x.call.args[0]) == recv]
                    seen = gg.reach([gg.entry], blocked=chk)
                    ctx.check(R, bool(chk) and n.id not in seen, f.qname, c,
                              "the end-entity key of a received certificate chain (%s) is used without running the "
                              "chain through _check_certchain_with_settings: minKeySize/maxKeySize and the enabled "
                              "curves/schemes of the settings are not applied to the peer's key" % recv,
                              f.loc(n.ast), what="%s %s" % (f.short, norm(c)))
    for q, callee in ((TLSCONN + "_clientGetKeyFromChain", "_check_certchain_with_settings"),
                      (TLSCONN + "_clientKeyExchange", "_clientGetKeyFromChain"),
                      (TLSCONN + "_clientTLS13Handshake", "_clientGetKeyFromChain"),
                      (TLSCONN + "_serverCertKeyExchange", "_check_certchain_with_settings"),
                      (TLSCONN + "_serverTLS13Handshake", "_check_certchain_with_settings")):
        f = ctx.index.func(q)
        gg = ctx.an.cfg(f)
        ctx.check(R, bool(consumes_of(gg, callee)), f.qname, "%s applies the key policy via %s" % (f.short, callee),
                  "%s no longer runs the peer's chain through %s" % (f.short, callee), f.loc())
    ctx.info["end_entity_key_uses_checked"] = n_sites


def rule_session(ctx):
    R = "C03.SESSION"
    cr = ctx.index.func("session:Session.create")
    params = [a.arg for a in cr.node.args.args[1:]]
    stored = {}
    for s in own_nodes(cr.node):
        if isinstance(s, ast.Assign):
            for t in s.targets:
                c = attr_chain(t)
                if c and c.startswith("self."):
                    stored[c[5:]] = norm(s.value)
    for p in params:
        ok = any(v == p or (p in v.split() or p in v) for v in stored.values())
        ctx.check(R, ok, cr.qname, "parameter %s is stored" % p, "Session.create drops its parameter %s" % p, cr.loc())
    for fld, v in stored.items():
        if v in params:
            ctx.check(R, v == fld or fld.lower() == v.lower(), cr.qname, "self.%s = %s" % (fld, v),
                      "Session.create stores parameter %s in field %s" % (v, fld), cr.loc())
    cl = ctx.index.func("session:Session._clone")
    init = ctx.index.func("session:Session.__init__")
    fields = set()
    for s in own_nodes(init.node):
        if isinstance(s, ast.Assign):
            for t in s.targets:
                c = attr_chain(t)
                if c and c.startswith("self."):
                    fields.add(c[5:])
    copied = {}
    for s in own_nodes(cl.node):
        if isinstance(s, ast.Assign):
            for t in s.targets:
                c = attr_chain(t)
                if c and c.startswith("other."):
                    copied[c[6:]] = norm(s.value)
    for f in sorted(fields):
        ctx.check(R, f in copied and ("self." + f) in copied[f], cl.qname, "clone copies " + f,
                  "Session._clone does not copy field %s from the original" % f, cl.loc())
    ctx.require(len(params) >= 15 and len(fields) >= 15, "C03.SESSION: Session fields not found")


def rule_propagate(ctx):
    c19.rule_fields(_Relabel(ctx, "C19.FIELDS", "C03.PROPAGATE"))


def rule_exporter(ctx):
    """both ends derive the exporter master secret over the same transcript prefix."""
    R = "C03.EXPORTER"
    pos = {}
    for q in (TLSCONN + "_clientTLS13Handshake", TLSCONN + "_serverTLS13Handshake"):
        fi = ctx.index.func(q)
        g = ctx.an.cfg(fi)
        ex = [n for n in g.nodes if n.kind == "stmt" and isinstance(n.ast, ast.Assign) and
              "b'exp master'" in norm(n.ast.value) and call_name(n.ast.value) == "derive_secret"]
        if len(ex) != 1:
            raise AnalysisError("C03.EXPORTER: exporter master secret derivation not found in " + q)
        tr = norm(ex[0].ast.value.args[2])
        # the transcript snapshot: which handshake events precede it on every path
        snap = ex[0]
        if tr != "self._handshake_hash":
            d = [n for n in g.nodes if n.kind == "stmt" and isinstance(n.ast, ast.Assign) and
                 norm(n.ast.targets[0]) == tr]
            if len(d) != 1 or "self._handshake_hash.copy()" not in norm(d[0].ast.value):
                raise AnalysisError("C03.EXPORTER: transcript argument %s not understood in %s" % (tr, q))
            snap = d[0]
        before = g.reach([g.entry], blocked=[snap], follow_exc=False)
        def count(kind, pred):
            return sum(1 for n in g.nodes if n.id in before and n.kind == kind and pred(n))
        role = "client" if "client" in q else "server"
        # events in the transcript before the snapshot, from this end's point of view
        recv_fin = any(n.id in before for n in getmsg_nodes(g, hs_type="finished"))
        sent_fin = any(n.id in before and n.kind == "stmt" and ("Finished(" in norm(n.ast) and ".create(" in norm(n.ast))
                       for n in g.nodes)
        recv_cert_verify = any(n.id in before for n in getmsg_nodes(g, hs_type="certificate_verify"))
        if role == "client":
            pos[role] = {"server Finished in transcript": recv_fin, "client Finished in transcript": sent_fin}
        else:
            queued = any(n.id in before and n.kind == "stmt" and "_queue_message(finished)" in norm(n.ast) for n in g.nodes)
            sent = any(n.id in before and n.kind in ("consume",) and "finished" in norm(n.call).lower() for n in g.nodes)
            pos[role] = {"server Finished in transcript": queued or sent, "client Finished in transcript": recv_fin}
            pos[role]["client Certificate/CertificateVerify in transcript"] = recv_cert_verify
        if role == "client":
            sent_cv = any(n.id in before and n.kind == "consume" and call_name(n.call) in ("_sendMsg", "_sendMsgs")
                          and ("certificate_verify" in norm(n.call) or "client_certificate" in norm(n.call))
                          for n in g.nodes)
            pos[role]["client Certificate/CertificateVerify in transcript"] = sent_cv
    ctx.info["exporter_transcript_position"] = pos
    for k in sorted(pos["client"]):
        ctx.check(R, pos["client"][k] == pos["server"].get(k), TLSCONN + "_serverTLS13Handshake",
                  "exporter master secret: %s on both ends alike" % k,
                  "client and server derive the exporter master secret over different transcripts (%s: client %s, "
                  "server %s): keyingMaterialExporter() would differ on the two ends" % (
                      k, pos["client"][k], pos["server"].get(k)))


class _Relabel(object):
    def __init__(self, ctx, old, new):
        self._c, self._o, self._n = ctx, old, new

    def __getattr__(self, k):
        return getattr(self._c, k)

    def _r(self, rule):
        return self._n if rule == self._o else rule

    def ok(self, rule, *a, **k):
        return self._c.ok(self._r(rule), *a, **k)

    def fail(self, rule, *a, **k):
        return self._c.fail(self._r(rule), *a, **k)

    def check(self, rule, *a, **k):
        return self._c.check(self._r(rule), *a, **k)

    def floor(self, rule, *a, **k):
        return self._c.floor(self._r(rule), *a, **k)

    def require(self, *a, **k):
        return self._c.require(*a, **k)


def rule_resume_policy(ctx):
    """a resumed session's suite must still be allowed by the current settings (C13.SRV-GATES)."""
    c13.rule_srv_gates(_Relabel(ctx, "C13.SRV-GATES", "C03.RESUME-POLICY"))


def rule_policy_rows(ctx):
    """POLICY: meaning of the policy checks made while negotiating, over boundary values
    (condeval.outcomes): extended master secret requirement, ALPN overlap, certificate type,
    unsolicited record_size_limit."""
    from .common import spec_rows
    R = "C03.POLICY"
    full = {"version": [(3, 3)], "result is None": [False]}

    def d(*ds):
        out = {}
        for x in ds:
            out.update(x)
        return out
    EMS = "clientHello.getExtension(ExtensionType.extended_master_secret)"
    spec_rows(ctx, R, TLSCONN + "_handshakeServerAsyncHelper", [
        dict(what="server: requireExtendedMasterSecret refuses a client without the extension",
             dom=d(full, {"settings.useExtendedMasterSecret": [True], EMS: [None, True],
                          "settings.requireExtendedMasterSecret": [True, False]}),
             abort=lambda e: not e[EMS] and e["settings.requireExtendedMasterSecret"],
             effects={"self.extendedMasterSecret = True": lambda e: bool(e[EMS])},
             msg="with requireExtendedMasterSecret a handshake without the extension must fail; EMS is used "
                 "exactly when the client offered it"),
        dict(what="server: ALPN needs a protocol both sides list",
             dom=d(full, {"alpnExt": [True], "alpn": [(b"h2",), (b"h2", b"http/1.1")],
                          "alpnExt.protocol_names": [(b"h2",), (b"x",), (b"x", b"http/1.1")]}),
             abort=lambda e: not set(e["alpn"]) & set(e["alpnExt.protocol_names"]),
             msg="when both sides use ALPN and share no protocol the handshake must fail"),
    ])
    spec_rows(ctx, R, TLSCONN + "_serverGetClientHello", [
        dict(what="server: certificate suites need a client that accepts X.509",
             dom={"cipherSuite": [47, 0xC02B, 0x1301], "CipherSuite.certAllSuites": [(47,)],
                  "CipherSuite.ecdheEcdsaSuites": [(0xC02B,)], "CertificateType.x509": [0],
                  "clientHello.certificate_types": [(0,), (1,), (1, 0)], "version": [(3, 3)]},
             abort=lambda e: e["cipherSuite"] in (47, 0xC02B) and 0 not in e["clientHello.certificate_types"],
             msg="a certificate-authenticated suite must not be used with a client that does not accept X.509"),
    ])
    spec_rows(ctx, R, TLSCONN + "_clientTLS13Handshake", [
        dict(what="client: record_size_limit from the server only if we offered it",
             dom={"size_limit_ext": [True, None], "settings.record_size_limit": [None, 2 ** 14 + 1],
                  "size_limit_ext.record_size_limit": [2 ** 14 + 1]},
             abort=lambda e: bool(e["size_limit_ext"]) and not e["settings.record_size_limit"],
             msg="a record_size_limit extension the client did not offer must be refused"),
    ])


def _validated_versions(ctx, versions, lo, hi):
    """What HandshakeSettings.validate() leaves in `versions` for minVersion=lo, maxVersion=hi: the
    methods validate() calls are walked in call order (condeval.outcomes, nothing is run) and every
    assignment to `<settings>.versions` met on the decided path is evaluated."""
    from ..condeval import outcomes, ev, Unknown
    val = ctx.index.func("handshakesettings:HandshakeSettings.validate")
    hs = ctx.index.cls("handshakesettings:HandshakeSettings")
    cur = tuple(versions)
    walked = 0
    for call in sorted(calls_in(val.node), key=lambda c: (c.lineno, c.col_offset)):
        nm = call_name(call)
        fi = hs.methods.get(nm) if nm else None
        if fi is None or fi.name == "__init__":
            continue
        def _tg(n):
            """`<s>.versions = ..` or the in-place `<s>.versions[:] = ..` -> the attribute node"""
            t = n.targets[0]
            if isinstance(t, ast.Subscript) and isinstance(t.slice, ast.Slice) and t.slice.lower is None \
                    and t.slice.upper is None:
                t = t.value
            return t
        stores = [n for n in own_nodes(fi.node) if isinstance(n, ast.Assign) and len(n.targets) == 1
                  and isinstance(_tg(n), ast.Attribute) and _tg(n).attr == "versions"
                  and isinstance(_tg(n).value, ast.Name)
                  and not (isinstance(n.value, ast.Attribute) and n.value.attr == "versions")]
        if not stores:
            continue
        base = _tg(stores[0]).value.id
        g = ctx.an.cfg(fi)
        env = {base + ".versions": cur, base + ".minVersion": lo, base + ".maxVersion": hi,
               "__index__": ctx.index, "__an__": ctx.an}
        got = []

        def visit(n, ve, taint, got=got, stores=stores):
            if n.ast in stores:
                try:
                    got.append((tuple(ev(n.ast.value, ve)), taint))
                except (Unknown, TypeError, AttributeError, KeyError, IndexError):
                    got.append((None, True))
        cache = {}

        def ao(t, g=g, cache=cache):
            if t.id not in cache:
                cache[t.id] = dead_edge_labels(g, t, [g.exit])
            return cache[t.id]
        outcomes(g, fi.node, env, ao, visit=visit)
        walked += 1
        if any(v is None or t for v, t in got):
            raise AnalysisError("C03.VERSION: cannot evaluate the assignment to %s.versions in %s"
                                % (base, fi.qname))
        if got:
            cur = got[-1][0]
    return cur, walked


def rule_version_range(ctx):
    """VERSION: the protocol version either side settles on lies inside its own minVersion..maxVersion.
    validate()'s effect on `versions` is computed first and fed into the server's selection."""
    from ..condeval import outcomes
    from .common import spec_rows
    R = "C03.VERSION"
    fi = ctx.index.func(TLSCONN + "_serverGetClientHello")
    g = ctx.an.cfg(fi)
    cache = {}

    def ao(t):
        if t.id not in cache:
            cache[t.id] = dead_edge_labels(g, t, [g.exit])
        return cache[t.id]
    default = ((3, 4), (3, 3), (3, 2), (3, 1))
    offers = [default, ((3, 4), (3, 1)), ((3, 4),), ((3, 3), (3, 2))]
    n_rows = seen_values = 0
    bad = None
    memo = {}
    for hi in [(3, 1), (3, 2), (3, 3), (3, 4)]:
        for lo in [(3, 1), (3, 3)]:
            if lo > hi:
                continue
            V, walked = _validated_versions(ctx, default, lo, hi)
            for offer in offers:
                env = {"ver_ext": True, "ver_ext.versions": offer, "settings.versions": V,
                       "settings.minVersion": lo, "settings.maxVersion": hi,
                       "clientHello.cipher_suites": (47,), "__index__": ctx.index, "__an__": ctx.an}
                vals = set()

                def visit(n, ve, taint, vals=vals):
                    # (paths through undecided unrelated tests count: the value only depends on the row)
                    if isinstance(ve.get("version"), tuple):
                        vals.add(ve["version"])
                out, both = outcomes(g, fi.node, env, ao, memo, visit=visit)
                n_rows += 1
                ends = {x for x, t in out}
                common = [v for v in V if v in offer and lo <= v <= hi]
                inside = [v for v in default if v in offer and lo <= v <= hi]
                shown = "minVersion=%r, maxVersion=%r (validated versions %r), client supported_versions %r" % (
                    lo, hi, V, offer)
                if not inside:
                    if "pass" in ends and bad is None:
                        bad = "for %s the hello is accepted although no offered version is inside the range" % shown
                    continue
                seen_values += len(vals)
                outside = sorted(v for v in vals if not lo <= v <= hi)
                if outside and bad is None:
                    bad = "for %s the server selects %r" % (shown, outside[0])
                if ("raise", False) in out and common and bad is None:
                    bad = "for %s the hello is refused although %r is inside both ranges" % (shown, common[0])
    if seen_values < 8:
        raise AnalysisError("C03.VERSION: the selected version could be followed on %d assignments only" % seen_values)
    ctx.check(R, bad is None, fi.qname, "server selects a version inside minVersion..maxVersion",
              "the version the server settles on must lie inside its own settings: %s" % bad, fi.loc(),
              what="%s: version selected from supported_versions stays inside minVersion..maxVersion "
                   "(%d assignments, validate() composed)" % (fi.short, n_rows))
    # the client's acceptance of the ServerHello version, with validate()'s versions composed in
    rows = []
    for hi in [(3, 1), (3, 2), (3, 3), (3, 4)]:
        for lo in [(3, 1), (3, 3)]:
            if lo > hi:
                continue
            V, _ = _validated_versions(ctx, default, lo, hi)
            rows.append(dict(what="client: ServerHello version inside %r..%r" % (lo, hi),
                             dom={"real_version": [(3, 1), (3, 2), (3, 3), (3, 4)], "settings.versions": [V],
                                  "settings.minVersion": [lo], "settings.maxVersion": [hi],
                                  "hello_retry": [None]},
                             abort=lambda e: not e["settings.minVersion"] <= e["real_version"] <= e["settings.maxVersion"],
                             msg="a ServerHello version outside the client's minVersion..maxVersion must be refused"))
    spec_rows(ctx, R, TLSCONN + "_clientGetServerHello", rows)


def rule_keysize_measure(ctx):
    """KEYSIZE: the number the key-size policy compares (len(publicKey)) is the exact bit length of the
    modulus / prime, also for sizes that are not a multiple of 8: a 2047-bit key must not count as 2048."""
    from ..condeval import ev, Unknown
    from .common import size_primitives
    R = "C03.KEYSIZE"
    prims = size_primitives(ctx)
    n = 0
    for q, attr in (("utils.rsakey:RSAKey.__len__", "self.n"), ("utils.python_dsakey:Python_DSAKey.__len__", "self.p")):
        if not ctx.index.has_func(q):
            continue
        fi = ctx.index.func(q)
        rets = [x for x in own_nodes(fi.node) if isinstance(x, ast.Return) and x.value is not None]
        if len(rets) != 1:
            raise AnalysisError("%s: %s does not have one return" % (R, q))
        bad = None
        for bits in (1023, 1024, 2047, 2048, 2049, 3):
            N = (1 << (bits - 1)) | 1
            try:
                got = ev(rets[0].value, {attr: N, "__calls__": prims, "__index__": ctx.index, "__fn__": fi.node})
            except (Unknown, TypeError, AttributeError) as e:
                raise AnalysisError("%s: cannot evaluate `%s`: %s" % (R, norm(rets[0]), e))
            if got != bits:
                bad = "a %d-bit value gives %r" % (bits, got)
                break
        n += 1
        ctx.check(R, bad is None, fi.qname, rets[0], "len(key) must be the exact bit length the minKeySize / maxKeySize "
                  "policy is stated in: %s (`%s`)" % (bad, norm(rets[0])), fi.loc(rets[0]),
                  what="%s is the exact bit length" % fi.short)
    if n < 1:
        raise AnalysisError("%s: RSAKey.__len__ not found" % R)


def rule_dh_group(ctx):
    """DH-GROUP: the FFDHE parameters used are those of the group that was selected: every lookup in
    the RFC 7919 table is keyed by the group's id alone (id - 256, the table's order), whatever the
    order or content of the configured list.  The index expression is evaluated for every id
    (condeval.ev, nothing is run); reading anything else (a settings list, a position) is a violation."""
    from ..condeval import ev, Unknown
    R = "C03.DH-GROUP"
    sites = 0
    for fi in ctx.index.all_functions():
        for n in own_nodes(fi.node):
            if not (isinstance(n, ast.Subscript) and isinstance(n.value, ast.Name) and n.value.id == "RFC7919_GROUPS"
                    and isinstance(n.ctx, ast.Load) and not isinstance(n.slice, ast.Slice)):
                continue
            sites += 1
            idx = n.slice
            # named constants of the package's enumeration classes are constants
            cenv = {}
            bases = set()
            for x in ast.walk(idx):
                if isinstance(x, ast.Attribute) and isinstance(x.value, ast.Name):
                    cl = ctx.index.modules["constants"].classes.get(x.value.id) if "constants" in ctx.index.modules else None
                    if cl is not None:
                        v = None
                        for st_ in cl.node.body:
                            if isinstance(st_, ast.Assign) and len(st_.targets) == 1 and isinstance(st_.targets[0], ast.Name) \
                                    and st_.targets[0].id == x.attr and isinstance(st_.value, ast.Constant):
                                v = st_.value.value
                        if isinstance(v, int):
                            cenv[norm(x)] = v
                            bases.add(x.value.id)
            free = sorted({x.id for x in ast.walk(idx) if isinstance(x, ast.Name)} - bases)
            attrs = sorted({attr_chain(x) for x in ast.walk(idx) if isinstance(x, ast.Attribute)
                            and attr_chain(x) and attr_chain(x).split(".")[0] in ("self", "settings")})
            bad = None
            if attrs:
                bad = "reads %s" % ", ".join(attrs)
            elif len(free) != 1:
                bad = "is not a function of the selected group alone (names: %s)" % free
            else:
                for gid in (256, 257, 258, 259, 260):
                    try:
                        got = ev(idx, dict(cenv, **{free[0]: gid, "__index__": ctx.index}))
                    except (Unknown, TypeError, AttributeError, KeyError, IndexError, ValueError) as e:
                        raise AnalysisError("%s: cannot evaluate the table index `%s`: %s" % (R, norm(idx), e))
                    if got != gid - 256:
                        bad = "gives entry %r for group id %d (entry %d is that group's)" % (got, gid, gid - 256)
                        break
            ctx.check(R, bad is None, fi.qname, n,
                      "the RFC 7919 parameters must be those of the selected group: the index `%s` %s" % (norm(idx), bad),
                      fi.loc(n), what="%s: RFC7919_GROUPS[%s] keyed by the group id" % (fi.short, norm(idx)))
    if sites < 2:
        raise AnalysisError("%s: only %d lookups in RFC7919_GROUPS found (confirmed 2)" % (R, sites))


RULES = [
    ("C03.POLICY", "quick", rule_policy_rows),
    ("C03.VERSION", "quick", rule_version_range),
    ("C03.DH-GROUP", "quick", rule_dh_group),
    ("C03.KEYSIZE", "quick", rule_keysize_measure),
    # both ends record the same encrypt-then-MAC flag (session, ticket): read from a state still pending
    ("C03.ETM-SOURCE", "quick", borrowed("c13", "rule_pending_source", "C13.ETM-SOURCE", "C03.ETM-SOURCE")),
    ("C03.SH-GATES", "quick", rule_sh_gates),
    ("C03.RESUME-POLICY", "quick", rule_resume_policy),
    ("C03.SRV-PICK", "quick", rule_srv_pick),
    ("C03.KEYPOLICY", "quick", rule_keypolicy),
    ("C03.SESSION", "quick", rule_session),
    ("C03.PROPAGATE", "quick", rule_propagate),
    ("C03.EXPORTER", "quick", rule_exporter),
    ("C03.RSL", "quick", borrowed("c01", "rule_rsl", "C01.RSL", "C03.RSL")),
    ("C03.CARRY", "quick", borrowed("c13", "rule_carry", "C13.CARRY", "C03.CARRY")),
]
