"""C01 - application data is delivered exactly and in order; record size limit respected."""
import ast

from ..index import AnalysisError, attr_chain, norm, own_nodes
from ..query import calls_in, call_name, is_value_yield
from ..condeval import check_cond, ev, Unknown
from .common import TLSCONN, TLSREC, RECLAYER, consumes_of, nodes_with_call, must_pass, dead_edge_labels
from .common import borrowed
from . import c01shared

EXPLANATION = (
    "Structural rules on the send/receive seams and on the record-layer bookkeeping. WHO-SEND: the "
    "only route to the wire is _sendMsg -> _sendMsgThroughSocket -> RecordLayer.sendRecord -> "
    "RecordSocket.send. FRAG: _sendMsg fragments with one bound (`self.recordSize`) used in the loop "
    "guard (decided over a finite domain: fragment while len > bound), the head and the tail slice; "
    "recordSize = min(user limit, negotiated send limit). RSL: every assignment of the send/receive "
    "limits computes what RFC 8449 section 4 prescribes for its protocol version (evaluated over the "
    "boundary values of the extension). SPLIT: wherever a buffer is split, the part handed on and the "
    "part kept are complementary slices with the same bound (package-wide). FIFO: the application "
    "read buffer and the defragmenter buffers are only appended to, consumed from the head, or "
    "cleared at (re)initialisation. SEQ/DIR/ROLE/AAD: one sequence number per record on its own "
    "direction's state, keys installed mirror-wise, sender and receiver agree on MAC input and AEAD "
    "additional data (shared with C02). Cipher parameters per suite are decided by C20.RECORD.")
NOT_DECIDED = ("that ciphers invert each other, CBC padding arithmetic, equality of bytes written and read "
               "under any interleaving, the TLS 1.3 padding callback's behaviour")
TECHNIQUE = ("who-may-call over resolved call graph, complementary-slice (SPLIT) dataflow, finite-domain evaluation "
             "of limits; AAD / nonce / MAC input / fragmentation by interpreting the source of the named methods "
             "over sample records with the checker's own AST evaluator (nothing of the library is run)")


def rule_who_send(ctx):
    R = "C01.WHO-SEND"
    want = {"sendRecord": {"_sendMsgThroughSocket"}, "_sendMsgThroughSocket": {"_sendMsg"}}
    found = {k: set() for k in want}
    for fi in ctx.index.all_functions():
        if fi.module.name.startswith("integration") or fi.module.name in ("messagesocket",):
            continue
        for n in own_nodes(fi.node):
            if isinstance(n, ast.Call) and call_name(n) in want:
                found[call_name(n)].add(fi.name)
                ok = fi.name in want[call_name(n)]
                ctx.check(R, ok, fi.qname, n, "%s is called from %s: records must reach the wire only through "
                          "_sendMsg's fragmentation" % (call_name(n), fi.short), fi.loc(n),
                          what="%s calls %s" % (fi.short, call_name(n)))
    for k in want:
        ctx.require(bool(found[k]), "C01.WHO-SEND: no caller of %s found" % k)
    rs = ctx.index.func(RECLAYER + "sendRecord")
    g = ctx.an.cfg(rs)
    sends = consumes_of(g, "send")
    ok = len(sends) == 1 and norm(sends[0].call) == "self._recordSocket.send(encryptedMessage, padding)"
    ctx.check(R, ok, rs.qname, "sendRecord hands exactly the protected message to the record socket",
              "sendRecord must send the protected message (and only it) through the record socket", rs.loc())
    em = [n for n in own_nodes(rs.node) if isinstance(n, ast.Assign) and norm(n.targets[0]) == "encryptedMessage"]
    ctx.check(R, bool(em) and norm(em[0].value) == "Message(contentType, data)", rs.qname,
              "protected record = Message(contentType, data)", "the record put on the wire must carry the "
              "protected data under the (possibly hidden) content type", rs.loc())


def rule_frag(ctx):
    R = "C01.FRAG"
    fi = ctx.index.func(TLSREC + "_sendMsg")
    # what _sendMsg puts on the wire, decided by interpreting it over sample messages (nothing of the
    # library is run): the fragments are the message cut at recordSize, none empty unless the message is,
    # and a handshake message enters the transcript whole, exactly once
    from ..condeval import Rec
    from .c01shared import run_method

    class _Transcript(object):
        _tlsverif_sample = True

        def __init__(self):
            self.fed = []

        def update(self, data):
            self.fed.append(bytes(data))
    S = 16
    n_ok = 0
    for ctype, n in ((22, 0), (22, 1), (22, 15), (22, 16), (22, 17), (22, 32), (22, 33), (22, 40), (23, 16), (23, 48), (21, 2)):
        body = bytes((i * 5 + 1) % 256 for i in range(n))
        sent = []
        tr = _Transcript()

        def through(base, m, sent=sent):
            sent.append((m.fields.get("contentType") if isinstance(m, Rec) else None,
                         bytes(m.fields.get("data", b"")) if isinstance(m, Rec) else None))
            return ()
        msg = Rec(contentType=ctype, **{"write()": body})
        env = {"self.recordSize": S, "self.version": (3, 3), "self._recordLayer.isCBCMode()": False,
               "self._handshake_hash": tr, "ContentType.handshake": 22, "ContentType.application_data": 23}
        try:
            kind, val = run_method(ctx, fi, [msg], env, {
                "_sendMsgThroughSocket": through,
                "Message": lambda ct, data: Rec(contentType=ct, data=bytes(data))})
        except (Unknown, TypeError, AttributeError, KeyError, IndexError, ValueError) as e:
            raise AnalysisError("C01.FRAG: cannot interpret _sendMsg over a %d-byte message: %s" % (n, e))
        want = [(ctype, body[i:i + S]) for i in range(0, n, S)] or [(ctype, b"")]
        ok = kind in ("end", "return") and sent == want
        ctx.check(R, ok, fi.qname, "fragments of a %d-byte message of type %d (recordSize %d)" % (n, ctype, S),
                  "a %d-byte message of type %d with recordSize %d is sent as records of %s bytes; it must be cut "
                  "into %s (no empty trailing record, nothing longer than the record size, bytes in order)" % (
                      n, ctype, S, [len(d) if d is not None else "?" for _, d in sent], [len(d) for _, d in want]),
                  fi.loc(), what="_sendMsg fragments a %d-byte message (type %d) at recordSize" % (n, ctype))
        want_tr = [body] if ctype == 22 else []
        ctx.check(R, tr.fed == want_tr or (b"".join(tr.fed) == body and ctype == 22 and len(tr.fed) >= 1 and n == 0),
                  fi.qname, "transcript of a %d-byte message of type %d" % (n, ctype),
                  "a %d-byte message of type %d enters the handshake transcript as %s; %s" % (
                      n, ctype, [len(x) for x in tr.fed],
                      "the whole message must be hashed exactly once" if ctype == 22 else "only handshake messages are hashed"),
                  fi.loc(), what="_sendMsg hashes a handshake message whole, once (%d bytes, type %d)" % (n, ctype))
        n_ok += 1
    rsz = ctx.index.func(TLSREC + "recordSize")
    ret = [n for n in own_nodes(rsz.node) if isinstance(n, ast.Return)]
    if ret:
        dom = {"self._user_record_limit": [10, 100], "self._send_record_limit": [50]}
        try:
            bad = [(u, s_) for u in dom["self._user_record_limit"] for s_ in dom["self._send_record_limit"]
                   if ev(ret[0].value, {"self._user_record_limit": u, "self._send_record_limit": s_}) != min(u, s_)]
        except Unknown as u_:
            raise AnalysisError("C01.FRAG: recordSize getter uses unmodelled operand %s" % u_)
        ctx.check(R, not bad, rsz.qname, "recordSize = min(user limit, negotiated send limit)",
                  "recordSize must be the smaller of the user's limit and the limit negotiated with the peer; "
                  "it returns `%s`" % norm(ret[0].value), rsz.loc())
    # 1/n-1 split: only for CBC in <= TLS 1.0 application data
    beast = [n for n in own_nodes(fi.node) if isinstance(n, ast.If) and "splitFirstByte" in norm(ast.Module(body=n.body, type_ignores=[]))]
    if beast:
        check_cond(ctx, R, fi, beast[0], beast[0].test,
                   {"randomizeFirstBlock": [True, False], "self.version": [(3, 1), (3, 2)],
                    "self._recordLayer.isCBCMode()": [True, False], "msg.contentType": [22, 23],
                    "ContentType.application_data": [23]},
                   lambda e: e["randomizeFirstBlock"] and e["self.version"] <= (3, 1)
                   and e["self._recordLayer.isCBCMode()"] and e["msg.contentType"] == 23,
                   "1/n-1 split applied to CBC application data in <= TLS 1.0",
                   "the first-byte split applies exactly to application data under a CBC suite in SSLv3/TLS 1.0")
        empty = [s for s in beast[0].body if isinstance(s, ast.If) and norm(s.test) == "not msg.write()"
                 and isinstance(s.body[0], ast.Return)]
        ctx.check(R, len(empty) == 1, fi.qname, "nothing more is sent when the split consumed the whole message",
                  "after the first-byte split an empty remainder must not be sent again", fi.loc(beast[0]))


def _site_kind(fi, node):
    """'tls13' / 'legacy' for a limit assignment."""
    if "TLS13" in fi.name:
        return "tls13"
    # inside `if version >= (3, 4):` ?
    for n in ast.walk(fi.node):
        if isinstance(n, ast.If) and norm(n.test) in ("version >= (3, 4)", "self.version >= (3, 4)",
                                                      "version > (3, 3)"):
            if any(x is node for s in n.body for x in ast.walk(s)):
                return "tls13"
            if any(x is node for s in n.orelse for x in ast.walk(s)):
                return "legacy"
    return "legacy"


def rsl_range(ctx, R):
    """the peer's record_size_limit is range-checked before any limit is taken from it: the union of
    the effective abort gates on it must abort exactly the out-of-range values (RFC 8449 section 4)."""
    E, S = "size_limit_ext.record_size_limit", "settings.record_size_limit"
    from .common import dead_edge_labels as _dead
    from ..query import mentions
    ranges = [("_serverGetClientHello", lambda v: v < 64, "below 64 (larger values are clamped)"),
              ("_clientGetServerHello", lambda v: v < 64 or v > 2 ** 14, "outside 64..2**14"),
              ("_clientTLS13Handshake", lambda v: v < 64 or v > 2 ** 14 + 1, "outside 64..2**14+1")]
    dom = [0, 1, 63, 64, 65, 1000, 2 ** 14 - 1, 2 ** 14, 2 ** 14 + 1, 2 ** 14 + 2, 70000]
    for fname, spec, words in ranges:
        fi = ctx.index.func(TLSCONN + fname)
        g = ctx.an.cfg(fi)
        sinks = [n for n in g.nodes if n.kind == "stmt" and isinstance(n.ast, ast.Assign)
                 and (attr_chain(n.ast.targets[0]) or "") in ("self._send_record_limit", "self._peer_record_size_limit")
                 and mentions(n.ast.value, E) or (n.kind == "stmt" and isinstance(n.ast, ast.Assign)
                 and isinstance(n.ast.targets[0], ast.Name) and mentions(n.ast.value, E))]
        if not sinks:
            raise AnalysisError("C01.RSL: no limit taken from the peer's record_size_limit in " + fname)
        aborts = {v: False for v in dom}
        gates = []
        none_refused, numeric = [], []
        for t in g.nodes:
            if t.kind != "test" or t.expr is None or not mentions(t.expr, E):
                continue
            dl = _dead(g, t, sinks)
            if not dl:
                continue
            try:
                vals = {v: bool(ev(t.expr, {E: v, S: 2 ** 14, "settings.record_size_limit is None": False})) for v in dom}
            except (Unknown, TypeError):
                continue
            # an empty extension payload parses to None: it must be refused before any numeric comparison
            try:
                vn = bool(ev(t.expr, {E: None, S: 2 ** 14}))
                if ("T" in dl and vn) or ("F" in dl and not vn):
                    none_refused.append(t)
            except TypeError:
                numeric.append(t)
            except Unknown:
                pass
            gates.append(t)
            for v in dom:
                if ("T" in dl and vals[v]) or ("F" in dl and not vals[v]):
                    aborts[v] = True
        if numeric:
            first = min(numeric, key=lambda t: t.line)
            seen_nr = g.reach([g.entry], blocked=none_refused)
            ctx.check(R, bool(none_refused) and first.id not in seen_nr, fi.qname,
                      "an absent record_size_limit value (None) is refused before it is compared with numbers",
                      "`%s` compares the peer's record_size_limit with numbers on a path where it can still be None "
                      "(empty extension payload): TypeError instead of decode_error" % norm(first.expr),
                      fi.loc(first.ast), what="%s none" % fi.short)
        wrong = [v for v in dom if aborts[v] != spec(v)]
        ctx.check(R, not wrong, fi.qname, "peer's record_size_limit refused when " + words,
                  "the peer's record_size_limit must be refused exactly when it is %s before a limit is derived from "
                  "it; the effective checks on it (%s) %s the value %s" % (
                      words, "; ".join("`%s`" % norm(t.expr) for t in gates) or "none",
                      "accept" if wrong and spec(wrong[0]) else "refuse", wrong[0] if wrong else ""),
                  fi.loc(sinks[0].ast), what="%s range" % fi.short)


def rule_rsl(ctx):
    R = "C01.RSL"
    sites = 0
    E, S, P = "size_limit_ext.record_size_limit", "settings.record_size_limit", "self._peer_record_size_limit"
    for fi in ctx.index.all_functions():
        if fi.module.name != "tlsconnection":
            continue
        for n in own_nodes(fi.node):
            if not isinstance(n, ast.Assign) or len(n.targets) != 1:
                continue
            tgt = attr_chain(n.targets[0])
            if tgt not in ("self._send_record_limit", "self._recv_record_limit", "self._peer_record_size_limit"):
                continue
            if fi.name == "__init__":
                continue
            sites += 1
            kind = _site_kind(fi, n)
            client_gated = fi.name in ("_clientTLS13Handshake", "_clientGetServerHello")
            ext_dom = [64, 1000, 2 ** 14, 2 ** 14 + 1] if client_gated and kind == "tls13" else \
                ([64, 1000, 2 ** 14] if client_gated else [64, 1000, 2 ** 14, 2 ** 14 + 1, 70000])
            if tgt == "self._send_record_limit" and kind == "tls13":
                spec = lambda e: min(2 ** 14, e[E] - 1)
                why = ("in TLS 1.3 the extension value counts the content-type byte, the record layer's "
                       "limit does not (RFC 8449 section 4): limit = min(2**14, value - 1)")
            elif tgt == "self._send_record_limit":
                spec = lambda e: e[P]
                why = "in TLS <= 1.2 the send limit is the staged peer value"
            elif tgt == "self._peer_record_size_limit":
                spec = lambda e: min(2 ** 14, e[E])
                why = "in TLS <= 1.2 the peer's value applies unchanged, clamped to 2**14"
            elif kind == "tls13":
                spec = lambda e: min(2 ** 14, e[S] - 1)
                why = "our advertised TLS 1.3 limit minus the content-type byte, clamped to 2**14"
            else:
                spec = lambda e: min(2 ** 14, e[S])
                why = "our advertised limit clamped to 2**14"
            bad = None
            try:
                for v in ext_dom:
                    for s_ in (64, 2 ** 14, 2 ** 14 + 1):
                        for p in (64, 2 ** 14):
                            env = {E: v, S: s_, P: p, "__fn__": fi.node}
                            got = ev(n.value, env)
                            if got != spec(env):
                                bad = ({k_: v_ for k_, v_ in env.items() if not k_.startswith("__")}, got, spec(env))
            except Unknown as u:
                raise AnalysisError("C01.RSL: limit expression `%s` in %s uses unmodelled operand %s"
                                    % (norm(n.value), fi.qname, u))
            ctx.check(R, bad is None, fi.qname, "%s (%s) = %s" % (tgt, kind, norm(n.value)),
                      "%s: `%s = %s` gives %s for %s, expected %s" % (
                          why, tgt, norm(n.value), bad[1] if bad else "", bad[0] if bad else "", bad[2] if bad else ""),
                      fi.loc(n), what="%s %s %s" % (fi.short, tgt, kind))
    ctx.require(sites >= 7, "C01.RSL: %d record size limit assignments found, floor 7" % sites)
    rsl_range(ctx, R)
    from .common import recv_length_caps
    recv_length_caps(ctx, R)
    rr = ctx.index.func(RECLAYER + "recvRecord")
    gg = ctx.an.cfg(rr)
    ys = [n for n in gg.nodes if is_value_yield(n) and "Parser(data)" in norm(n.ast)]
    t = [x for x in gg.nodes if x.kind == "test" and norm(x.expr) == "len(data) > self.recv_record_limit"]
    eff = [x for x in t if "T" in dead_edge_labels(gg, x, ys)]
    unp = [n for n in gg.nodes if n.kind == "stmt" and "_tls13_de_pad" in norm(n.ast)]
    must_pass(ctx, R, rr, gg, [gg.entry], ys, eff, "plaintext length checked against the receive limit",
              "recvRecord can deliver a plaintext longer than the negotiated receive limit", start_after=False)


_SLICE_OK = (ast.Slice,)


def _slice_parts(sub):
    """for b[lo:hi] returns (base text, kind, bound text) with kind head (b[:E]), tail (b[E:]),
    neghead (b[:-E]), negtail (b[-E:])."""
    if not isinstance(sub, ast.Subscript) or not isinstance(sub.slice, ast.Slice) or sub.slice.step is not None:
        return None
    base = attr_chain(sub.value)
    if base is None:
        return None
    lo, hi = sub.slice.lower, sub.slice.upper
    def neg(e):
        return isinstance(e, ast.UnaryOp) and isinstance(e.op, ast.USub)
    if lo is None and hi is not None:
        return (base, "neghead", norm(hi.operand)) if neg(hi) else (base, "head", norm(hi))
    if hi is None and lo is not None:
        return (base, "negtail", norm(lo.operand)) if neg(lo) else (base, "tail", norm(lo))
    return None


COMPLEMENT = {"tail": "head", "neghead": "negtail"}


def rule_split(ctx):
    R = "C01.SPLIT"
    n_inst = 0
    for fi in ctx.index.all_functions():
        consts = {}
        for n in own_nodes(fi.node):
            if isinstance(n, ast.Assign) and len(n.targets) == 1 and isinstance(n.targets[0], ast.Name) \
                    and isinstance(n.value, ast.Constant) and isinstance(n.value.value, int):
                consts.setdefault(n.targets[0].id, set()).add(n.value.value)
        def cn(t):
            if t in consts and len(consts[t]) == 1:
                return str(next(iter(consts[t])))
            return t
        for blk_owner in ast.walk(fi.node):
            for fld in ("body", "orelse", "finalbody"):
                blk = getattr(blk_owner, fld, None)
                if not (isinstance(blk, list) and blk and isinstance(blk[0], ast.stmt)):
                    continue
                for i, st in enumerate(blk):
                    keep = None      # (base, kind, bound) of the part that is kept
                    if isinstance(st, ast.Assign) and len(st.targets) == 1:
                        sp = _slice_parts(st.value)
                        tg = attr_chain(st.targets[0])
                        if sp and tg == sp[0] and sp[1] in COMPLEMENT:
                            keep = sp
                        elif isinstance(st.value, ast.Tuple) and isinstance(st.targets[0], ast.Tuple):
                            parts = [_slice_parts(e) for e in st.value.elts]
                            if len(parts) == 2 and all(parts) and parts[0][0] == parts[1][0] and \
                                    parts[0][1] == "head" and parts[1][1] == "tail":
                                n_inst += 1
                                ctx.check(R, cn(parts[0][2]) == cn(parts[1][2]), fi.qname, st,
                                          "a buffer is split into [:%s] and [%s:]: bytes are dropped or "
                                          "duplicated at the seam" % (parts[0][2], parts[1][2]), fi.loc(st))
                    elif isinstance(st, ast.Delete) and len(st.targets) == 1:
                        sp = _slice_parts(st.targets[0])
                        if sp and sp[1] == "head":
                            keep = (sp[0], "tail", sp[2])
                    if keep is None:
                        continue
                    want_kind = COMPLEMENT[keep[1]]
                    # nearest preceding statement of the block that reads the complementary part
                    for prev in reversed(blk[:i]):
                        reads = [p for p in (_slice_parts(x) for x in ast.walk(prev) if isinstance(x, ast.Subscript))
                                 if p and p[0] == keep[0]]
                        if not reads:
                            if any(attr_chain(x) == keep[0] for x in ast.walk(prev)
                                   if isinstance(x, (ast.Name, ast.Attribute))):
                                break          # unrelated use of the buffer in between: no pairing
                            continue
                        comp = [p for p in reads if p[1] == want_kind]
                        if comp:
                            n_inst += 1
                            ctx.check(R, cn(comp[0][2]) == cn(keep[2]), fi.qname, st,
                                      "the part handed on is %s[%s%s] but the part kept starts/ends at %s: bytes are "
                                      "dropped or duplicated at the seam" % (
                                          keep[0], ":" if want_kind == "head" else "-", comp[0][2], keep[2]),
                                      fi.loc(st), what="%s %s" % (fi.short, norm(st)))
                        break
    ctx.require(n_inst >= 10, "C01.SPLIT: %d complementary slice pairs found, floor 10" % n_inst)
    ctx.info["split_pairs"] = n_inst
    # partial socket send keeps exactly the unsent tail
    f = ctx.index.func("recordlayer:RecordSocket._sockSendAll")
    src = [norm(n) for n in own_nodes(f.node) if isinstance(n, ast.Assign)]
    from .common import pmatch
    ctx.check(R, pmatch(["$n = self.sock.send(data)", "data = data[$n:]"], src) is not None, f.qname,
              "partial send keeps the unsent tail", "after a partial send exactly data[bytesSent:] must remain", f.loc())


def _buffer_write_kind(fn, x):
    """what a write of self._readBuffer does, by shape (locals resolved): append of the received
    message's payload, removal of a head slice, push-back in front, or clearing."""
    from .common import resolved_text
    if isinstance(x, ast.AugAssign) and isinstance(x.op, ast.Add) and resolved_text(fn, x.value) == "result.write()":
        return "append"
    if isinstance(x, ast.Assign) and isinstance(x.value, ast.Subscript) and attr_chain(x.value.value) == "self._readBuffer" \
            and isinstance(x.value.slice, ast.Slice) and x.value.slice.upper is None and x.value.slice.lower is not None:
        return "head"
    if isinstance(x, ast.Assign) and isinstance(x.value, ast.BinOp) and isinstance(x.value.op, ast.Add) \
            and attr_chain(x.value.right) == "self._readBuffer":
        return "unread"
    if isinstance(x, ast.Assign) and norm(x.value) in ("b''", "bytearray()", "bytearray(0)"):
        return "clear"
    return None


def rule_fifo(ctx):
    R = "C01.FIFO"
    n = 0
    allowed = {"self._readBuffer += applicationData.write()": "append", "self._readBuffer = self._readBuffer[max:]": "head",
               "self._readBuffer = b + self._readBuffer": "unread", "self._readBuffer = b''": "clear"}
    for fi in ctx.index.all_functions():
        if fi.module.name != "tlsrecordlayer":
            continue
        for x in own_nodes(fi.node):
            tg = None
            if isinstance(x, ast.Assign):
                tg = [attr_chain(t) for t in x.targets]
            elif isinstance(x, ast.AugAssign):
                tg = [attr_chain(x.target)]
            elif isinstance(x, ast.Delete):
                tg = [attr_chain(t.value) if isinstance(t, ast.Subscript) else attr_chain(t) for t in x.targets]
            if tg and "self._readBuffer" in tg:
                n += 1
                kind = allowed.get(norm(x)) or _buffer_write_kind(fi.node, x)
                ok = kind is not None and ((kind == "clear") == (fi.name == "clearReadBuffer")) and \
                    ((kind == "unread") == (fi.name == "unread")) and \
                    (kind not in ("append", "head") or fi.name == "readAsync")
                ctx.check(R, ok, fi.qname, x, "the application read buffer is modified by `%s` in %s: received "
                          "bytes may only be appended (readAsync), consumed from the head (readAsync), "
                          "pushed back (unread) or cleared by clearReadBuffer" % (norm(x), fi.short), fi.loc(x))
    ctx.require(n >= 4, "C01.FIFO: writes of _readBuffer not found")
    for fi in ctx.index.all_functions():
        for x in own_nodes(fi.node):
            if isinstance(x, ast.Call) and call_name(x) == "clearReadBuffer":
                ctx.check(R, fi.name == "__init__", fi.qname, x, "clearReadBuffer() is called from %s: data the "
                          "peer sent and the application has not read yet would be dropped silently" % fi.short,
                          fi.loc(x))
            if isinstance(x, ast.Call) and call_name(x) == "clear_buffers":
                ctx.check(R, fi.name == "_handshakeStart", fi.qname, x, "Defragmenter.clear_buffers() is called "
                          "from %s: partially received messages would be dropped" % fi.short, fi.loc(x))
    df = ctx.index.cls("defragmenter:Defragmenter")
    for m in df.methods.values():
        for x in own_nodes(m.node):
            tgt = None
            if isinstance(x, ast.AugAssign) and isinstance(x.target, ast.Subscript) and \
                    attr_chain(x.target.value) == "self.buffers":
                ctx.check(R, m.name == "add_data" and isinstance(x.op, ast.Add), m.qname, x,
                          "defragmenter buffers may only be appended to in add_data", m.loc(x))
            if isinstance(x, ast.Assign) and any(isinstance(t, ast.Subscript) and attr_chain(t.value) == "self.buffers"
                                                 for t in x.targets):
                ctx.check(R, m.name in ("clear_buffers", "add_static_size", "add_dynamic_size", "__init__")
                          and norm(x.value) in ("bytearray(0)", "bytearray()"), m.qname, x,
                          "defragmenter buffers may only be replaced by an empty buffer at (re)initialisation",
                          m.loc(x))
    gm = df.methods["get_message"]
    src = [norm(s) for s in own_nodes(gm.node) if isinstance(s, (ast.Assign, ast.Delete, ast.Return))]
    ok = "data = buf[:length]" in src and "del buf[:length]" in src and "return (msg_type, data)" in src
    ctx.check(R, ok, gm.qname, "get_message returns the head and removes exactly it",
              "get_message must return buf[:length] and delete exactly that prefix", gm.loc())
    ra = ctx.index.func(TLSREC + "readAsync")
    src = [norm(s) for s in own_nodes(ra.node) if isinstance(s, (ast.Assign, ast.Expr))]
    ok = "returnBytes = self._readBuffer[:max]" in src and "yield bytes(returnBytes)" in src
    ctx.check(R, ok, ra.qname, "read returns the head of the buffer", "readAsync must return the first `max` "
              "buffered bytes", ra.loc())


def rule_own(ctx):
    """the record layer protects records by in-place `data += ...`; the application's buffer must
    therefore never be the object that travels down (writeAsync wraps it in a fresh bytearray)."""
    R = "C01.OWN"
    fi = ctx.index.func(TLSREC + "writeAsync")
    calls = [c for c in calls_in(fi.node) if call_name(c) == "create" and "ApplicationData()" in norm(c.func)]
    ok = len(calls) == 1 and len(calls[0].args) == 1 and isinstance(calls[0].args[0], ast.Call) and \
        call_name(calls[0].args[0]) == "bytearray" and norm(calls[0].args[0].args[0]) == "s"
    ctx.check(R, ok, fi.qname, "writeAsync copies the caller's data into a fresh bytearray",
              "writeAsync must hand a private copy (bytearray(s)) to the record layer: the protect functions "
              "extend their buffer in place (`data += mac`, `data += content type`), so passing the caller's "
              "bytearray through would append protocol bytes to it and corrupt a re-sent buffer",
              fi.loc(calls[0]) if calls else fi.loc())
    # (why the copy matters: sendRecord and the protect functions extend the message buffer in place
    # and ApplicationData.write returns its own buffer; that premise is documented, not checked)


def rule_shared(ctx):
    c01shared.rule_seq(ctx, "C01.SEQ")
    c01shared.rule_dir(ctx, "C01.DIR")
    c01shared.rule_role(ctx, "C01.ROLE")
    c01shared.rule_aad(ctx, "C01.AAD")


RULES = [
    ("C01.WHO-SEND", "quick", rule_who_send),
    ("C01.FRAG", "quick", rule_frag),
    ("C01.RSL", "quick", rule_rsl),
    ("C01.SPLIT", "quick", rule_split),
    ("C01.FIFO", "quick", rule_fifo),
    ("C01.OWN", "quick", rule_own),
    ("C01.SHARED", "quick", rule_shared),
    # every record a peer may legally send is delivered: empty records, records at the length limits
    ("C01.LENGTHS", "quick", borrowed("c02", "rule_lengths", "C02.LENGTHS", "C01.LENGTHS")),
    # the byte stream survives key updates: both directions keep the secret that belongs to them
    ("C01.KU", "quick", borrowed("c16", "rule_ku", "C16.KU", "C01.KU")),
]
