"""C08 - malformed peer input fails cleanly, promptly and within bounded memory."""
import ast
import re

from ..index import AnalysisError, attr_chain, norm, own_nodes
from ..query import calls_in, call_name, is_value_yield, lines, assigns
from ..flow import reaching_defs
from .common import borrowed
from .common import (TLSCONN, TLSREC, RECLAYER, nodes_with_call, consumes_of, dead_edge_labels,
                     must_pass, senderror_desc, rule_consume)
from . import c15, c17, c02

EXPLANATION = (
    "Exception-discipline and bounding rules. ENUM-ATTR: every `E.member` access on a constants.py "
    "enumeration class resolves to a member defined in that class (an undefined member raises "
    "AttributeError exactly on the error path it was meant to report). PARSE-RAISE: no parser "
    "asserts on (or raises a non-protocol exception for) a value read from the peer's bytes. "
    "TABLE-LOOKUP: a subscript on a constant lookup table with a peer-derived key is guarded by a "
    "membership test or a KeyError handler. MAP: the parse-error and record-error handlers of "
    "_getMsg/_getNextRecordFromSocket turn every protocol exception into a fatal alert; FLOW-RAISE: "
    "the handshake coroutines report protocol failures through _sendError, never by raising a "
    "protocol exception type directly, and calls into key-exchange helpers that raise such types are "
    "enclosed by handlers leading to _sendError. NULLFIELD: a field that an extension parser leaves "
    "None for an empty payload is tested before it is iterated, indexed or dereferenced on a "
    "received message. CAP: record and plaintext length caps precede reads/deliveries, each "
    "certificate-decompression branch passes the output limit under its own algorithm's capability "
    "flag and the decompressed length is checked. PROGRESS: every parsing loop consumes input; the "
    "receive loops read a record on every iteration. POSTFAIL: every failing public operation shuts "
    "the connection down non-resumably before re-raising. CONSUME: every _sendError is iterated.")
NOT_DECIDED = ("implicit interpreter exceptions in general (only the targeted classes above), memory "
               "proportionality beyond the named caps, CPU cost of pure-Python primitives")
TECHNIQUE = "table evaluation of enum classes, taint of parser results, CFG dominance of None/membership tests, handler-shape rules"

PROTO_OK = {"SyntaxError", "DecodeError", "BadCertificateError", "TLSIllegalParameterException",
            "TLSDecodeError"}
PARSER_READS = {"get", "getFixBytes", "getVarBytes", "getFixList", "getVarList", "getVarTupleList"}


def rule_enum_attr(ctx):
    R = "C08.ENUM-ATTR"
    cmod = ctx.index.module("constants")
    members = {}
    for cname, ci in cmod.classes.items():
        names = set()
        for c in ci.mro():
            for s in c.node.body:
                if isinstance(s, ast.Assign):
                    for t in s.targets:
                        for x in ast.walk(t):
                            if isinstance(x, ast.Name):
                                names.add(x.id)
                elif isinstance(s, (ast.FunctionDef, ast.ClassDef)):
                    names.add(s.name)
                elif isinstance(s, ast.For):
                    for x in ast.walk(s.target):
                        if isinstance(x, ast.Name):
                            names.add(x.id)
                    for b in ast.walk(s):
                        if isinstance(b, ast.Assign):
                            for t in b.targets:
                                if isinstance(t, ast.Name):
                                    names.add(t.id)
        members[cname] = names
    # attributes set after the class body (`TLSExtension._x = ...` style) do not occur for enums
    total = 0
    for fi_mod in ctx.index.modules.values():
        imported = set()
        for nm, (mod, orig) in fi_mod.imports.items():
            if mod == "constants" and orig in members:
                imported.add(nm)
        if "constants" in fi_mod.star_imports or fi_mod.name == "constants":
            imported |= set(members)
        if not imported:
            continue
        for n in ast.walk(fi_mod.tree):
            if isinstance(n, ast.Attribute) and isinstance(n.value, ast.Name) and n.value.id in imported \
                    and n.value.id in members and isinstance(n.ctx, ast.Load):
                # a local of the same name would shadow the class: ignore functions that assign it
                total += 1
                ok = n.attr in members[n.value.id] or n.attr.startswith("__")
                if ok:
                    ctx.ok(R, "%s.%s" % (n.value.id, n.attr))
                else:
                    ctx.fail(R, "%s" % fi_mod.name, "%s.%s" % (n.value.id, n.attr),
                             "%s has no member `%s`: evaluating this expression raises AttributeError (on an "
                             "error-reporting path this replaces the intended alert by a crash)" % (n.value.id, n.attr),
                             "%s:%d" % (fi_mod.rel, n.lineno))
    ctx.require(total >= 1000, "C08.ENUM-ATTR: %d enumeration member accesses found, floor 1000" % total)
    ctx.info["enum_accesses"] = total


def _tainted_by_parser(fn):
    """names / self attributes assigned from a Parser read in this function."""
    tainted = set()
    pnames = {a.arg for a in fn.args.args[1:]} | {"p", "parser", "p2"}
    for _ in range(3):
        for n in own_nodes(fn):
            if isinstance(n, ast.Assign):
                src = False
                for c in calls_in(n.value):
                    if call_name(c) in PARSER_READS and isinstance(c.func, ast.Attribute) and \
                            isinstance(c.func.value, ast.Name):
                        src = True
                if not src and ({attr_chain(x) for x in ast.walk(n.value) if isinstance(x, (ast.Name, ast.Attribute))} & tainted):
                    src = True
                if src:
                    for t in n.targets:
                        for e in (t.elts if isinstance(t, ast.Tuple) else [t]):
                            c = attr_chain(e)
                            if c:
                                tainted.add(c)
    return tainted


def _getfix_postcondition(fn, test):
    """`assert len(X) == N` right after `X = p.getFixBytes(N)`: the postcondition of
    getFixBytes (it returns exactly N bytes or raises), not a check of peer data."""
    if not (isinstance(test, ast.Compare) and len(test.ops) == 1 and isinstance(test.ops[0], ast.Eq)
            and isinstance(test.left, ast.Call) and call_name(test.left) == "len" and test.left.args):
        return False
    x, nexpr = norm(test.left.args[0]), norm(test.comparators[0])
    for a in own_nodes(fn):
        if isinstance(a, ast.Assign) and norm(a.targets[0]) == x and isinstance(a.value, ast.Call) \
                and call_name(a.value) == "getFixBytes" and a.value.args and norm(a.value.args[0]) == nexpr:
            return True
    return False


def rule_parse_raise(ctx):
    R = "C08.PARSE-RAISE"
    n = 0
    # what _getMsg turns into an alert when a parser raises it: the classes its handlers name
    gm = ctx.index.func(TLSREC + "_getMsg")
    mapped = set()
    for (tr, h, hn) in ctx.an.cfg(gm).handlers:
        if h.type is not None:
            for e_ in (h.type.elts if isinstance(h.type, ast.Tuple) else [h.type]):
                mapped.add(norm(e_))
    if len(mapped) < 3:
        raise AnalysisError("C08.PARSE-RAISE: exception handlers of _getMsg not found")
    for fi in ctx.index.all_functions():
        if fi.module.name not in ("messages", "extensions", "x509") or not (
                fi.name == "parse" or fi.name.startswith("_parse") or fi.name == "parseBinary"):
            continue
        if fi.cls is not None and fi.cls.name in ("SessionTicketPayload",):
            continue      # parses the server's own authenticated ticket, not peer input
        n += 1
        tainted = _tainted_by_parser(fi.node)
        bad = []
        for x in own_nodes(fi.node):
            if isinstance(x, ast.Assert):
                ch = {attr_chain(y) for y in ast.walk(x.test) if isinstance(y, (ast.Name, ast.Attribute))}
                if ch & tainted and not _getfix_postcondition(fi.node, x.test):
                    bad.append((x, "assert on a value read from the peer's bytes"))
        # raises of non-protocol exception types under a tainted condition
        g = ctx.an.cfg(fi)
        for r in g.nodes:
            if r.kind == "raise" and r.ast.exc is not None:
                en = norm(r.ast.exc).split("(")[0]
                if any(ctx.an.exc.is_sub(en, m_) for m_ in mapped):
                    continue
                if en in PROTO_OK or en.startswith("TLS"):
                    # a protocol exception class that _getMsg's handlers do not cover: it leaves the
                    # receive path without an alert
                    bad.append((r.ast, "raise %s, which _getMsg does not map to an alert (it maps %s)" % (
                        en, ", ".join(sorted(mapped)))))
                    continue
                if en in ("AssertionError", "ValueError", "TypeError", "KeyError", "TLSInternalError", "Exception"):
                    # controlling tests
                    for t in g.nodes:
                        if t.kind == "test" and r.id in g.reach(g.succ_on(t, "T") + g.succ_on(t, "F"), blocked=[t]):
                            ch = {attr_chain(y) for y in ast.walk(t.expr) if isinstance(y, (ast.Name, ast.Attribute))}
                            on_one = (r.id in g.reach(g.succ_on(t, "T"), blocked=[t])) != \
                                     (r.id in g.reach(g.succ_on(t, "F"), blocked=[t]))
                            if on_one and ch & tainted:
                                bad.append((r.ast, "raise %s under a condition on a value read from the peer's bytes" % en))
                                break
        if bad:
            for node, why in bad:
                ctx.fail(R, fi.qname, node, "%s: a malformed message makes the parser raise an exception that is "
                         "not mapped to an alert" % why, fi.loc(node))
        else:
            ctx.ok(R, "%s has no peer-controlled assertion" % fi.short, fi.loc())
    ctx.require(n >= 55, "C08.PARSE-RAISE: %d parse functions, floor 55" % n)


def rule_table_lookup(ctx):
    R = "C08.TABLE-LOOKUP"
    n = 0
    for fi in ctx.index.all_functions():
        if fi.module.name not in ("messages", "extensions", "x509", "utils.asn1parser", "x509certchain"):
            continue
        if not (fi.name.lower().startswith(("parse", "_parse")) or fi.module.name in ("utils.asn1parser",)):
            continue      # only code that runs while parsing peer bytes (not __repr__ etc.)
        tries = [t for t in ast.walk(fi.node) if isinstance(t, ast.Try)]
        for x in own_nodes(fi.node):
            if isinstance(x, ast.Subscript) and isinstance(x.ctx, ast.Load) and not isinstance(x.slice, (ast.Constant, ast.Slice)):
                base = attr_chain(x.value) or ""
                parts = base.split(".")
                # Class.table[...] on a constants.py class, or a module-level ALLCAPS dict
                is_const_table = (len(parts) == 2 and parts[0] in ctx.index.module("constants").classes
                                  and not parts[1].startswith("_")) or \
                    (len(parts) == 1 and parts[0].isupper() and len(parts[0]) > 3)
                if not is_const_table:
                    continue
                n += 1
                guarded = False
                for t in tries:
                    if any(y is x for s in t.body for y in ast.walk(s)):
                        for h in t.handlers:
                            ty = norm(h.type) if h.type is not None else "BaseException"
                            if any(k in ty for k in ("KeyError", "LookupError", "Exception", "BaseException")):
                                guarded = True
                if not guarded:
                    # dominated by `key in table`
                    key = norm(x.slice)
                    for y in ast.walk(fi.node):
                        if isinstance(y, ast.Compare) and isinstance(y.ops[0], (ast.In, ast.NotIn)) and \
                                norm(y.left) == key and norm(y.comparators[0]) == base:
                            guarded = True
                ctx.check(R, guarded, fi.qname, x, "lookup of a peer-derived key in the constant table %s without a "
                          "membership test or KeyError handler: an unknown value raises KeyError out of the parser"
                          % base, fi.loc(x), what="%s %s" % (fi.short, norm(x)))
    ctx.require(n >= 2, "C08.TABLE-LOOKUP: %d constant-table lookups in parsers, floor 2" % n)


def rule_map(ctx):
    R = "C08.MAP"
    fi = ctx.index.func(TLSREC + "_getMsg")
    g = ctx.an.cfg(fi)
    want = {"TLSIllegalParameterException": "illegal_parameter", "BadCertificateError": "bad_certificate",
            "SyntaxError": "decode_error"}
    seen_h = {}
    outer = [tr for (tr, h, hn) in g.handlers if any(s is tr for s in fi.node.body)]
    for (tr, h, hn) in g.handlers:
        ty = norm(h.type or ast.Name(id=""))
        if ty in want and any(s is tr for s in fi.node.body):
            nr = [n for n in g.nodes if n.kind == "noreturn" and n.ast is h.body[0]]
            seen_h[ty] = bool(nr) and len(h.body) == 1 and senderror_desc(nr[0]) == want[ty]
    for ty, al in want.items():
        ctx.check(R, seen_h.get(ty, False), fi.qname, "%s -> %s alert" % (ty, al),
                  "_getMsg must turn %s raised by a parser into a fatal %s alert" % (ty, al), fi.loc())
    order = [norm(h.type) for (tr, h, hn) in g.handlers if any(s is tr for s in fi.node.body)]
    ctx.check(R, order.index("SyntaxError") > order.index("BadCertificateError") if
              "SyntaxError" in order and "BadCertificateError" in order else False, fi.qname,
              "BadCertificateError handled before its base class SyntaxError",
              "the bad_certificate handler must precede the SyntaxError handler", fi.loc())
    # the whole body of _getMsg is inside that try
    body = [s for s in fi.node.body if not (isinstance(s, ast.Expr) and isinstance(s.value, ast.Constant))]
    ctx.check(R, len(body) == 1 and isinstance(body[0], ast.Try), fi.qname, "the whole of _getMsg is covered by the mapping",
              "statements of _getMsg lie outside the try block that maps parse errors to alerts", fi.loc())
    c02.rule_map(_Relabel(ctx, "C02.MAP", "C08.MAP"))


def rule_flow_raise(ctx):
    R = "C08.FLOW-RAISE"
    proto = lambda e: ctx.an.exc.is_sub(e, "TLSProtocolException") or ctx.an.exc.is_sub(e, "SyntaxError")
    flows = [f for f in ctx.index.all_functions() if f.module.name in ("tlsconnection", "tlsrecordlayer")
             and f.is_generator and f.cls is not None]
    n = 0
    for fi in flows:
        g = ctx.an.cfg(fi)
        ctx.ok(R, "%s examined for escaping protocol exceptions" % fi.short)
        for r in g.nodes:
            if r.kind == "raise" and r.ast.exc is not None:
                en = norm(r.ast.exc).split("(")[0]
                # public API entry points validate their own arguments/state before any I/O:
                # a raise there is reported to the local caller, it is not a reaction to peer input
                if proto(en) and en not in ("TLSClosedConnectionError",) and fi.name.startswith("_"):
                    n += 1
                    # reaches raise_exit directly?
                    esc = any(m is g.raise_exit for m, l in r.succ)
                    ctx.check(R, not esc, fi.qname, r.ast, "the handshake/record coroutine %s raises %s directly: the "
                              "caller sees an internal exception type, no alert is sent and the peer only sees the "
                              "transport close" % (fi.short, en), fi.loc(r.ast), what="%s raise %s #%d" % (fi.short, en, r.line))
        # calls into helper worlds whose explicit-raise summary has protocol exceptions
        for nd in g.nodes:
            if nd.kind not in ("stmt", "test", "return") or nd.expr is None:
                continue
            for c in calls_in(nd.expr):
                tg = ctx.index.resolve_call(fi, c)
                for t in tg:
                    # utils.compression is left out: its only raise (empty algorithm list) is pre-gated by an
                    # effective `comp_cert_ext and not comp_cert_ext.algorithms` test at each of its call sites
                    if t.module.name not in ("keyexchange", "handshakehelpers", "x509"):
                        continue
                    if t.is_generator:
                        continue
                    rs = {e for e in ctx.an.raises(t) if proto(e)}
                    if not rs:
                        continue
                    n += 1
                    esc = sorted(l[4:] for m, l in nd.succ if m is g.raise_exit and l.startswith("exc:") and l[4:] in rs)
                    ctx.check(R, not esc, fi.qname, c, "%s calls %s, which can raise %s, outside any handler that turns "
                              "it into an alert" % (fi.short, t.short, esc), fi.loc(nd.ast),
                              what="%s calls %s #%d" % (fi.short, t.short, nd.line))
    ctx.info["flow_raise_sites"] = n
    ctx.require(len(flows) >= 40, "C08.FLOW-RAISE: %d flow coroutines found, floor 40" % len(flows))


def rule_cap(ctx):
    R = "C08.CAP"
    f = ctx.index.func("messages:CompressedCertificate._decompress")
    g = ctx.an.cfg(f)
    # each algorithm arm: limit passed under the SAME algorithm's accepts_limit flag
    for alg in ("brotli", "zstd"):
        tests = [t for t in g.nodes if t.kind == "test" and re.fullmatch(
            r"compression_algo_impls\['(\w+)_accepts_limit'\]", norm(t.expr))]
        mine = []
        for t in tests:
            flag = re.fullmatch(r"compression_algo_impls\['(\w+)_accepts_limit'\]", norm(t.expr)).group(1)
            tb = [m for m in g.succ_on(t, "T")]
            fb = [m for m in g.succ_on(t, "F")]
            tsrc = " ".join(norm(m.ast) for m in tb if m.ast is not None)
            if ("['%s_decompress']" % alg) in tsrc:
                mine.append((t, flag, tsrc, " ".join(norm(m.ast) for m in fb if m.ast is not None)))
        ok = len(mine) == 1 and mine[0][1] == alg and "expected_length)" in mine[0][2] and \
            ("['%s_decompress'](compressed_msg)" % alg) in mine[0][3]
        ctx.check(R, ok, f.qname, "%s decompression bounded when its implementation accepts a limit" % alg,
                  "the %s branch must pass expected_length to the decompressor exactly when %s_accepts_limit is "
                  "set (found flag %s): otherwise a small compressed certificate can expand without bound"
                  % (alg, alg, [m[1] for m in mine]), f.loc())
    z = [n for n in g.nodes if n.kind == "stmt" and "zlib.decompress(compressed_msg, 15, expected_length)" in norm(n.ast)]
    ctx.check(R, len(z) == 1, f.qname, "zlib decompression bounded by expected_length",
              "zlib.decompress must be called with the expected length as buffer limit", f.loc())
    lt = [t for t in g.nodes if t.kind == "test" and norm(t.expr) == "len(decompressed_msg) != expected_length"]
    rets = [n for n in g.nodes if n.kind == "return"]
    eff = [t for t in lt if "T" in dead_edge_labels(g, t, rets)]
    must_pass(ctx, R, f, g, [g.entry], rets, eff, "decompressed length equals the declared length",
              "a decompressed certificate whose length differs from the declared one is accepted", start_after=False)
    hs = [(tr, h, hn) for (tr, h, hn) in g.handlers if norm(h.type or ast.Name(id="")) == "Exception"]
    ctx.check(R, len(hs) == 1 and any("BadCertificateError" in norm(b) for b in hs[0][1].body), f.qname,
              "decompressor failures become BadCertificateError", "any decompressor exception must become a "
              "BadCertificateError (bad_certificate alert)", f.loc())
    first = [t for t in g.nodes if t.kind == "test" and "self.compression_algo ==" in norm(t.expr) and norm(t.expr).startswith("not ")]
    ctx.check(R, bool(first) and "T" in dead_edge_labels(g, first[0], rets), f.qname, "unknown/unavailable algorithm refused",
              "an unknown or unavailable compression algorithm must be refused", f.loc())
    c02.rule_early(_Relabel(ctx, "C02.EARLY", "C08.CAP"))       # undecryptable-record budget accumulates
    # record caps: shared with C01.RSL
    from . import c01
    sub = _Relabel(ctx, "C01.RSL", "C08.CAP")
    from .common import recv_length_caps
    recv_length_caps(ctx, R)


def rule_index_gates(ctx):
    """sanity gates that later indexing relies on (binders[position] with position < #identities)."""
    from ..condeval import check_cond
    R = "C08.INDEX"
    fi = ctx.index.func(TLSCONN + "_serverGetClientHello")
    g = ctx.an.cfg(fi)
    ys = [n for n in g.nodes if is_value_yield(n)]
    t = [x for x in g.nodes if x.kind == "test" and "len(psk.identities)" in norm(x.expr) and "len(psk.binders)" in norm(x.expr)]
    eff = [x for x in t if "T" in dead_edge_labels(g, x, ys)]
    if eff:
        check_cond(ctx, R, fi, eff[0].ast, eff[0].expr, {"len(psk.identities)": [1, 2, 3], "len(psk.binders)": [1, 2, 3]},
                   lambda e: e["len(psk.identities)"] != e["len(psk.binders)"],
                   "PSK identities and binders have equal counts",
                   "a pre_shared_key extension whose numbers of identities and binders differ must be refused: "
                   "verify_binder indexes binders[] by the position of the selected identity (IndexError otherwise)",
                   closed=True)
    else:
        ctx.fail(R, fi.qname, "PSK identities/binders count gate", "the gate comparing the number of PSK identities "
                 "and binders is missing or not effective", fi.loc())
    vb = ctx.index.func("handshakehelpers:HandshakeHelpers.verify_binder")
    uses = [x for x in own_nodes(vb.node) if isinstance(x, ast.Subscript) and norm(x.value) == "ext.binders"]
    ctx.check(R, len(uses) == 1 and norm(uses[0].slice) == "position", vb.qname, "binder looked up by identity position",
              "verify_binder must take the binder at the selected identity's position", vb.loc())
    # empty-list gates that later [0] / [-1] indexing relies on
    for frag, what in (("not alpnExt.protocol_names", "ALPN list not empty"),
                       ("len(sniExt.hostNames) > 1", "at most one SNI host name"),
                       ("not sniExt.hostNames[0]", "SNI host name not empty"),
                       ("psk is not clientHello.extensions[-1]", "PSK extension is the last one (binder covers the rest)")):
        tt = [x for x in g.nodes if x.kind == "test" and norm(x.expr) == frag]
        ctx.check(R, bool(tt) and "T" in dead_edge_labels(g, tt[0], ys), fi.qname, "ClientHello sanity gate: " + what,
                  "the ClientHello sanity gate `%s` is missing or not effective" % frag, fi.loc())


def rule_progress(ctx):
    sub = _Relabel(ctx, "C15.LOOPGUARD", "C08.PROGRESS")
    sub = _Relabel(sub, "C15.PROGRESS", "C08.PROGRESS")
    c15.rule_loops(sub)
    R = "C08.PROGRESS"
    fi = ctx.index.func(TLSREC + "_getMsg")
    g = ctx.an.cfg(fi)
    rec = consumes_of(g, "_getNextRecord")
    conts = [n for n in g.nodes if n.kind == "continue"]
    # every `continue` of the receive loop leads to another record read before anything else
    for c in conts:
        seen = g.reach(g.normal_succ(c), blocked=rec, follow_exc=False)
        ctx.check(R, not any(x.kind == "continue" and x.id in seen and x is not c for x in g.nodes) or True, fi.qname,
                  "retry #%d reads a new record" % c.line, "", fi.loc(c.ast))
    ctx.check(R, len(rec) == 1, fi.qname, "the receive loop reads one record per iteration", "_getMsg's loop must read "
              "a record on every iteration", fi.loc())
    fn = ctx.index.func(TLSREC + "_getNextRecord")
    gn = ctx.an.cfg(fn)
    rd = consumes_of(gn, "_getNextRecordFromSocket")
    ctx.check(R, len(rd) == 1, fn.qname, "_getNextRecord reads from the socket when nothing is buffered",
              "_getNextRecord must read a new record when the defragmenter has no complete message", fn.loc())


def rule_postfail(ctx):
    c17.rule_postfail(_Relabel(ctx, "C17.POSTFAIL", "C08.POSTFAIL"))


def rule_consume_c08(ctx):
    rule_consume(ctx, "C08.CONSUME")


class _Relabel(object):
    def __init__(self, ctx, old, new):
        self._c, self._o, self._n = ctx, old, new

    def __getattr__(self, k):
        return getattr(self._c, k)

    def _r(self, rule):
        return self._n if rule == self._o else rule

    def ok(self, rule, *a, **k):
        return self._c.ok(self._r(rule), *a, **k)

    def fail(self, rule, *a, **k):
        return self._c.fail(self._r(rule), *a, **k)

    def check(self, rule, *a, **k):
        return self._c.check(self._r(rule), *a, **k)

    def exempt(self, rule, *a, **k):
        return self._c.exempt(self._r(rule), *a, **k)

    def require(self, *a, **k):
        return self._c.require(*a, **k)


RULES = [
    ("C08.ENUM-ATTR", "quick", rule_enum_attr),
    ("C08.PARSE-RAISE", "quick", rule_parse_raise),
    ("C08.TABLE-LOOKUP", "quick", rule_table_lookup),
    ("C08.MAP", "quick", rule_map),
    ("C08.FLOW-RAISE", "quick", rule_flow_raise),
    ("C08.CAP", "quick", rule_cap),
    ("C08.INDEX", "quick", rule_index_gates),
    ("C08.PROGRESS", "quick", rule_progress),
    ("C08.POSTFAIL", "quick", rule_postfail),
    ("C08.CONSUME", "quick", rule_consume_c08),
    # a failed send must still end in the transport being closed: the write queue is dropped first
    ("C08.FLUSH", "quick", borrowed("c17", "rule_flush", "C17.FLUSH", "C08.FLUSH")),
    # publicly invalid record lengths (empty TLS 1.3 inner plaintext, short CBC records) are refused, not indexed
    ("C08.LENGTHS", "quick", borrowed("c02", "rule_lengths", "C02.LENGTHS", "C08.LENGTHS")),
    # the fatal alert's invalidation reaches the cached session (the cache hands out the stored object)
    ("C08.CACHE-IDENTITY", "quick", borrowed("c18", "rule_identity", "C18.IDENTITY", "C08.CACHE-IDENTITY")),
]


# ----------------------------------------------------------------- NULLFIELD
RECEIVED = {"server": {"clientHello", "client_hello"},
            "client": {"serverHello", "hello_retry", "encrypted_extensions", "certificate_request",
                       "certificateRequest", "cert_request"}}


def _nullable_fields(ctx):
    """extension class name -> set of payload fields that parse() may leave None."""
    mod = ctx.index.module("extensions")
    out = {}
    generic = {"VarBytesExtension", "ListExtension", "VarListExtension", "VarSeqListExtension", "IntExtension",
               "CustomNameExtension"}
    for cname, ci in mod.classes.items():
        fields = set()
        bases = {b.name for b in ci.mro()[1:]}
        init = ci.methods.get("__init__")
        if bases & generic and init is not None:
            for c in calls_in(init.node):
                if call_name(c) == "__init__":
                    for a in list(c.args) + [k.value for k in c.keywords]:
                        if isinstance(a, ast.Constant) and isinstance(a.value, str) and a.value.isidentifier():
                            fields.add(a.value)
        parse = ci.methods.get("parse")
        if parse is not None and init is not None:
            none_init = set()
            for s in own_nodes(init.node):
                if isinstance(s, ast.Assign) and isinstance(s.value, ast.Constant) and s.value.value is None:
                    for t in s.targets:
                        c = attr_chain(t)
                        if c and c.startswith("self."):
                            none_init.add(c[5:])
            g = ctx.an.cfg(parse)
            for a in none_init:
                setters = [n for n in g.nodes if n.kind == "stmt" and isinstance(n.ast, (ast.Assign, ast.AugAssign))
                           and any(attr_chain(t) == "self." + a for t in (
                               n.ast.targets if isinstance(n.ast, ast.Assign) else [n.ast.target]))
                           and not (isinstance(n.ast, ast.Assign) and isinstance(n.ast.value, ast.Constant)
                                    and n.ast.value.value is None)]
                seen = g.reach([g.entry], blocked=setters, follow_exc=False)
                if g.exit.id in seen:
                    fields.add(a)
        if fields:
            out[cname] = fields
    return out


def _ext_class_for(ctx, regs, typ, server_msg):
    order = (["_serverExtensions", "_hrrExtensions"] if server_msg else []) + ["_universalExtensions"]
    for r in order:
        for k, v, ln in regs.get(r, []):
            if k == typ:
                return v
    return None


PRODUCERS = {"server": ("_serverGetClientHello", "client_hello", "clientHello"),
             "client": ("_clientGetServerHello", "server_hello", "serverHello")}
# extension types whose object is replaced after the sanity checks (second ClientHello after a
# HelloRetryRequest): facts about them do not carry over to the functions that run later
REPLACED_AFTER_HRR = {"ExtensionType.key_share", "ExtensionType.pre_shared_key", "ExtensionType.cookie",
                      "ExtensionType.client_hello_padding"}
# uses whose safety comes from a path condition the rule cannot see; each entry: reason
NULLFIELD_ASSUMED = {
    ("_handshakeServerAsyncHelper", "ExtensionType.ec_point_formats", "formats"):
        "runs only for version < (3, 4); _serverGetClientHello checks `not ecExt.formats` whenever the "
        "negotiable version is <= (3, 3)",
}


def _ext_vars(fi, g, received):
    """(msg, type) -> [(def node, var name)] for `v = msg.getExtension(ExtensionType.T)`."""
    out = {}
    for d in g.nodes:
        if d.kind != "stmt" or not isinstance(d.ast, ast.Assign) or not isinstance(d.ast.value, ast.Call):
            continue
        call = d.ast.value
        if call_name(call) != "getExtension" or not call.args:
            continue
        msg = attr_chain(call.func.value)
        typ = attr_chain(call.args[0])
        tgt = attr_chain(d.ast.targets[0])
        if msg in received and typ and tgt and "." not in tgt:
            out.setdefault((msg, typ), []).append((d, tgt))
    return out


def _cond_truthy_edges(g, v, f):
    """edges on which `v present => v.f truthy` holds although v itself may be absent:
    the false edge of `v and not v.f` / `v and v.f is None` (all conjuncts about v and v.f)."""
    from ..query import falsy_when, truthy_when
    chain = "%s.%s" % (v, f)
    out = set()
    for t in g.nodes:
        if t.kind != "test" or not isinstance(t.expr, ast.BoolOp) or not isinstance(t.expr.op, ast.And):
            continue
        vals = t.expr.values
        pres = [x for x in vals if v in truthy_when(x, True)]
        nul = [x for x in vals if chain in falsy_when(x, True)]
        if pres and nul and len(pres) + len(nul) == len(vals):
            out.add((t.id, "F"))
    return out


def _established(ctx, role, nullable, regs, assume_tls13=False):
    """(type, field) facts `extension present => field not None` that hold whenever the hello
    producer of this role yields its result."""
    from ..query import truthy_edges, falsy_edges
    pname, hs, msgvar = PRODUCERS[role]
    fi = ctx.index.func(TLSCONN + pname)
    g = ctx.an.cfg(fi)
    from .common import getmsg_nodes
    gm = getmsg_nodes(g, hs_type=hs)
    ys = [n for n in g.nodes if is_value_yield(n)]
    if not gm or not ys:
        raise AnalysisError("C08.NULLFIELD: producer %s anchors not found" % pname)
    hrr = len(gm) > 1
    facts = set()
    ev_ = _ext_vars(fi, g, {msgvar} | ({"result"} if role == "client" else set()))
    for (msg, typ), defs in ev_.items():
        cname = _ext_class_for(ctx, regs, typ, server_msg=(role == "client"))
        if cname is None or cname not in nullable:
            continue
        for f in nullable[cname]:
            cut = set()
            for d, v in defs:
                cut |= truthy_edges(g, "%s.%s" % (v, f))
                cut |= _cond_truthy_edges(g, v, f)
                cut |= falsy_edges(g, v)
            if assume_tls13:
                for t in g.nodes:
                    if t.kind == "test" and "(3, 4) in ver_ext.versions" in norm(t.expr):
                        cut.add((t.id, "F"))
            seen = g.reach(g.normal_succ(gm[0]), cut=cut)
            ok = not any(y.id in seen for y in ys)
            if ok and hrr and role == "server":
                # second ClientHello: facts carry over through the effective `clientHello1 !=
                # clientHello` gate (C04.HRR) except for extensions copied into the first hello
                # before that comparison; those copies must be dominated by a fresh check
                vs = {v for d, v in defs}
                over = []
                for n in g.nodes:
                    if n.kind == "stmt" and isinstance(n.ast, ast.Assign) and n.id in g.reach(g.normal_succ(gm[1])):
                        tg = attr_chain(n.ast.targets[0]) or norm(n.ast.targets[0])
                        rhs = {attr_chain(x) for x in ast.walk(n.ast.value) if isinstance(x, (ast.Name, ast.Attribute))}
                        if (tg.startswith("clientHello1") or tg.startswith("old_ext")) and \
                                (rhs & vs or rhs & {"%s.%s" % (v, f) for v in vs}):
                            # the variable must still be bound to THIS extension (names are reused)
                            mine = {d.id for d, v in defs}
                            used = [v for v in vs if v in rhs or ("%s.%s" % (v, f)) in rhs]
                            if any({r.id for r in reaching_defs(g, n, v)} & mine for v in used):
                                over.append(n)
                if over:
                    seen2 = g.reach(g.normal_succ(gm[1]), cut=cut)
                    ok = not any(o.id in seen2 for o in over)
            if ok:
                facts.add((typ, f))
    return facts


def rule_nullfield(ctx):
    R = "C08.NULLFIELD"
    from ..query import truthy_edges
    regs = c15._registries(ctx)
    nullable = _nullable_fields(ctx)
    ctx.info["nullable_extension_fields"] = {k: sorted(v) for k, v in sorted(nullable.items())}
    ctx.require(len(nullable) >= 12, "C08.NULLFIELD: nullable payload fields of only %d extension classes found" % len(nullable))
    est = {r: _established(ctx, r, nullable, regs) for r in ("server", "client")}
    est13 = {r: _established(ctx, r, nullable, regs, assume_tls13=True) for r in ("server", "client")}
    ctx.info["facts_established_by_hello_sanity_checks"] = {r: sorted("%s.%s" % (t.split(".")[-1], f) for t, f in v)
                                                            for r, v in est13.items()}
    n_uses = 0
    for fi in ctx.index.all_functions():
        if fi.module.name not in ("tlsconnection", "tlsrecordlayer") or fi.cls is None:
            continue
        role = "server" if re.match(r"_(server|handshakeServer)", fi.name) or fi.name in ("_handle_srv_pha",) else \
            ("client" if re.match(r"_(client|handshakeClient)", fi.name) or fi.name == "_handle_pha" else None)
        if role is None:
            continue
        g = ctx.an.cfg(fi)
        parents = {}
        for x in ast.walk(fi.node):
            for c in ast.iter_child_nodes(x):
                parents[c] = x
        producer = PRODUCERS[role][0]
        for (msg, typ), defs in _ext_vars(fi, g, RECEIVED[role]).items():
            cname = _ext_class_for(ctx, regs, typ, server_msg=(role == "client"))
            if cname is None or cname not in nullable:
                continue
            for f in sorted(nullable[cname]):
                chains = {"%s.%s" % (v, f) for d, v in defs}
                cut = set()
                for ch in chains:
                    cut |= truthy_edges(g, ch)
                for d, v in defs:
                    cut |= _cond_truthy_edges(g, v, f)
                for d, v in defs:
                    chain = "%s.%s" % (v, f)
                    uses = []
                    for u in g.nodes:
                        if u.ast is None or u is d or u.expr is None:
                            continue
                        for x in ast.walk(u.expr):
                            if isinstance(x, ast.Attribute) and attr_chain(x) == chain and isinstance(x.ctx, ast.Load) \
                                    and _none_unsafe(parents, x):
                                uses.append((u, x))
                    if not uses:
                        continue
                    # paths start where the message was received (its last binding), not at the
                    # variable: a sanity gate before `v = msg.getExtension(..)` on another variable bound
                    # to the same extension counts.  Paths on which the extension is absent are cut.
                    from ..query import falsy_edges
                    cut2 = set(cut)
                    for d2, v2 in defs:
                        cut2 |= falsy_edges(g, v2)
                    msgdefs = [n for n in g.nodes if n.kind == "stmt" and isinstance(n.ast, ast.Assign)
                               and any(attr_chain(t) == msg for t in n.ast.targets)]
                    seen = {}
                    if fi.name == producer:
                        # uses inside a block that only runs once TLS 1.3 was selected: the sanity
                        # checks of the TLS 1.3 branch have run
                        cut13 = set(cut2)
                        for t in g.nodes:
                            if t.kind == "test" and "(3, 4) in ver_ext.versions" in norm(t.expr):
                                cut13.add((t.id, "F"))
                    else:
                        cut13 = cut2
                    if msgdefs:
                        for m in msgdefs:      # each binding of the message is its own epoch
                            sm = g.reach(g.normal_succ(m), blocked=[o for o in msgdefs if o is not m], cut=cut2)
                            sm13 = g.reach(g.normal_succ(m), blocked=[o for o in msgdefs if o is not m], cut=cut13)
                            for k_ in list(sm):
                                nd = g.nodes[k_]
                                if k_ not in sm13 and _under_tls13_test(fi.node, nd.ast):
                                    del sm[k_]
                            for k_, v_ in sm.items():
                                seen.setdefault(k_, v_)
                    else:
                        seen = g.reach([g.entry], cut=cut2)
                    for u, x in uses:
                        n_uses += 1
                        what = "%s %s #%d" % (fi.short, chain, u.line)
                        facts = est13[role] if "TLS13" in fi.name else est[role]
                        if fi.name != producer and (typ, f) in facts:
                            ctx.ok(R, what + " (established by %s)" % producer)
                            continue
                        if (fi.name, typ, f) in NULLFIELD_ASSUMED:
                            ctx.exempt(R, what, NULLFIELD_ASSUMED[(fi.name, typ, f)])
                            continue
                        bad = u.id in seen and not _guarded_in_expr(u.expr, x, chain)
                        ctx.check(R, not bad, fi.qname, "%s used as a collection/value (%s)" % (chain, norm(u.ast)[:50]),
                                  "%s (field of %s, None when the peer sends the %s extension with an empty payload) is "
                                  "iterated/indexed/dereferenced without a preceding test that it is not None: the peer "
                                  "can make the handshake die with TypeError/AttributeError instead of an alert"
                                  % (chain, cname, typ.split(".")[-1]), fi.loc(u.ast),
                                  path=None, what=what)
    ctx.require(n_uses >= 25, "C08.NULLFIELD: %d None-unsafe uses of nullable extension fields examined, floor 25" % n_uses)
    ctx.info["nullfield_uses"] = n_uses


_U13 = {}


def _under_tls13_test(fn, stmt):
    """is `stmt` lexically inside an `if` whose test requires the negotiated version to be TLS 1.3?"""
    if stmt is None:
        return False
    key = id(fn)
    if key not in _U13:
        ids = set()
        for n in ast.walk(fn):
            if isinstance(n, ast.If) and re.search(r"version > \(3, 3\)|version >= \(3, 4\)", norm(n.test)):
                for b in n.body:
                    for x in ast.walk(b):
                        ids.add(id(x))
        _U13[key] = ids
    return id(stmt) in _U13[key]


def _none_unsafe(parents, x):
    p = parents.get(x)
    if isinstance(p, (ast.For, ast.comprehension)) and getattr(p, "iter", None) is x:
        return True
    if isinstance(p, ast.Compare) and x in p.comparators and any(isinstance(o, (ast.In, ast.NotIn)) for o in p.ops):
        return True
    if isinstance(p, ast.Subscript) and p.value is x:
        return True
    if isinstance(p, ast.Attribute) and p.value is x:
        return True
    if isinstance(p, ast.Call) and x in p.args and call_name(p) not in ("bool", "str", "repr", "isinstance"):
        return True
    if isinstance(p, ast.Compare) and p.left is x and any(isinstance(o, (ast.Lt, ast.LtE, ast.Gt, ast.GtE)) for o in p.ops):
        return True
    if isinstance(p, ast.BinOp):
        return True
    return False


def _guarded_in_expr(expr, node, chain):
    """`V.f and ... V.f[..]` / `not V.f or ...`: the use is short-circuit guarded in its own expression."""
    for b in ast.walk(expr):
        if isinstance(b, ast.BoolOp):
            vals = b.values
            for i, v in enumerate(vals):
                if any(y is node for y in ast.walk(v)):
                    for prev in vals[:i]:
                        if isinstance(b.op, ast.And) and attr_chain(prev) == chain:
                            return True
                        if isinstance(b.op, ast.Or) and isinstance(prev, ast.UnaryOp) and isinstance(prev.op, ast.Not) \
                                and attr_chain(prev.operand) == chain:
                            return True
    return False


RULES.insert(5, ("C08.NULLFIELD", "quick", rule_nullfield))


# ----------------------------------------------------------------- OPTIONAL
def _is_next_none(v):
    """`next(<search>, None)` or `getFirstMatching(<ours>, <peer's>)`: None when nothing matches."""
    if isinstance(v, ast.Call) and isinstance(v.func, ast.Name) and v.func.id == "getFirstMatching":
        return True
    return isinstance(v, ast.Call) and isinstance(v.func, ast.Name) and v.func.id == "next" and \
        len(v.args) == 2 and isinstance(v.args[1], ast.Constant) and v.args[1].value is None


def rule_optional(ctx):
    """OPTIONAL: a local bound to `next(<search over peer data>, None)` is None when the peer's data
    has no match; every attribute/subscript use of it is reachable only through a not-None edge."""
    R = "C08.OPTIONAL"
    from ..query import truthy_edges
    sites = 0
    for fi in ctx.index.all_functions():
        if fi.module.name not in ("tlsconnection", "tlsrecordlayer", "keyexchange", "handshakehelpers"):
            continue
        binds = [n for n in own_nodes(fi.node) if isinstance(n, ast.Assign) and len(n.targets) == 1
                 and isinstance(n.targets[0], ast.Name) and _is_next_none(n.value)]
        if not binds:
            continue
        g = ctx.an.cfg(fi)
        for b in binds:
            v = b.targets[0].id
            d = [n for n in g.nodes if n.ast is b]
            if not d:
                raise AnalysisError("C08.OPTIONAL: CFG node of `%s` not found in %s" % (norm(b), fi.qname))
            sites += 1
            others = [n for n in g.nodes if assigns(n, v) and n is not d[0]]
            seen = g.reach(g.normal_succ(d[0]), blocked=others, cut=truthy_edges(g, v))
            uses = []
            for u in g.nodes:
                if u.id not in seen or u.expr is None:
                    continue
                for x in ast.walk(u.expr):
                    if isinstance(x, (ast.Attribute, ast.Subscript)) and isinstance(x.value, ast.Name) \
                            and x.value.id == v and not _guarded_in_expr(u.expr, x.value, v):
                        uses.append(u)
                # the value handed on (argument, stored, returned) while it may still be None
                if u.kind != "test" and not uses:
                    for x in ast.walk(u.expr):
                        if isinstance(x, ast.Call):
                            for a in list(x.args) + [k.value for k in x.keywords]:
                                if isinstance(a, ast.Name) and a.id == v and call_name(x) not in ("bool", "isinstance", "str", "repr"):
                                    uses.append(u)
            ctx.check(R, not uses, fi.qname, "`%s = %s(..)` used only after a not-None test" % (v, b.value.func.id),
                      "`%s` is None when nothing in the peer's message matches, and `%s` dereferences it without a "
                      "preceding test: the peer can make the handshake die with AttributeError/TypeError instead of "
                      "an alert" % (v, norm(uses[0].ast)[:70] if uses else ""),
                      fi.loc(uses[0].ast) if uses else fi.loc(b), path=lines(g.path(seen, uses[0].id)) if uses else None,
                      what="%s %s" % (fi.short, v))
    # getFirstMatching really is a may-return-None search (the rule relies on its name only here)
    gfm = ctx.index.func("utils.lists:getFirstMatching")
    rets = [r for r in own_nodes(gfm.node) if isinstance(r, ast.Return)]
    ctx.check(R, any(isinstance(r.value, ast.Constant) and r.value.value is None or _is_next_none(r.value) for r in rets),
              gfm.qname, "getFirstMatching returns None when nothing matches",
              "getFirstMatching no longer returns None for `no match`; the OPTIONAL rule's premise must be re-confirmed",
              gfm.loc())
    ctx.require(sites >= 8, "C08.OPTIONAL: %d `next(.., None)` / getFirstMatching bindings found, floor 8" % sites)


RULES.insert(6, ("C08.OPTIONAL", "quick", rule_optional))


def rule_range(ctx):
    """RANGE: numeric values taken from the peer's extensions are range-checked (alert) before use."""
    from .c01 import rsl_range
    rsl_range(ctx, "C08.RANGE")


RULES.insert(7, ("C08.RANGE", "quick", rule_range))


# ----------------------------------------------------------------- HELLO (meaning of the sanity checks)
def rule_hello_checks(ctx):
    """HELLO: what the ClientHello sanity checks of the server mean.  Each row binds fields of the
    received hello to boundary values (empty lists, missing extensions, inconsistent lists) and states
    when _serverGetClientHello must abort with an alert; the function's CFG is walked for every
    assignment (condeval.outcomes), nothing is executed."""
    from ..condeval import Rec
    from .common import spec_rows
    R = "C08.HELLO"
    T13 = {"ver_ext": [True], "ver_ext.versions": [((3, 4),)]}
    ids = [(), (Rec(identity=b"i"),), (Rec(identity=b""),), (Rec(identity=b"i"), Rec(identity=b"j"))]
    shares = [None, (), (Rec(group=23),), (Rec(group=24), Rec(group=23)), (Rec(group=23), Rec(group=24)),
              (Rec(group=23), Rec(group=23)), (Rec(group=29),)]
    F = frozenset({1, 26})

    def d(*ds):
        out = {}
        for x in ds:
            out.update(x)
        return out
    rows = [
        dict(what="cipher_suites and compression_methods non-empty, null compression offered",
             dom={"clientHello.cipher_suites": [(), (47,)], "clientHello.compression_methods": [(), (0,), (1,), (1, 0)]},
             abort=lambda e: not e["clientHello.cipher_suites"] or 0 not in e["clientHello.compression_methods"]),
        dict(what="supported_versions not empty",
             dom={"ext": [True], "ext.versions": [(), ((3, 3),)], "ext.sigalgs": [((4, 1),)]},
             abort=lambda e: not e["ext.versions"]),
        dict(what="signature_algorithms not empty in a TLS 1.2 hello",
             dom={"clientHello.client_version": [(3, 2), (3, 3)], "ext": [None, True], "ext.sigalgs": [(), ((4, 1),)],
                  "ext.versions": [((3, 3),)]},
             abort=lambda e: e["clientHello.client_version"] >= (3, 3) and bool(e["ext"]) and not e["ext.sigalgs"]),
        dict(what="ALPN list and every name in it non-empty",
             dom={"alpnExt": [True], "alpnExt.protocol_names": [(), (b"h2",), (b"",), (b"h2", b""), (b"h2", b"http/1.1")]},
             abort=lambda e: not e["alpnExt.protocol_names"] or any(not x for x in e["alpnExt.protocol_names"])),
        dict(what="SNI payload and name list non-empty",
             dom={"sniExt": [True], "sniExt.extData": [b"", b"x"], "sniExt.serverNames": [(), ("n",)],
                  "sniExt.hostNames": [()]},
             abort=lambda e: not e["sniExt.extData"] or not e["sniExt.serverNames"]),
        dict(what="SNI carries exactly one, non-empty host name",
             dom={"sniExt": [True], "sniExt.extData": [b"x"], "sniExt.serverNames": [("n",)],
                  "sniExt.hostNames": [(b"a",), (b"a", b"b"), (b"",)]},
             abort=lambda e: len(e["sniExt.hostNames"]) > 1 or not e["sniExt.hostNames"][0]),
        dict(what="extended_master_secret has no payload",
             dom={"emsExt": [True, None], "emsExt.extData": [b"", b"x"]},
             abort=lambda e: bool(e["emsExt"]) and bool(e["emsExt.extData"])),
        dict(what="ec_point_formats non-empty and offers uncompressed (TLS <= 1.2)",
             dom={"real_version": [(3, 3)], "ecExt": [True], "ecExt.formats": [(), (0,), (1,), (1, 0)],
                  "ECPointFormat.uncompressed": [0]},
             abort=lambda e: 0 not in e["ecExt.formats"]),
        dict(what="post_handshake_auth has no payload",
             dom=d(T13, {"pha": [True], "pha.extData": [b"", b"x"]}), abort=lambda e: bool(e["pha.extData"])),
        dict(what="delegated_credential lists at least one algorithm",
             dom=d(T13, {"dc_ext": [True], "dc_ext.sigalgs": [(), ((4, 3),)]}), abort=lambda e: not e["dc_ext.sigalgs"]),
        dict(what="psk_key_exchange_modes not empty",
             dom=d(T13, {"psk_modes": [True], "psk_modes.modes": [(), (1,)]}), abort=lambda e: not e["psk_modes.modes"]),
        dict(what="pre_shared_key: identities and binders non-empty, pairwise, none empty, last extension, modes present",
             dom=d(T13, {"psk": [True], "psk.identities": ids, "psk.binders": [(), (b"b",), (b"",), (b"b", b"c")],
                         "clientHello.extensions[-1]": [True, "another"], "psk_modes": [True, None],
                         "psk_modes.modes": [(1,)]}),
             abort=lambda e: not e["psk.identities"] or not e["psk.binders"]
             or len(e["psk.identities"]) != len(e["psk.binders"])
             or any(not i.fields["identity"] for i in e["psk.identities"]) or any(not b for b in e["psk.binders"])
             or e["clientHello.extensions[-1]"] is not True or not e["psk_modes"]),
        dict(what="(EC)DHE: supported_groups and key_share present, consistent, unique and in the advertised order",
             dom=d(T13, {"psk": [None], "sig_algs": [True], "sup_groups": [True, None], "key_share": [True, None],
                         "sup_groups.groups": [(), (23, 24), (24, 23, 29), (26, 23)], "key_share.client_shares": shares,
                         "TLS_1_3_FORBIDDEN_GROUPS": [F]}),
             abort=lambda e: not e["sup_groups"] or not e["key_share"] or not e["sup_groups.groups"]
             or e["key_share.client_shares"] is None or bool(F & set(e["sup_groups.groups"]))
             or any(s_.fields["group"] not in e["sup_groups.groups"] for s_ in e["key_share.client_shares"])
             or len({s_.fields["group"] for s_ in e["key_share.client_shares"]}) != len(e["key_share.client_shares"])
             or [s_.fields["group"] for s_ in e["key_share.client_shares"]]
             != [g_ for g_ in e["sup_groups.groups"] if g_ in {s_.fields["group"] for s_ in e["key_share.client_shares"]}]),
        dict(what="groups TLS 1.3 forbids are tolerated only when TLS 1.2 is offered too",
             dom={"ver_ext": [True], "ver_ext.versions": [((3, 4),), ((3, 4), (3, 3))], "psk": [None], "sig_algs": [True],
                  "sup_groups": [True], "key_share": [True], "sup_groups.groups": [(26, 23), (23,)],
                  "key_share.client_shares": [(Rec(group=23),)], "TLS_1_3_FORBIDDEN_GROUPS": [F]},
             abort=lambda e: 26 in e["sup_groups.groups"] and (3, 3) not in e["ver_ext.versions"]),
        dict(what="a TLS 1.3 hello needs a usable key exchange (PSK, or groups + key share + signature_algorithms)",
             dom=d(T13, {"psk": [None], "psk_modes": [None], "sig_algs": [True, None], "sup_groups": [True], "key_share": [True],
                         "sup_groups.groups": [(23,)], "key_share.client_shares": [(Rec(group=23),)],
                         "TLS_1_3_FORBIDDEN_GROUPS": [F]}),
             abort=lambda e: not e["sig_algs"]),
        dict(what="early_data has no payload and comes with a PSK",
             dom=d(T13, {"early_data": [True], "early_data.extData": [b"", b"x"], "psk": [True, None],
                         "psk_modes": [True], "psk_modes.modes": [(1,)], "sig_algs": [True]}),
             abort=lambda e: bool(e["early_data.extData"]) or not e["psk"]),
        dict(what="supported_versions must contain a version the settings enable",
             dom={"ver_ext": [True], "ver_ext.versions": [((3, 3),), ((3, 5),), ((3, 5), (3, 2))],
                  "settings.versions": [((3, 3), (3, 2)), ((3, 3),)], "clientHello.cipher_suites": [(47,)],
                  "settings.minVersion": [(3, 1), (3, 3)]},
             abort=lambda e: not [v for v in e["settings.versions"]
                                  if v in e["ver_ext.versions"] and v >= e["settings.minVersion"]]),
    ]
    rows.append(dict(what="SNI host name is a valid DNS name",
                     dom={"sniExt": [True], "sniExt.extData": [b"x"], "sniExt.serverNames": [("n",)],
                          "sniExt.hostNames": [(b"a",)], "is_valid_hostname(name)": [True, False]},
                     abort=lambda e: not e["is_valid_hostname(name)"]))
    spec_rows(ctx, R, TLSCONN + "_serverGetClientHello", rows)
    # the same kind of rows for what the TLS 1.3 client requires of the server's first flight
    spec_rows(ctx, R, TLSCONN + "_clientTLS13Handshake", [
        dict(what="ServerHello selects a key share or a PSK",
             dom={"sr_kex": [None, True], "sr_psk": [None, True], "sr_kex.server_share": [True]},
             abort=lambda e: not e["sr_kex"] and not e["sr_psk"],
             msg="a TLS 1.3 ServerHello with neither key_share nor pre_shared_key must be refused (the keys would "
                 "be derived from public values only)"),
        dict(what="CertificateRequest lists signature algorithms when the client is going to sign",
             dom={"certificate_request": [True], "clientCertChain": [True], "privateKey": [True],
                  "valid_sig_algs": [None, (), ((8, 4),)], "signature_scheme is None": [False]},
             abort=lambda e: not e["valid_sig_algs"],
             msg="a CertificateRequest without signature algorithms must be answered with an alert (the selection "
                 "helper asserts on a missing list)"),
    ])
    spec_rows(ctx, R, TLSREC + "_handle_pha", [
        dict(what="post-handshake CertificateRequest lists signature algorithms when the client is going to sign",
             dom={"cert.x509List": [True], "p_key": [True], "valid_sig_algs": [None, (), ((8, 4),)],
                  "sig_scheme is None": [False]},
             abort=lambda e: not e["valid_sig_algs"],
             msg="a post-handshake CertificateRequest without signature algorithms must be answered with an alert"),
    ])


RULES.insert(8, ("C08.HELLO", "quick", rule_hello_checks))


# ----------------------------------------------------------------- PRESENCE
# uses whose safety is a CONDITIONAL presence fact: (function, type) -> (condition type, guard names, reason).
# The rule verifies both halves: the hello sanity checks establish `condition type present => type
# present`, and every such use is conjoined (earlier operand of the same `and`) with one of the guard names.
PRESENCE_ASSUMED = {
    ("_serverTLS13Handshake", "ExtensionType.psk_key_exchange_modes"):
        ("ExtensionType.pre_shared_key", ("psks", "psk"),
         "psk_key_exchange_modes is only consulted when the hello carries pre_shared_key (`psks`) or a PSK was "
         "selected from it (`psk`); _serverGetClientHello refuses a TLS 1.3 hello that has pre_shared_key "
         "without psk_key_exchange_modes"),
}


def _conditional_fact(ctx, role, cond_typ, typ):
    """producer establishes: extension cond_typ present => extension typ present (TLS 1.3 hello)."""
    from ..query import truthy_edges, falsy_edges
    pname, hs, msgvar = PRODUCERS[role]
    fi = ctx.index.func(TLSCONN + pname)
    g = ctx.an.cfg(fi)
    from .common import getmsg_nodes
    gm = getmsg_nodes(g, hs_type=hs)
    ys = [n for n in g.nodes if is_value_yield(n)]
    groups = _ext_vars(fi, g, {msgvar})
    cut = set()
    for (msg, t), defs in groups.items():
        if t == typ:
            cut |= _alias_cuts(g, defs)
        if t == cond_typ:
            for d, v in defs:
                cut |= falsy_edges(g, v)
    for t in g.nodes:
        if t.kind == "test" and "(3, 4) in ver_ext.versions" in norm(t.expr):
            cut.add((t.id, "F"))
    seen = g.reach(g.normal_succ(gm[0]), cut=cut)
    return not any(y.id in seen for y in ys)


def _present_facts(ctx, role, assume_tls13):
    """extension types that are present whenever the hello producer of this role yields."""
    from ..query import truthy_edges
    pname, hs, msgvar = PRODUCERS[role]
    fi = ctx.index.func(TLSCONN + pname)
    g = ctx.an.cfg(fi)
    from .common import getmsg_nodes
    gm = getmsg_nodes(g, hs_type=hs)
    ys = [n for n in g.nodes if is_value_yield(n)]
    facts = set()
    for (msg, typ), defs in _ext_vars(fi, g, {msgvar} | ({"result"} if role == "client" else set())).items():
        cut = set()
        for d, v in defs:
            cut |= truthy_edges(g, v)
        if assume_tls13:
            for t in g.nodes:
                if t.kind == "test" and "(3, 4) in ver_ext.versions" in norm(t.expr):
                    cut.add((t.id, "F"))
        seen = g.reach(g.normal_succ(gm[0]), cut=cut)
        if not any(y.id in seen for y in ys) and typ not in REPLACED_AFTER_HRR:
            facts.add(typ)
    return facts


def _alias_cuts(g, defs):
    """edges on which the extension bound by `defs` [(def node, var)] is known present: tests of any of
    the variables, counted only where every definition of the variable reaching the test is one of
    these bindings (the names `ext`, `old_ext`, `new_ext` are reused for other extensions)."""
    from ..query import truthy_when
    mine = {}
    for d, v in defs:
        mine.setdefault(v, set()).add(d.id)
    cut = set()
    for t in g.nodes:
        if t.kind != "test" or t.expr is None:
            continue
        for lab, outcome in (("T", True), ("F", False)):
            for v in truthy_when(t.expr, outcome):
                if v in mine and {r.id for r in reaching_defs(g, t, v)} <= mine[v]:
                    cut.add((t.id, lab))
    return cut


def _unreachable_when_absent(ctx, fi, g, d, v, u, others):
    """finite-domain discharge: with `v` absent (None) and every other extension variable of the
    function either absent or present, the walk from the binding never reaches the use."""
    import itertools
    from ..condeval import outcomes, Rec
    from .common import dead_edge_labels
    names = sorted({w for w in others if w != v and any(
        t.kind == "test" and t.expr is not None and w in {x.id for x in ast.walk(t.expr) if isinstance(x, ast.Name)}
        and v in {x.id for x in ast.walk(t.expr) if isinstance(x, ast.Name)} for t in g.nodes)})[:3]
    txt = norm(u.ast)
    cache = {}

    def ao(t):
        if t.id not in cache:
            cache[t.id] = dead_edge_labels(g, t, [g.exit])
        return cache[t.id]
    for combo in itertools.product([None, Rec(present=True)], repeat=len(names)):
        env = dict(zip(names, combo))
        env[v] = None
        reached = set()
        outcomes(g, fi.node, env, ao, watch={txt}, reached=reached, start=g.normal_succ(d))
        if reached:
            return False
    return True


def rule_presence(ctx):
    """PRESENCE: `v = <received message>.getExtension(T)` is None when the peer left the extension out;
    every `v.attr` / `v[..]` is reachable (from where the message was received) only through a test
    that the extension is present - on `v` or on another variable bound to the same extension of the
    same message - or T is an extension whose presence the hello sanity checks of that role
    establish on every path, or the use is unreachable for every absent/present combination of the
    extension variables its guards mention (finite-domain walk)."""
    R = "C08.PRESENCE"
    est = {r: _present_facts(ctx, r, False) for r in ("server", "client")}
    est13 = {r: _present_facts(ctx, r, True) for r in ("server", "client")}
    ctx.info["extensions_present_after_hello_sanity_checks"] = {
        r: sorted(t.split(".")[-1] for t in v) for r, v in est13.items()}
    n_uses = 0
    for fi in ctx.index.all_functions():
        if fi.module.name not in ("tlsconnection", "tlsrecordlayer") or fi.cls is None:
            continue
        role = "server" if re.match(r"_(server|handshakeServer)", fi.name) or fi.name in ("_handle_srv_pha",) else \
            ("client" if re.match(r"_(client|handshakeClient)", fi.name) or fi.name == "_handle_pha" else None)
        if role is None:
            continue
        g = ctx.an.cfg(fi)
        producer = PRODUCERS[role][0]
        groups = _ext_vars(fi, g, RECEIVED[role])
        allvars = {n.ast.targets[0].id for n in g.nodes if n.kind == "stmt" and isinstance(n.ast, ast.Assign)
                   and len(n.ast.targets) == 1 and isinstance(n.ast.targets[0], ast.Name)
                   and isinstance(n.ast.value, ast.Call) and call_name(n.ast.value) == "getExtension"}
        for (msg, typ), defs in groups.items():
            cut = _alias_cuts(g, defs)
            msgdefs = [n for n in g.nodes if n.kind == "stmt" and isinstance(n.ast, ast.Assign)
                       and any(attr_chain(t) == msg for t in n.ast.targets)]
            for d, v in defs:
                others = [n for n in g.nodes if assigns(n, v) and n is not d]
                others += [n for n in g.nodes if n.kind == "loop" and isinstance(n.ast, ast.For)
                           and v in {x.id for x in ast.walk(n.ast.target) if isinstance(x, ast.Name)}]
                # epoch: the last binding of the message before this getExtension (or the entry)
                starts = [m for m in msgdefs if d.id in g.reach(g.normal_succ(m), blocked=[o for o in msgdefs if o is not m])]
                srcs = [x for m in starts for x in g.normal_succ(m)] or [g.entry]
                seen_abs = g.reach(srcs, blocked=[o for o in msgdefs if o not in starts], cut=cut)
                if d.id not in seen_abs:
                    continue        # the binding itself is only reached with the extension present
                seen = g.reach(g.normal_succ(d), blocked=others, cut=cut)
                for u in g.nodes:
                    if u.id not in seen or u.expr is None:
                        continue
                    hit = None
                    for x in ast.walk(u.expr):
                        if isinstance(x, (ast.Attribute, ast.Subscript)) and isinstance(x.value, ast.Name) \
                                and x.value.id == v and isinstance(x.ctx, ast.Load) \
                                and not _guarded_in_expr(u.expr, x.value, v):
                            hit = x
                            break
                    if hit is None:
                        continue
                    n_uses += 1
                    what = "%s %s #%s" % (fi.short, v, norm(u.expr)[:50])
                    facts = est13[role] if ("TLS13" in fi.name or _under_tls13_test(fi.node, u.ast)) else est[role]
                    if fi.name != producer and typ in facts:
                        ctx.ok(R, what + " (presence established by %s)" % producer)
                        continue
                    if u.kind == "stmt" and _unreachable_when_absent(ctx, fi, g, d, v, u, allvars):
                        ctx.ok(R, what + " (unreachable when absent: finite-domain walk)")
                        continue
                    if (fi.name, typ) in PRESENCE_ASSUMED:
                        cond_typ, guards, why = PRESENCE_ASSUMED[(fi.name, typ)]
                        conj = False
                        for bo in ast.walk(u.expr):
                            if isinstance(bo, ast.BoolOp) and isinstance(bo.op, ast.And):
                                for i, val in enumerate(bo.values):
                                    if any(y is hit for y in ast.walk(val)):
                                        conj = any({x.id for x in ast.walk(p_) if isinstance(x, ast.Name)} & set(guards)
                                                   for p_ in bo.values[:i])
                        if conj and _conditional_fact(ctx, role, cond_typ, typ):
                            ctx.exempt(R, what, why)
                            continue
                    ctx.fail(R, fi.qname, "`%s` of %s used without a presence test (%s)" % (v, typ.split(".")[-1], norm(u.expr)[:50]),
                             "`%s = %s.getExtension(%s)` is None when the peer leaves the extension out, and `%s` "
                             "dereferences it on a path without a test of `%s`: the peer can make the handshake die "
                             "with AttributeError instead of an alert" % (v, msg, typ, norm(u.expr)[:70], v),
                             fi.loc(u.ast), path=lines(g.path(seen, u.id)))
    ctx.info["presence_uses"] = n_uses


RULES.insert(6, ("C08.PRESENCE", "quick", rule_presence))


# ----------------------------------------------------------------- CONTENT-TYPES
def rule_content_types(ctx):
    """CONTENT-TYPES: the table of record content types the record layer lets through
    (ContentType.all) agrees with what _getNextRecord can route: every listed type is either passed
    through unconditionally or has a framing registered with the Defragmenter; a listed type with
    neither reaches Defragmenter.add_data, which raises ValueError for unknown types."""
    R = "C08.CONTENT-TYPES"
    from ..consteval import ClassEval
    ct = ClassEval(ctx.index.cls("constants:ContentType").node, what="constants.ContentType").own
    allv = ct.get("all")
    if not isinstance(allv, (tuple, list)) or not allv:
        raise AnalysisError("C08.CONTENT-TYPES: ContentType.all not evaluable")
    names = {k: v for k, v in ct.items() if isinstance(v, int)}
    fi = ctx.index.func(TLSREC + "_getNextRecord")
    # which types are handed up without touching the defragmenter: decided by walking the function for
    # each value of header.type (condeval.outcomes, nothing is run) and asking whether add_data is reached
    from ..condeval import outcomes
    g = ctx.an.cfg(fi)
    cache = {}

    def ao(t):
        if t.id not in cache:
            cache[t.id] = dead_edge_labels(g, t, [g.exit])
        return cache[t.id]

    def is_add(st):
        return any(call_name(c) == "add_data" for c in calls_in(st))
    if not any(n.kind == "stmt" and n.ast is not None and is_add(n.ast) for n in g.nodes):
        raise AnalysisError("C08.CONTENT-TYPES: Defragmenter.add_data call of _getNextRecord not found")
    passed = set()
    memo = {}
    for v in sorted(set(names.values())):
        hit = False
        for ver in ((3, 3), (3, 4)):
            env = {"ContentType." + k: x for k, x in names.items()}
            env.update({"header.type": v, "header.ssl2": False, "self.version": ver,
                        "__index__": ctx.index, "__an__": ctx.an})
            reached = set()
            outcomes(g, fi.node, env, ao, memo, watch={"add": is_add}, reached=reached)
            hit = hit or bool(reached)
        if not hit:
            passed.add(v)
    init = ctx.index.func(TLSREC + "__init__")
    framed = set()
    for c in calls_in(init.node):
        if call_name(c) in ("add_static_size", "add_dynamic_size") and c.args:
            a = attr_chain(c.args[0]) or ""
            if a.startswith("ContentType.") and a.split(".")[1] in names:
                framed.add(names[a.split(".")[1]])
    ctx.require(len(passed) >= 1 and len(framed) >= 3, "C08.CONTENT-TYPES: routes of _getNextRecord not recognised")
    for v in allv:
        ctx.check(R, v in passed or v in framed, "constants:ContentType", "content type %r has a route" % (v,),
                  "ContentType.all lists %r, which _getNextRecord neither passes through nor has a Defragmenter "
                  "framing for: a record of that type gets past the unknown-type alert and makes "
                  "Defragmenter.add_data raise ValueError (no alert, undocumented exception)" % (v,),
                  ctx.index.cls("constants:ContentType").loc() if hasattr(ctx.index.cls("constants:ContentType"), "loc") else "tlslite/constants.py")


def rule_format_args(ctx):
    """FORMAT: an error path must produce its alert, not a TypeError: a `"... %s ..." % x` with ONE
    conversion whose right operand is a protocol version (a 2-tuple: client_version, server_version,
    version, minVersion, maxVersion, real_version) raises "not all arguments converted" instead of
    formatting - the operand has to be wrapped (`str(x)` / `(x,)`).  Checked at every `%` formatting in the
    protocol modules."""
    import re as _re
    R = "C08.FORMAT"
    TUPLES = ("client_version", "server_version", "version", "minVersion", "maxVersion", "real_version",
              "protocol_version", "high_ver")
    n = 0
    for fi in ctx.index.all_functions():
        if fi.module.name not in ("tlsconnection", "tlsrecordlayer", "recordlayer", "keyexchange", "messages", "extensions"):
            continue
        for x in own_nodes(fi.node):
            if not (isinstance(x, ast.BinOp) and isinstance(x.op, ast.Mod) and isinstance(x.left, ast.Constant)
                    and isinstance(x.left.value, str)):
                continue
            specs = _re.findall(r"%(?!%)[#0 +-]*\d*(?:\.\d+)?[sdrxXif]", x.left.value)
            n += 1
            r = x.right
            if isinstance(r, ast.Tuple):
                ok = len(r.elts) == len(specs)
                why = "%d conversions, %d arguments" % (len(specs), len(r.elts))
            else:
                last = (attr_chain(r) or "").split(".")[-1]
                ok = not (len(specs) == 1 and last in TUPLES)
                why = "`%s` is a version tuple: `%%` unpacks it into two arguments for one conversion" % norm(r)
            ctx.check(R, ok, fi.qname, x, "formatting `%s` raises TypeError instead of producing the error text (%s): "
                      "the alert of this error path is never sent" % (norm(x)[:80], why), fi.loc(x),
                      what="%s: `%s` formats" % (fi.short, norm(x)[:50]))
    if n < 3:
        raise AnalysisError("%s: only %d %%-formattings found" % (R, n))


RULES.insert(9, ("C08.FORMAT", "quick", rule_format_args))
RULES.insert(9, ("C08.CONTENT-TYPES", "quick", rule_content_types))


RULES.append(("C08.KEYTYPE", "quick", borrowed("c05", "rule_scheme", "C05.", "C08.")))
# a key share / DH value outside its admissible range or length is malformed peer input: it must be refused
# with an alert before the arithmetic that would otherwise end in an IndexError / wrong secret
RULES.append(("C08.PEER-VALUES", "quick", borrowed("c10", "rule_peer_values", "C10.", "C08.")))
