"""C10 - signatures never emitted when faulty; peer key-agreement values refused when invalid."""
import ast

from ..index import AnalysisError, attr_chain, norm, own_nodes
from ..query import calls_in, call_name, is_value_yield, lines, assigns
from ..flow import reaching_defs
from ..condeval import check_cond
from .common import borrowed
from .common import (TLSCONN, TLSREC, nodes_with_call, consumes_of, dead_edge_labels, must_pass, rule_consume)

EXPLANATION = (
    "SIGN-VERIFY: for every private-key signing site in protocol code (ServerKeyExchange signers, "
    "CertificateVerify makers for TLS <= 1.2, TLS 1.3 client/server and post-handshake auth) every "
    "path from the signing call to the use of the signature as message content passes an effective "
    "gate `if not <verify of the same key>(signature, same data, same parameters)`; a non-returning "
    "gate whose alert generator is merely called (not iterated) is not effective (CONSUME). "
    "PEER-VALUES: the range / length / small-subgroup / all-zero gates of FFDH, X25519/X448, NIST "
    "ECDH, SRP and DSA verification are present, effective, placed before (or, for the all-zero "
    "check, after) the exponentiation they protect, and mean what the standards say - each guard is "
    "evaluated over the finite set of boundary values (0, 1, 2, p-2, p-1, p, ...) and compared with "
    "the specified predicate. PSS-STRICT: RSAKey.EMSA_PSS_verify, interpreted over sample encoded "
    "messages built by the checker's own RFC 8017 encoder (hashes and MGF1 replaced by reference "
    "stand-ins; nothing of the library runs), accepts the correct encoding and refuses the encoding "
    "with any single octet altered, an unused leading bit set or another message hash.")
NOT_DECIDED = ("soundness of the signature mathematics, that verify rejects every non-canonical "
               "encoding, agreement of both parties' secrets, on-curve validation inside python-ecdsa")
TECHNIQUE = ("def-use + CFG must-pass-through for sign-then-verify; finite-domain evaluation of range guards; "
             "abstract interpretation of EMSA_PSS_verify's source over sample encodings (no library code runs)")

SIGN_ATTRS = {"sign": "verify", "hashAndSign": "hashAndVerify"}
MODULES = ("keyexchange", "tlsconnection", "tlsrecordlayer")


def _sign_sites(fi, g):
    """(node, key text, data text, target text, extra args text) for private-key signing calls."""
    out = []
    for n in g.nodes:
        if n.kind != "stmt" or not isinstance(n.ast, ast.Assign) or not isinstance(n.ast.value, ast.Call):
            continue
        call = n.ast.value
        f = call.func
        keys = None
        if isinstance(f, ast.Attribute) and f.attr in SIGN_ATTRS:
            recv = norm(f.value)
            if "rivate" in recv or recv in ("p_key", "dc_key", "privateKey"):
                keys = [(recv, f.attr)]
        elif isinstance(f, ast.Name) and f.id in ("sig_func", "sign_func", "signer"):
            defs = reaching_defs(g, n, f.id)
            keys = []
            for d in defs:
                if d.kind == "stmt" and isinstance(d.ast, ast.Assign) and isinstance(d.ast.value, ast.Attribute) \
                        and d.ast.value.attr in SIGN_ATTRS:
                    keys.append((norm(d.ast.value.value), d.ast.value.attr, d))
                else:
                    keys = None
                    break
        if not keys:
            continue
        tgt = norm(n.ast.targets[0])
        out.append((n, keys, call, tgt))
    return out


def rule_sign_verify(ctx):
    R = "C10.SIGN-VERIFY"
    total = 0
    for fi in ctx.index.all_functions():
        if fi.module.name not in MODULES:
            continue
        g = ctx.an.cfg(fi)
        for n, keys, call, tgt in _sign_sites(fi, g):
            total += 1
            data = norm(call.args[0]) if call.args else "?"
            rest = [norm(a) for a in call.args[1:]] + sorted("%s=%s" % (k.arg, norm(k.value)) for k in call.keywords)
            sinks = [g.exit] + [x for x in g.nodes if is_value_yield(x)]
            for x in g.nodes:
                if x is not n and x.ast is not None and x.kind in ("stmt", "consume", "return") and x.expr is not None:
                    for c in calls_in(x.expr):
                        if call_name(c) in ("create", "_sendMsg", "_sendMsgs", "_queue_message") and \
                                tgt in [norm(a) for a in c.args]:
                            sinks.append(x)
            gates = []
            for t in g.nodes:
                if t.kind != "test" or not (isinstance(t.expr, ast.UnaryOp) and isinstance(t.expr.op, ast.Not)
                                            and isinstance(t.expr.operand, ast.Call)):
                    continue
                vc = t.expr.operand
                if not vc.args or norm(vc.args[0]) != tgt:
                    continue
                if "T" not in dead_edge_labels(g, t, sinks):
                    continue
                vf = vc.func
                okkey = False
                if isinstance(vf, ast.Attribute) and len(keys) == 1 and len(keys[0]) == 2:
                    okkey = norm(vf.value) == keys[0][0] and vf.attr == SIGN_ATTRS[keys[0][1]]
                elif isinstance(vf, ast.Name):
                    vdefs = reaching_defs(g, t, vf.id)
                    # every sign alias definition has a sibling verify alias of the same key in its block
                    pairs = []
                    for d in vdefs:
                        if d.kind == "stmt" and isinstance(d.ast, ast.Assign) and \
                                isinstance(d.ast.value, ast.Attribute):
                            pairs.append((norm(d.ast.value.value), d.ast.value.attr, d))
                    want = sorted((k[0], SIGN_ATTRS[k[1]]) for k in keys)
                    got = sorted((p[0], p[1]) for p in pairs)
                    okkey = bool(pairs) and want == got
                    if okkey and all(len(k) == 3 for k in keys):
                        # same branch: each sign-alias def is adjacent to a verify-alias def of the same key
                        for k in keys:
                            sib = [p for p in pairs if p[0] == k[0] and abs(p[2].line - k[2].line) <= 2]
                            okkey = okkey and bool(sib)
                vdata = norm(vc.args[1]) if len(vc.args) > 1 else "?"
                vrest = [norm(a) for a in vc.args[2:]] + sorted("%s=%s" % (k.arg, norm(k.value)) for k in vc.keywords)
                same_params = vdata == data and (vrest == rest or _params_compatible(rest, vrest))
                if okkey and same_params:
                    gates.append(t)
            must_pass(ctx, R, fi, g, [n], sinks, gates,
                      "signature `%s` verified with the signer's own public key before use" % tgt,
                      "a signature made with the private key can be placed in a message without having "
                      "been verified against the same key, data and parameters (a faulty signature - e.g. "
                      "after an RSA-CRT computation fault - would leak the key)")
    ctx.require(total >= 9, "C10.SIGN-VERIFY: %d private-key signing sites found, confirmed floor 9" % total)
    ctx.info["signing_sites"] = total


def _params_compatible(srest, vrest):
    """ecdsa: sign(hash, hashAlg=h) is checked by verify(sig, hash, sigdecode) - python-ecdsa API."""
    if len(srest) == 1 and srest[0].startswith("hashAlg=") and vrest == ["ecdsa.util.sigdecode_der"]:
        return True
    return False


def _gate(ctx, R, q, frag, sinks_pred, dom, spec, what, meaning, fail="T", anchor_before=None):
    fi = ctx.index.func(q)
    g = ctx.an.cfg(fi)
    tests = [t for t in g.nodes if t.kind == "test" and norm(t.expr) == frag]
    sinks = [n for n in g.nodes if sinks_pred(n)]
    if not sinks:
        raise AnalysisError("%s: protected operation not found in %s" % (R, q))
    eff = [t for t in tests if fail in dead_edge_labels(g, t, sinks)]
    ok = must_pass(ctx, R, fi, g, [g.entry], sinks, eff, what,
                   "%s: the check is missing, not effective, or placed after the operation it protects" % meaning,
                   start_after=False)
    if eff and dom is not None:
        check_cond(ctx, R, fi, eff[0].ast, eff[0].expr, dom, spec, what + " (meaning)", meaning, closed=True)
    return ok


def rule_peer_values(ctx):
    R = "C10.PEER-VALUES"
    KX = "keyexchange:"
    is_pow = lambda n: n.kind == "stmt" and n.ast is not None and "powMod(" in norm(n.ast)
    is_ret = lambda n: n.kind == "return"
    P = 11
    _gate(ctx, R, KX + "FFDHKeyExchange.calc_shared_key", "not 2 <= peer_share < self.prime - 1", is_pow,
          {"peer_share": [-1, 0, 1, 2, 5, P - 2, P - 1, P, P + 1], "self.prime": [P]},
          lambda e: not (2 <= e["peer_share"] < P - 1), "FFDH peer share in [2, p-2] before the exponentiation",
          "a peer share of 0, 1, p-1 or anything outside [2, p-2] must be refused before it is used")
    _gate(ctx, R, KX + "FFDHKeyExchange.calc_shared_key", "S in (1, self.prime - 1)", is_ret,
          {"S": [0, 1, 2, P - 2, P - 1], "self.prime": [P]}, lambda e: e["S"] in (1, P - 1),
          "FFDH shared secret not in the order-2 subgroup",
          "a shared secret of 1 or p-1 (small subgroup) must be refused")
    _gate(ctx, R, KX + "FFDHKeyExchange.calc_public_value", "dh_Y in (1, self.prime - 1)", is_ret,
          {"dh_Y": [0, 1, 2, P - 1], "self.prime": [P]}, lambda e: e["dh_Y"] in (1, P - 1),
          "own FFDH public value not in the order-2 subgroup", "a public value of 1 or p-1 must not be sent")
    _gate(ctx, R, KX + "FFDHKeyExchange._normalise_peer_share", "numBytes(self.prime) != len(peer_share)",
          lambda n: n.kind == "return" and "bytesToNumber" in norm(n.ast),
          {"numBytes(self.prime)": [256], "len(peer_share)": [255, 256, 257]},
          lambda e: e["len(peer_share)"] != 256, "TLS 1.3 FFDH share has exactly the prime's length",
          "an FFDH key share whose length differs from the prime's must be refused")
    fi = ctx.index.func(KX + "FFDHKeyExchange.__init__")
    g = ctx.an.cfg(fi)
    t = [x for x in g.nodes if x.kind == "test" and norm(x.expr) == "not 1 < self.generator < self.prime"]
    ok = bool(t) and "T" in dead_edge_labels(g, t[0], [g.exit])
    ctx.check(R, ok, fi.qname, "generator in (1, p)", "a DH generator outside (1, p) must be refused", fi.loc())
    if t:
        check_cond(ctx, R, fi, t[0].ast, t[0].expr, {"self.generator": [0, 1, 2, P - 1, P, P + 1], "self.prime": [P]},
                   lambda e: not (1 < e["self.generator"] < P), "generator range (meaning)",
                   "the generator must satisfy 1 < g < p", closed=True)
    # X25519 / X448
    fx = ctx.index.func(KX + "ECDHKeyExchange.calc_shared_key")
    gx = ctx.an.cfg(fx)
    mult = [n for n in gx.nodes if n.expr is not None and n.kind in ("stmt", "return") and
            any(isinstance(c.func, ast.Name) and c.func.id == "fun" for c in calls_in(n.expr))]
    ctx.require(len(mult) >= 1, "C10.PEER-VALUES: X25519/X448 scalar multiplication not found")
    if mult:
        lt = [t_ for t_ in gx.nodes if t_.kind == "test" and norm(t_.expr) == "len(peer_share) != size"]
        eff = [t_ for t_ in lt if "T" in dead_edge_labels(gx, t_, mult)]
        xb = [t_ for t_ in gx.nodes if t_.kind == "test" and norm(t_.expr) == "self.group in self._x_groups"]
        must_pass(ctx, R, fx, gx, xb, mult, eff, "X25519/X448 share length checked before the multiplication",
                  "an X25519/X448 share of the wrong length reaches the scalar multiplication",
                  cut={(x.id, "F") for x in xb})
        # the meaning of whatever length test is there: refuse exactly the lengths that differ from the
        # group's size (an empty or short share would index past its end, a long one be truncated)
        lts = [t_ for t_ in gx.nodes if t_.kind == "test" and "len(peer_share)" in norm(t_.expr)
               and "T" in dead_edge_labels(gx, t_, mult)]
        for t_ in lts:
            check_cond(ctx, R, fx, t_.ast, t_.expr, {"len(peer_share)": [0, 1, 31, 32, 33, 55, 56, 57], "size": [32, 56]},
                       lambda e: e["len(peer_share)"] != e["size"], "X25519/X448 share length (meaning)",
                       "an X25519/X448 share is refused exactly when its length differs from the group's", closed=True)
        for m in mult:
            var = None
            if m.kind == "stmt" and isinstance(m.ast, ast.Assign) and isinstance(m.ast.targets[0], ast.Name):
                var = m.ast.targets[0].id
            if var is None:
                ctx.fail(R, fx.qname, "all-zero check applied to the RESULT of the multiplication",
                         "the X25519/X448 shared secret is used directly (`%s`) without the all-zero check on "
                         "the result: low-order peer points yield a zero secret and must be refused" % norm(m.ast)[:70],
                         fx.loc(m.ast))
                continue
            seen = gx.reach(gx.normal_succ(m))
            rets = [n for n in gx.nodes if n.kind == "return" and n.id in seen]
            nz = [n for n in gx.nodes if n.kind == "stmt" and norm(n.ast) == "self._non_zero_check(%s)" % var]
            must_pass(ctx, R, fx, gx, [m], rets, nz, "all-zero check applied to the RESULT of the multiplication",
                      "the X25519/X448 shared secret is returned without the all-zero check on the result: "
                      "low-order peer points (not only the all-zero share) yield a zero secret and must be refused")
    nzf = ctx.index.func(KX + "ECDHKeyExchange._non_zero_check")
    src = [norm(s) for s in own_nodes(nzf.node) if isinstance(s, (ast.AugAssign, ast.If, ast.Raise))]
    gz = ctx.an.cfg(nzf)
    tz = [t_ for t_ in gz.nodes if t_.kind == "test" and norm(t_.expr) == "summa == 0"]
    ok = any(s == "summa |= i" for s in src) and bool(tz) and "T" in dead_edge_labels(gz, tz[0], [gz.exit])
    ctx.check(R, ok, nzf.qname, "_non_zero_check ORs all bytes and raises on zero",
              "_non_zero_check must accumulate every byte with |= and raise when the result is zero", nzf.loc())
    # NIST curves: point decoding inside a try whose handlers raise
    hs = [(tr, h, hn) for (tr, h, hn) in gx.handlers]
    okh = len(hs) >= 2 and all(gx.exit.id not in gx.reach([hn]) for (_, _, hn) in hs)
    dec = [n for n in gx.nodes if n.kind == "stmt" and "from_bytes(" in norm(n.ast)]
    pt = [n for n in gx.nodes if n.kind == "stmt" and norm(n.ast) == "S = ecdhYc * private"]
    ctx.check(R, okh and bool(dec) and bool(pt), fx.qname, "NIST peer point decoded (validated) under raising handlers",
              "an invalid NIST curve point must be refused (decode under handlers that raise)", fx.loc())
    if dec and pt:
        must_pass(ctx, R, fx, gx, [gx.entry], pt, dec, "point decoded before the multiplication",
                  "the NIST-curve multiplication can run on an undecoded/unvalidated point", start_after=False)
    # SRP
    _gate(ctx, R, KX + "SRPKeyExchange.processServerKeyExchange", "B % N == 0", is_pow,
          {"B": [0, 5, P, 2 * P], "N": [P]}, lambda e: e["B"] % P == 0, "SRP: B mod N != 0",
          "an SRP B that is a multiple of N must be refused")
    _gate(ctx, R, KX + "SRPKeyExchange.processServerKeyExchange", "(g, N) not in goodGroupParameters", is_pow,
          None, None, "SRP: group parameters from the known-good list", "unknown SRP group parameters must be refused")
    _gate(ctx, R, KX + "SRPKeyExchange.processClientKeyExchange", "A % self.N == 0", is_pow,
          {"A": [0, 5, P, 2 * P], "self.N": [P]}, lambda e: e["A"] % P == 0, "SRP: A mod N != 0",
          "an SRP A that is a multiple of N must be refused")
    for frag, what in (("numBits(N) < self.settings.minKeySize", "SRP prime not below minKeySize"),
                       ("numBits(N) > self.settings.maxKeySize", "SRP prime not above maxKeySize")):
        _gate(ctx, R, KX + "SRPKeyExchange.processServerKeyExchange", frag, is_pow, None, None, what,
              "the SRP group size must respect the settings' key size limits")
    # DSA verify: 0 < r < q and 0 < s < q before the inverse
    fd = ctx.index.func("utils.python_dsakey:Python_DSAKey.verify")
    gd = ctx.an.cfg(fd)
    inv = [n for n in gd.nodes if n.kind == "stmt" and "invMod(s, self.q)" in norm(n.ast)]
    ctx.require(len(inv) == 1, "C10.PEER-VALUES: DSA invMod not found")
    Q = 7
    dom = {"r": [-1, 0, 1, Q - 1, Q, Q + 1], "s": [-1, 0, 1, Q - 1, Q, Q + 1], "self.q": [Q],
           "self.p": [29], "self.g": [2], "self.y": [3]}
    rng = [t_ for t_ in gd.nodes if t_.kind == "test" and {"r", "s"} <= {x.id for x in ast.walk(t_.expr) if isinstance(x, ast.Name)}]
    good = []
    for t_ in rng:
        dl = dead_edge_labels(gd, t_, inv)
        if dl:
            good.append((t_, dl[0]))
    if good and inv:
        t_, dl = good[0]
        must_pass(ctx, R, fd, gd, [gd.entry], inv, [t_], "DSA: r and s range-checked before the inversion",
                  "DSA verification computes with r/s that were not range-checked", start_after=False)
        accept_when = (lambda v: v) if dl == "F" else (lambda v: not v)
        from ..condeval import mismatches, Unknown
        try:
            bad = mismatches(t_.expr, dom, lambda e: (0 < e["r"] < Q and 0 < e["s"] < Q) if dl == "F"
                             else not (0 < e["r"] < Q and 0 < e["s"] < Q))
        except Unknown as u:
            raise AnalysisError("C10.PEER-VALUES: DSA range condition uses unmodelled operand %s" % u)
        ctx.check(R, not bad, fd.qname, "DSA: 0 < r < q and 0 < s < q",
                  "DSA verification must proceed exactly when 0 < r < q and 0 < s < q; the guard `%s` "
                  "decides otherwise for %s (s = 0 makes every signature with r = 1 verify)" % (
                      norm(t_.expr), bad[0][0] if bad else ""), fd.loc(t_.ast))
    else:
        ctx.fail(R, fd.qname, "DSA range gate", "no effective range check on r and s before invMod", fd.loc())
    # anonymous ECDH server key exchange checks (client side)
    fa = ctx.index.func(KX + "AECDHKeyExchange.processServerKeyExchange")
    ga = ctx.an.cfg(fa)
    use = [n for n in ga.nodes if n.ast is not None and n.kind in ("stmt", "return") and "calc_shared_key(" in norm(n.ast)]
    for frag, what in (("serverKeyExchange.curve_type != ECCurveType.named_curve or serverKeyExchange.named_curve not in self.acceptedCurves",
                        "server's curve is a named curve we advertised"),):
        tt = [t_ for t_ in ga.nodes if t_.kind == "test" and norm(t_.expr) == frag]
        eff = [t_ for t_ in tt if "T" in dead_edge_labels(ga, t_, use)]
        if use:
            must_pass(ctx, R, fa, ga, [ga.entry], use, eff, "ECDHE: " + what,
                      "the client computes a shared key on a curve it did not advertise", start_after=False)
    # meaning of the value checks of the key exchange classes, over boundary values
    from .common import spec_rows
    spec_rows(ctx, R, KX + "ADHKeyExchange.processServerKeyExchange", [
        dict(what="FFDH: server prime of at least 1024 bits",
             dom={"dh_p": [2 ** 1023 - 1, 2 ** 1023, 2 ** 1023 + 1, 2 ** 2047]},
             abort=lambda e: e["dh_p"] < 2 ** 1023,
             msg="the client must refuse a Diffie-Hellman prime shorter than 1024 bits")])
    spec_rows(ctx, R, KX + "AECDHKeyExchange.processClientKeyExchange", [
        dict(what="ECDH: client share present", dom={"ecdhYc": [b"", b"\x04xy"]},
             abort=lambda e: not e["ecdhYc"], msg="an empty client ECDH share must be refused"),
        dict(what="ECDH: a common point format when both sides sent ec_point_formats",
             dom={"ecdhYc": [b"\x04xy"], "ext_c": [True], "ext_s": [True, None], "ext_c.formats": [(0,), (1,), (1, 0)],
                  "ext_s.formats": [(0,), (1,)]},
             abort=lambda e: bool(e["ext_s"]) and not set(e["ext_c.formats"]) & set(e["ext_s.formats"]),
             msg="without a common EC point format the key exchange must be refused")])
    spec_rows(ctx, R, KX + "AECDHKeyExchange.processServerKeyExchange", [
        dict(what="ECDH: named curve we advertised and a non-empty server share",
             dom={"serverKeyExchange.curve_type": [1, 3], "ECCurveType.named_curve": [3],
                  "serverKeyExchange.named_curve": [23, 24], "self.acceptedCurves": [(23,), (24, 23)],
                  "ecdh_Ys": [b"", b"\x04xy"]},
             abort=lambda e: e["serverKeyExchange.curve_type"] != 3
             or e["serverKeyExchange.named_curve"] not in e["self.acceptedCurves"] or not e["ecdh_Ys"],
             msg="the client must refuse a curve type/curve it did not advertise and an empty share")])


def rule_consume_c10(ctx):
    rule_consume(ctx, "C10.CONSUME")


def rule_negotiated_version(ctx):
    """NEG-VERSION: both sides parameterise the key agreement (padding of the FFDH secret, permitted
    groups) with the NEGOTIATED version.  In TLS 1.3 the legacy ServerHello.server_version /
    ClientHello.client_version fields say (3, 3); the TLS 1.3 handshake functions never read them,
    and every key-exchange object they build takes `self.version` / the `version` they were given."""
    R = "C10.NEG-VERSION"
    n_kex = 0
    for q in (TLSCONN + "_clientTLS13Handshake", TLSCONN + "_serverTLS13Handshake"):
        fi = ctx.index.func(q)
        legacy = [x for x in ast.walk(fi.node) if isinstance(x, ast.Attribute)
                  and x.attr in ("server_version", "client_version") and isinstance(x.ctx, ast.Load)]
        ctx.check(R, not legacy, fi.qname, "%s does not read the legacy version fields" % fi.short,
                  "`%s` reads a legacy hello version field inside the TLS 1.3 handshake: there it is (3, 3), not "
                  "the negotiated version, so anything derived from it (key agreement padding, verify-bytes "
                  "layout) differs from what the peer computes" % (norm(legacy[0]) if legacy else ""),
                  fi.loc(legacy[0]) if legacy else fi.loc())
        for c in calls_in(fi.node):
            if call_name(c) in ("_getKEX", "FFDHKeyExchange", "ECDHKeyExchange", "KEMKeyExchange") and len(c.args) >= 2:
                n_kex += 1
                v = norm(c.args[1])
                ctx.check(R, v in ("self.version", "version", "(3, 4)"), fi.qname,
                          "`%s` built for the negotiated version" % norm(c)[:60],
                          "the key exchange object `%s` is parameterised with `%s`, not the negotiated version"
                          % (norm(c)[:60], v), fi.loc(c))
    ctx.require(n_kex >= 2, "C10.NEG-VERSION: key exchange constructions in the TLS 1.3 handshakes not found")


def rule_der_rest(ctx):
    """DER-REST: a signature is accepted only if it is exactly SEQUENCE { INTEGER r, INTEGER s }.  Every
    remainder a DER `remove_*` step hands back is either fed to the next step or tested by a gate that
    refuses the signature - and the gate tests THAT remainder (the definition of the step reaches the
    test).  A remainder that is dropped, or a test that looks at an older remainder, lets trailing
    bytes through (signature malleability)."""
    R = "C10.DER-REST"
    DER = ("remove_sequence", "remove_integer", "remove_octet_string", "remove_bitstring", "remove_object",
           "remove_constructed")
    n_steps = 0
    for fi in ctx.index.all_functions():
        if not any(call_name(c) in DER for c in calls_in(fi.node)):
            continue
        g = ctx.an.cfg(fi)
        steps = [n for n in g.nodes if n.kind == "stmt" and isinstance(n.ast, ast.Assign)
                 and isinstance(n.ast.value, ast.Call) and call_name(n.ast.value) in DER
                 and len(n.ast.targets) == 1 and isinstance(n.ast.targets[0], ast.Tuple)
                 and len(n.ast.targets[0].elts) == 2 and isinstance(n.ast.targets[0].elts[1], ast.Name)]
        exits = [n for n in g.nodes if n.kind == "return"]
        for st in steps:
            n_steps += 1
            rem = st.ast.targets[0].elts[1].id
            used = False
            for u in g.nodes:
                if u is st or u.ast is None:
                    continue
                e = u.expr if (u.kind == "test" and u.expr is not None) else u.ast
                if u.kind == "test":
                    reads = any(isinstance(x, ast.Name) and x.id == rem for x in ast.walk(e))
                    gate = reads and bool(dead_edge_labels(g, u, [n for n in exits if not _refusal(n)]))
                    ok_use = gate
                elif u.kind == "stmt" and isinstance(u.ast, ast.Assign) and isinstance(u.ast.value, ast.Call) \
                        and call_name(u.ast.value) in DER:
                    ok_use = any(isinstance(a, ast.Name) and a.id == rem for a in u.ast.value.args)
                else:
                    ok_use = False
                if ok_use and st.id in {d.id for d in reaching_defs(g, u, rem)}:
                    used = True
                    break
            ctx.check(R, used, fi.qname, st.ast,
                      "the remainder `%s` left by `%s` is neither parsed further nor checked to be empty before "
                      "the value is accepted: bytes after it are ignored" % (rem, norm(st.ast)), fi.loc(st.ast),
                      what="%s: remainder of `%s` consumed or refused" % (fi.short, norm(st.ast)))
    if n_steps < 3:
        raise AnalysisError("%s: only %d DER steps found (confirmed 3)" % (R, n_steps))


def _refusal(n):
    """a return of False / None, i.e. not an accepting exit"""
    if n.kind != "return" or n.ast is None:
        return False
    v = n.ast.value
    return v is None or (isinstance(v, ast.Constant) and v.value in (False, None))


def rule_pss_only(ctx):
    """PSS-ONLY: a key whose certificate restricts it to RSASSA-PSS (key_type "rsa-pss") verifies no
    PKCS#1 v1.5 signature, whatever the hash: for each (key type, padding, hash) the PKCS#1 v1.5
    comparison is reached only for an unrestricted key with pkcs1 padding (condeval.outcomes)."""
    from .common import spec_rows
    R = "C10.PSS-ONLY"

    def v15(st):
        return any(call_name(c) == "_raw_pkcs1_verify" for c in calls_in(st))
    spec_rows(ctx, R, "utils.rsakey:RSAKey.verify", [
        dict(what="PKCS#1 v1.5 verification only with an unrestricted RSA key and pkcs1 padding",
             dom={"padding": ["pkcs1", "pss"], "self.key_type": ["rsa", "rsa-pss"], "hashAlg": ["sha1", "sha256", None]},
             abort=lambda e: False,
             effects={"PKCS#1 v1.5 comparison": (v15, lambda e: e["padding"] == "pkcs1" and e["self.key_type"] != "rsa-pss")},
             msg="an rsa-pss key must refuse every PKCS#1 v1.5 signature (RFC 8446 4.2.3, RFC 4055), an rsa key "
                 "must check it")])


def rule_defaults(ctx):
    """DEFAULTS: callers that rely on a default get the strict one.  The TLS 1.3 code calls
    ECDHKeyExchange.calc_shared_key without naming the admissible point formats; RFC 8446 4.2.8.2 admits
    only the uncompressed form, so the default must be exactly ('uncompressed',) - None means "anything
    the decoder understands".  And RSASSA-PSS encodes / verifies with emBits = modBits - 1 (RFC 8017 8.1),
    the exact bit length, not bytes * 8."""
    from ..condeval import ev, Unknown
    from .common import size_primitives
    R = "C10.DEFAULTS"
    fi = ctx.index.func("keyexchange:ECDHKeyExchange.calc_shared_key")
    names = [a.arg for a in fi.node.args.args]
    dfl = fi.node.args.defaults
    ok, got = False, "no default"
    if "valid_point_formats" in names:
        k = names.index("valid_point_formats") - (len(names) - len(dfl))
        if 0 <= k < len(dfl):
            try:
                got = ev(dfl[k], {})
                ok = tuple(got) == ("uncompressed",) if got is not None else False
            except (Unknown, TypeError):
                got = norm(dfl[k])
    ctx.check(R, ok, fi.qname, "default of valid_point_formats",
              "calc_shared_key's default for valid_point_formats is %r; the TLS 1.3 callers pass nothing and must get "
              "('uncompressed',) - any other default makes them accept compressed / hybrid key shares" % (got,), fi.loc())
    prims = size_primitives(ctx)
    n = 0
    for f2 in ctx.index.all_functions():
        if f2.module.name != "utils.rsakey":
            continue
        for c in calls_in(f2.node):
            if call_name(c) in ("EMSA_PSS_encode", "EMSA_PSS_verify") and len(c.args) >= 3:
                # the emBits argument: (mHash, emBits, ..) for encode, (mHash, EM, emBits, ..) for verify
                arg = c.args[1] if call_name(c) == "EMSA_PSS_encode" else c.args[2]
                n += 1
                bad = None
                for bits in (2047, 2048, 2049, 1023):
                    N = (1 << (bits - 1)) | 1
                    try:
                        v = ev(arg, {"self.n": N, "__calls__": prims, "__index__": ctx.index, "__fn__": f2.node})
                    except (Unknown, TypeError, AttributeError) as e:
                        raise AnalysisError("%s: cannot evaluate emBits `%s` in %s: %s" % (R, norm(arg), f2.qname, e))
                    if v != bits - 1:
                        bad = "for a %d-bit modulus emBits is %r, must be %d" % (bits, v, bits - 1)
                        break
                ctx.check(R, bad is None, f2.qname, c, "RSASSA-PSS emBits `%s`: %s" % (norm(arg), bad), f2.loc(c),
                          what="%s: emBits = modBits - 1" % f2.short)
    if n < 2:
        raise AnalysisError("%s: only %d EMSA-PSS calls found" % (R, n))


def rule_pss_strict(ctx):
    """PSS-STRICT: RSAKey.EMSA_PSS_verify accepts exactly the encodings RFC 8017 9.1.2 admits, decided by
    interpreting its source (c01shared.run_method; hashes and MGF1 replaced by reference stand-ins;
    nothing of the library runs) over sample encoded messages: a correct EM is accepted - with and
    without salt, with emBits a multiple of 8 and not - and an EM in which ANY single octet differs
    (trailer, H, every octet of the PS / 0x01 / salt area under the mask, the unused leading bits) is
    refused with InvalidSignature.  A window that is one octet short, a separator test at the wrong
    index or a comparison against the wrong hash shows as one accepted altered sample."""
    import hashlib
    from ..condeval import Unknown
    from .c01shared import run_method
    from .common import size_primitives
    R = "C10.PSS-STRICT"
    fi = ctx.index.func("utils.rsakey:RSAKey.EMSA_PSS_verify")

    def mgf1(seed, length, h):
        out, c = b"", 0
        while len(out) < length:
            out += hashlib.new(h, bytes(seed) + c.to_bytes(4, "big")).digest()
            c += 1
        return out[:length]

    def encode(mhash, embits, h, salt):
        hl = hashlib.new(h).digest_size
        emlen = (embits + 7) // 8
        H = hashlib.new(h, bytes(8) + mhash + salt).digest()
        db = bytes(emlen - len(salt) - hl - 2) + b"\x01" + salt
        mask = mgf1(H, emlen - hl - 1, h)
        mdb = bytearray(a ^ b for a, b in zip(db, mask))
        mdb[0] &= 0xff >> (8 * emlen - embits)
        return bytes(mdb) + H + b"\xbc"

    class _H(object):
        _tlsverif_sample = True

        def __init__(self, name):
            self.digest_size = hashlib.new(name).digest_size
    hooks = dict(size_primitives(ctx))
    hooks.update({"MGF1": lambda base, seed, length, h: bytearray(mgf1(seed, length, h)),
                  "secureHash": lambda d, h: bytearray(hashlib.new(h, bytes(d)).digest()),
                  "divceil": lambda a, b: -(-a // b),
                  "getattr": lambda o, nm, *d: (lambda: _H(nm))})
    n = 0
    for h, embits, slen in (("sha256", 1023, 32), ("sha256", 1024, 0), ("sha1", 1021, 20), ("sha384", 1023, 5)):
        mhash = hashlib.new(h, b"message").digest()
        salt = bytes(range(7, 7 + slen))
        good = encode(mhash, embits, h, salt)
        emlen = len(good)
        samples = [("the correct encoding", good, True)]
        for pos in range(emlen):
            b_ = bytearray(good)
            b_[pos] ^= 0x01
            samples.append(("octet %d of %d altered (bit 0)" % (pos, emlen), bytes(b_), False))
        if 8 * emlen != embits:
            b_ = bytearray(good)
            b_[0] ^= 0x80
            samples.append(("an unused leading bit set", bytes(b_), False))
        samples.append(("encoding for another message hash", encode(hashlib.new(h, b"other").digest(), embits, h, salt), False))
        for label, em, want in samples:
            try:
                kind, val = run_method(ctx, fi, [bytearray(mhash), bytearray(em), embits, h, slen],
                                       {"self": "SELF", "__exc__": ctx.an.exc, "hashlib": "HASHLIB"}, hooks)
            except (Unknown, TypeError, AttributeError, KeyError, IndexError, ValueError) as e:
                raise AnalysisError("%s: cannot interpret %s for `%s`: %s" % (R, fi.qname, label, e))
            n += 1
            if want:
                ok = kind == "return" and val is True
                exp = "must be accepted (return True)"
            else:
                ok = kind == "raise" and "InvalidSignature" in str(val)
                exp = "must be refused with InvalidSignature"
            ctx.check(R, ok, fi.qname, "%s emBits=%d sLen=%d: %s" % (h, embits, slen, label),
                      "EMSA-PSS-VERIFY (%s, emBits %d, sLen %d) on %s %s; it %s (RFC 8017 9.1.2)" % (
                          h, embits, slen, label, ("returns %r" % (val,)) if kind == "return" else "ends with %s %s" % (kind, val), exp),
                      fi.loc(), what="EMSA_PSS_verify: " + label)
    if n < 400:
        raise AnalysisError("%s: only %d sample encodings evaluated" % (R, n))


RULES = [
    ("C10.DEFAULTS", "quick", rule_defaults),
    ("C10.PSS-STRICT", "quick", rule_pss_strict),
    ("C10.PSS-ONLY", "quick", rule_pss_only),
    ("C10.DER-REST", "quick", rule_der_rest),
    ("C10.NEG-VERSION", "quick", rule_negotiated_version),
    ("C10.SIGN-VERIFY", "quick", rule_sign_verify),
    ("C10.PEER-VALUES", "quick", rule_peer_values),
    ("C10.CONSUME", "quick", rule_consume_c10),
    ("C10.LOCKSET-RSA", "quick", borrowed("c18", "rule_lockset", "C18.LOCKSET", "C10.LOCKSET", only="utils.python_rsakey:Python_RSAKey")),
]
