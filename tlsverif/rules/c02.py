"""C02 - a record is accepted only if it is exactly what the peer sent next."""
import ast

from ..index import AnalysisError, attr_chain, norm, own_nodes
from ..query import (calls_in, call_name, is_value_yield, lines, falsy_edges, assigns, flag_cuts_from)
from ..index import own_nodes
from ..condeval import check_cond
from .common import borrowed
from .common import (TLSCONN, TLSREC, RECLAYER, nodes_with_call, consumes_of, dead_edge_labels,
                     must_pass, senderror_desc, gate_table)
from . import c01shared

EXPLANATION = (
    "Path-quantified integrity-gate rules on the record layer's control-flow graphs. GATE-*: in each "
    "unprotect function every path to the normal return passes the effective integrity gate (AEAD "
    "open() followed by `buf is None: raise`; encrypt-then-MAC compare before decrypt; CBC combined "
    "MAC-and-padding check; stream MAC compare with the macGood flag), the only exempt edge being "
    "`no keys installed yet`. DISPATCH: every arm of recvRecord's dispatch calls one of the unprotect "
    "functions or is one of the two RFC 8446 plaintext exceptions, whose guards are decided over a "
    "finite domain (plaintext alert only before the first protected record of the epoch). EARLY: the "
    "undecryptable-record tolerance is switched off on every path from a successful unprotect to the "
    "delivery, the retry is control-dependent on the flag and a byte budget that accumulates. HDR13: "
    "outer header type/version/length gates precede open(). EPOCH: state switches install the "
    "pending state and reset pending to a fresh ConnectionState. MAP: every record-layer protocol "
    "exception becomes a fatal alert and a non-resumable shutdown (_sendError sends, shuts down, "
    "raises). DIR/SEQ/AAD/ROLE: directions never share state, one sequence number per record on both "
    "sides, sender and receiver build the same MAC input / AEAD additional data with the implicit "
    "sequence number, keys installed mirror-wise (shared with C01).")
NOT_DECIDED = ("that the MAC/AEAD primitives reject what they should (C09/C12: numerical); "
               "bit-level exhaustiveness of rejections; behaviour under concrete replay/reorder schedules")
TECHNIQUE = ("CFG must-pass-through with effective gates and flag-sensitive edge cuts; finite-domain guard evaluation; "
             "sibling agreement; AAD / nonce / MAC input / CBC MAC-and-padding scan by interpreting the source of "
             "the named methods over sample records with the checker's own AST evaluator (nothing of the library is run)")

UNPROTECT = ["_decryptSSL2", "_decryptAndUnseal", "_macThenDecrypt", "_decryptThenMAC", "_decryptStreamThenMAC"]


def _rets(g):
    return [n for n in g.nodes if n.kind == "return"]


def rule_gates(ctx):
    # AEAD
    R = "C02.GATE-AEAD"
    fi = ctx.index.func(RECLAYER + "_decryptAndUnseal")
    g = ctx.an.cfg(fi)
    opens = [n for n in g.nodes if n.kind == "stmt" and isinstance(n.ast, ast.Assign)
             and any(call_name(c) == "open" and [norm(a) for a in c.args][:1] == ["nonce"] and len(c.args) == 3
                     for c in calls_in(n.ast))]
    if not opens or not isinstance(opens[0].ast.targets[0], ast.Name):
        raise AnalysisError("C02.GATE-AEAD: open() call not found")
    res = opens[0].ast.targets[0].id            # the variable that receives open()'s result
    oc = [c for c in calls_in(opens[0].ast) if call_name(c) == "open"][0]
    ctx.check(R, norm(oc.args[2]) == "authData", fi.qname, "open() authenticates the additional data",
              "the AEAD open() call does not receive the computed additional data", fi.loc(opens[0].ast))
    tests = [t for t in g.nodes if t.kind == "test" and norm(t.expr) == "%s is None" % res]
    eff = [t for t in tests if "T" in dead_edge_labels(g, t, _rets(g))]
    must_pass(ctx, R, fi, g, [g.entry], _rets(g), opens, "every returned plaintext went through AEAD open()",
              "_decryptAndUnseal can return data without calling the AEAD open()", start_after=False)
    must_pass(ctx, R, fi, g, opens, _rets(g), eff, "failed AEAD open() (None) raises TLSBadRecordMAC",
              "a record whose authentication tag does not verify (open() returned None) is returned as data")
    okr = all(norm(r.ast) == "return %s" % res for r in _rets(g))
    defs = [n for n in g.nodes if assigns(n, res) and n.line > opens[0].line]
    ctx.check(R, okr and not defs, fi.qname, "returns exactly what open() produced",
              "_decryptAndUnseal must return the output of open() unchanged", fi.loc())
    # encrypt-then-MAC
    R = "C02.GATE-ETM"
    fi = ctx.index.func(RECLAYER + "_macThenDecrypt")
    g = ctx.an.cfg(fi)
    cut = falsy_edges(g, "self._readState.macContext")
    cmp_ = [t for t in g.nodes if t.kind == "test" and norm(t.expr) == "not ct_compare_digest(macBytes, checkBytes)"]
    eff = [t for t in cmp_ if "T" in dead_edge_labels(g, t, _rets(g))]
    dec = [n for n in g.nodes if n.kind == "stmt" and "encContext.decrypt(" in norm(n.ast)]
    if not dec:
        raise AnalysisError("C02.GATE-ETM: decrypt call not found")
    must_pass(ctx, R, fi, g, [g.entry], _rets(g), eff, "MAC verified on every accepting path",
              "an encrypt-then-MAC record can be accepted without a verified MAC", cut=cut, start_after=False)
    must_pass(ctx, R, fi, g, [g.entry], dec, eff, "MAC verified before decryption (verify-then-decrypt)",
              "an encrypt-then-MAC record is decrypted before its MAC was verified", cut=cut, start_after=False)
    _mac_inputs(ctx, R, fi, g, "buf")
    # CBC
    R = "C02.GATE-CBC"
    fi = ctx.index.func(RECLAYER + "_decryptThenMAC")
    g = ctx.an.cfg(fi)
    cut = falsy_edges(g, "self._readState.encContext")
    chk = [t for t in g.nodes if t.kind == "test" and norm(t.expr).startswith("not ct_check_cbc_mac_and_pad(")]
    eff = [t for t in chk if "T" in dead_edge_labels(g, t, _rets(g))]
    must_pass(ctx, R, fi, g, [g.entry], _rets(g), eff, "combined MAC-and-padding check on every accepting path",
              "a CBC record can be accepted without the MAC-and-padding check", cut=cut, start_after=False)
    if eff:
        call = eff[0].expr.operand
        from .common import resolved_text
        args = [norm(a) for a in call.args[:5]] + [resolved_text(fi.node, a) for a in call.args[5:]]
        args[1] = resolved_text(fi.node, call.args[1]) if len(call.args) > 1 else ""
        want = ["data", "self._readState.macContext", "seqnumBytes", "recordType", "self.version",
                "self._readState.encContext.block_size"]
        ctx.check(R, args == want, fi.qname, "arguments of ct_check_cbc_mac_and_pad",
                  "the MAC-and-padding check must be given (data, read MAC context, sequence number, record "
                  "type, version, block size); got %s" % args, fi.loc(eff[0].ast))
    asserts = [n for n in g.nodes if n.kind == "assert" and resolved_text(fi.node, n.expr) == "self._readState.macContext"]
    ctx.check(R, bool(asserts), fi.qname, "CBC path requires a MAC context",
              "the CBC unprotect path must insist on a MAC context", fi.loc())
    # stream
    R = "C02.GATE-STREAM"
    fi = ctx.index.func(RECLAYER + "_decryptStreamThenMAC")
    g = ctx.an.cfg(fi)
    cut = falsy_edges(g, "self._readState.macContext")
    from .common import effective_labels
    rets = _rets(g)
    cmp_ = [t for t in g.nodes if t.kind == "test" and any(call_name(c) == "ct_compare_digest" for c in calls_in(t.expr))]
    short = [t for t in g.nodes if t.kind == "test" and isinstance(t.expr, ast.Compare)
             and "len(data)" in norm(t.expr) and not cmp_.count(t)
             and {x.id for x in ast.walk(t.expr) if isinstance(x, ast.Name)} & {"macLength", "endLength"}]
    ctx.require(bool(cmp_) and bool(short), "C02.GATE-STREAM: MAC comparison / record length check not found")
    effc = [t for t in cmp_ if effective_labels(g, t, rets)]
    effs = [t for t in short if effective_labels(g, t, rets)]
    for t in cmp_ + short:
        ctx.check(R, t in effc or t in effs, fi.qname, "`%s` failing leads only to TLSBadRecordMAC" % norm(t.expr)[:50],
                  "after a failed MAC/length check the record can still be returned", fi.loc(t.ast))
    for t in cmp_:
        # which outcome of the test is the failure: the comparison is negated exactly when T aborts
        neg = isinstance(t.expr, ast.UnaryOp) and isinstance(t.expr.op, ast.Not)
        labs = effective_labels(g, t, rets)
        ctx.check(R, labs == (["T"] if neg else ["F"]), fi.qname, "a MAC mismatch (not a match) is what is refused",
                  "the MAC comparison `%s` aborts on the wrong outcome" % norm(t.expr)[:60], fi.loc(t.ast))
    cut2 = set(cut) | {(t.id, lab) for t in effs for lab in effective_labels(g, t, rets)}
    must_pass(ctx, R, fi, g, [g.entry], rets, effc, "MAC compared on every accepting path",
              "a stream-cipher record can be accepted without comparing its MAC", cut=cut2, start_after=False)
    calc = [n for n in g.nodes if n.kind == "stmt" and "self.calculateMAC(" in norm(n.ast)]
    if calc:
        seen = g.reach([g.entry], blocked=effs, cut=cut)
        ctx.check(R, calc[0].id not in seen, fi.qname, "record at least as long as the MAC before the MAC is cut off",
                  "the MAC is sliced off a record that may be shorter than the MAC", fi.loc(calc[0].ast))
    _mac_inputs(ctx, R, fi, g, "data")


def _mac_inputs(ctx, R, fi, g, var, state="self._readState"):
    """calculateMAC(m, s, type, data): m is a copy of the read state's MAC context, s that state's next
    sequence number (each through its reaching definition, whatever the locals are called)."""
    from ..flow import reaching_defs
    calc = [n for n in g.nodes if n.kind == "stmt" and "self.calculateMAC(" in norm(n.ast)]
    ok = False
    if calc:
        c = [x for x in calls_in(calc[0].ast) if call_name(x) == "calculateMAC"][0]

        def src(a):
            if isinstance(a, ast.Name):
                ds = reaching_defs(g, calc[0], a.id)
                vals = {norm(d.ast.value) for d in ds if d.ast is not None and isinstance(d.ast, ast.Assign)}
                return vals if len(vals) == 1 and len(ds) == 1 else {norm(a)}
            return {norm(a)}
        ok = len(c.args) == 4 and src(c.args[0]) == {state + ".macContext.copy()"} \
            and src(c.args[1]) == {state + ".getSeqNumBytes()"} and norm(c.args[2]) == "recordType" \
            and norm(c.args[3]) == var
    ctx.check(R, ok, fi.qname, "MAC computed over (read seqnum, type, data) with the read MAC key",
              "the receive-side MAC must be computed with the read state's key and sequence number over "
              "the record type and the data", fi.loc(calc[0].ast) if calc else fi.loc())


def rule_dispatch(ctx):
    R = "C02.DISPATCH"
    fi = ctx.index.func(RECLAYER + "recvRecord")
    chain = None
    for n in own_nodes(fi.node):
        if isinstance(n, ast.Try):
            for s in n.body:
                if isinstance(s, ast.If) and "RecordHeader2" in norm(s.test):
                    chain = s
    if chain is None:
        raise AnalysisError("C02.DISPATCH: unprotect dispatch of recvRecord not found")
    arms = []
    cur = chain
    while True:
        arms.append((cur.test, cur.body))
        if len(cur.orelse) == 1 and isinstance(cur.orelse[0], ast.If):
            cur = cur.orelse[0]
        else:
            arms.append((None, cur.orelse))
            break
    ctx.require(len(arms) >= 7, "C02.DISPATCH: %d arms found, floor 7" % len(arms))
    npass = 0
    dom_common = {"self._is_tls13_plus()": [True, False], "header.type": [20, 21, 22, 23],
                  "ContentType.change_cipher_spec": [20], "ContentType.alert": [21]}
    for test, body in arms:
        calls = [call_name(c) for s in body for c in calls_in(s)]
        unp = [c for c in calls if c in UNPROTECT]
        label = norm(test)[:70] if test is not None else "else"
        if len(body) == 1 and isinstance(body[0], ast.Pass):
            npass += 1
            if "change_cipher_spec" in norm(test):
                check_cond(ctx, R, fi, test, test, dom_common,
                           lambda e: e["self._is_tls13_plus()"] and e["header.type"] == 20,
                           "plaintext exception: TLS 1.3 ChangeCipherSpec",
                           "only a ChangeCipherSpec record in TLS 1.3 may bypass record protection",
                           closed=True)
            else:
                dom = dict(dom_common)
                dom.update({"len(data)": [2, 3], "self._readState": [True],
                            "self._readState.encContext": [None, True], "self._readState.seqnum": [0, 1]})
                check_cond(ctx, R, fi, test, test, dom,
                           lambda e: e["self._is_tls13_plus()"] and e["header.type"] == 21 and e["len(data)"] < 3
                           and bool(e["self._readState.encContext"]) and e["self._readState.seqnum"] == 0,
                           "plaintext exception: TLS 1.3 alert before the first protected record",
                           "an unprotected alert may be accepted in TLS 1.3 only while no record has yet "
                           "been received under the current read keys (sequence number 0)", closed=True)
        else:
            ctx.check(R, len(unp) >= 1, fi.qname, "dispatch arm `%s` unprotects the record" % label,
                      "dispatch arm `%s` neither calls an unprotect function nor is one of the two TLS 1.3 "
                      "plaintext exceptions: the record is accepted unauthenticated" % label,
                      fi.loc(test) if test is not None else fi.loc(chain))
            for s in body:
                if isinstance(s, ast.Assign) and isinstance(s.value, ast.Call) and call_name(s.value) in UNPROTECT:
                    ctx.check(R, norm(s.targets[0]) == "data", fi.qname, "arm `%s` replaces data with the plaintext" % label,
                              "the result of %s must replace `data`" % call_name(s.value), fi.loc(s))
    ctx.check(R, npass == 2, fi.qname, "exactly two plaintext exceptions",
              "%d dispatch arms skip record protection; RFC 8446 allows two (CCS, early alert)" % npass,
              fi.loc(chain))
    # arm guards select the function that matches the installed protection
    want = {"_decryptAndUnseal": "self._readState and self._readState.encContext and self._readState.encContext.isAEAD",
            "_macThenDecrypt": "self._readState and self._readState.encryptThenMAC",
            "_decryptThenMAC": "self._readState and self._readState.encContext and self._readState.encContext.isBlockCipher"}
    for test, body in arms:
        for s in body:
            for c in calls_in(s):
                if call_name(c) in want:
                    ctx.check(R, test is not None and norm(test) == want[call_name(c)], fi.qname,
                              "%s selected by the read state's protection" % call_name(c),
                              "%s must be selected exactly when `%s`" % (call_name(c), want[call_name(c)]),
                              fi.loc(c))
    order = [call_name(c) for test, body in arms for s in body for c in calls_in(s) if call_name(c) in UNPROTECT]
    ctx.check(R, order == ["_decryptSSL2", "_decryptAndUnseal", "_macThenDecrypt", "_decryptThenMAC",
                           "_decryptStreamThenMAC"], fi.qname, "dispatch order AEAD > EtM > CBC > stream",
              "the unprotect dispatch order changed: %s" % order, fi.loc(chain))


def rule_early(ctx):
    R = "C02.EARLY"
    fi = ctx.index.func(RECLAYER + "recvRecord")
    g = ctx.an.cfg(fi)
    ys = [n for n in g.nodes if is_value_yield(n) and "Parser(data)" in norm(n.ast)]
    reset = [n for n in g.nodes if n.kind == "stmt" and norm(n.ast) == "self.early_data_ok = False"]
    unp = [n for n in g.nodes if n.kind == "stmt" and any(call_name(c) in UNPROTECT for c in calls_in(n.ast))]
    if not ys or not unp:
        raise AnalysisError("C02.EARLY: recvRecord anchors not found")
    must_pass(ctx, R, fi, g, unp, ys, reset, "early-data tolerance switched off after a successful unprotect",
              "after a record was successfully unprotected the tolerance for undecryptable records stays on: "
              "later forged records would be skipped silently instead of being fatal")
    hs = [(tr, h, hn) for (tr, h, hn) in g.handlers if norm(h.type or ast.Name(id="")) == "TLSBadRecordMAC"]
    ctx.require(len(hs) == 1, "C02.EARLY: TLSBadRecordMAC handler not found")
    if hs:
        tr, h, hn = hs[0]
        ok = len(h.body) == 2 and isinstance(h.body[0], ast.If) and isinstance(h.body[1], ast.Raise) \
            and h.body[1].exc is None
        ctx.check(R, ok, fi.qname, "bad-MAC handler: conditional retry, else re-raise",
                  "the TLSBadRecordMAC handler must re-raise unless the early-data tolerance applies", fi.loc(h))
        if ok:
            t = h.body[0]
            check_cond(ctx, R, fi, t, t.test,
                       {"self.early_data_ok": [True, False], "self._early_data_processed": [0, 50, 100],
                        "len(data)": [10, 60], "self.max_early_data": [100]},
                       lambda e: e["self.early_data_ok"] and e["self._early_data_processed"] + e["len(data)"] < 100,
                       "undecryptable record skipped only inside the early-data budget",
                       "an undecryptable record may be skipped only while early data is tolerated and the "
                       "bytes skipped so far plus this record stay below max_early_data", closed=True)
            acc = [s for s in t.body if isinstance(s, ast.AugAssign) and isinstance(s.op, ast.Add)
                   and norm(s.target) == "self._early_data_processed" and norm(s.value) == "len(data)"]
            ctx.check(R, len(acc) == 1, fi.qname, "skipped bytes accumulate (+= len(data))",
                      "the count of skipped early-data bytes must accumulate (`+= len(data)`); otherwise the "
                      "budget never runs out and a peer can make the server consume unlimited garbage",
                      fi.loc(t))
            rest = [norm(s) for s in t.body]
            ctx.check(R, "self._readState = read_state_copy" in rest and rest[-1] == "continue", fi.qname,
                      "read state restored before the retry", "a skipped record must not advance the read "
                      "state (sequence number)", fi.loc(t))
    _snapshot_covers_restore(ctx, R, fi)
    st = ctx.index.func(RECLAYER + "early_data_ok.setter") if ctx.index.has_func(RECLAYER + "early_data_ok.setter") else None
    if st is not None:
        src = [norm(s) for s in st.node.body if not isinstance(s, ast.Expr)]
        ctx.check(R, "self._early_data_processed = 0" in src, st.qname, "setter resets the byte counter",
                  "enabling early-data tolerance must reset the skipped-byte counter", st.loc())


def _guards(fn, stmt):
    """the `if` conditions (with polarity) that enclose one statement of a function"""
    def find(stmts, acc):
        for s in stmts:
            if s is stmt:
                return acc
            if isinstance(s, ast.If):
                r = find(s.body, acc + [(s.test, True)])
                if r is None:
                    r = find(s.orelse, acc + [(s.test, False)])
                if r is not None:
                    return r
            else:
                for field in ("body", "orelse", "finalbody"):
                    b = getattr(s, field, None)
                    if isinstance(b, list) and b and isinstance(b[0], ast.stmt):
                        r = find(b, acc)
                        if r is not None:
                            return r
                for h in getattr(s, "handlers", []) or []:
                    r = find(h.body, acc)
                    if r is not None:
                        return r
        return None
    return find(fn.body, [])


def _atoms(e, out):
    if isinstance(e, ast.BoolOp):
        for v in e.values:
            _atoms(v, out)
    elif isinstance(e, ast.UnaryOp) and isinstance(e.op, ast.Not):
        _atoms(e.operand, out)
    else:
        out.add(norm(e))


def _snapshot_covers_restore(ctx, R, fi):
    """the read state put back when an undecryptable record is skipped is a snapshot that WAS taken:
    whenever the restoring branch runs, the branch that took the copy ran too (the conditions are
    compared over all truth assignments of their atoms; nothing is run)."""
    import itertools
    from ..condeval import ev, Unknown
    fn = fi.node
    restores = [n for n in own_nodes(fn) if isinstance(n, ast.Assign) and len(n.targets) == 1
                and attr_chain(n.targets[0]) == "self._readState" and isinstance(n.value, ast.Name)]
    if not restores:
        raise AnalysisError("%s: restore of the read state in recvRecord not found" % R)
    for r in restores:
        name = r.value.id
        snaps = [n for n in own_nodes(fn) if isinstance(n, ast.Assign) and len(n.targets) == 1
                 and isinstance(n.targets[0], ast.Name) and n.targets[0].id == name
                 and not (isinstance(n.value, ast.Constant) and n.value.value is None)]
        if not snaps:
            ctx.fail(R, fi.qname, r, "the read state is restored from `%s`, which is never set to a snapshot" % name,
                     fi.loc(r))
            continue
        tg = _guards(fn, r) or []
        sgs = [(_guards(fn, s_) or []) for s_ in snaps]
        atoms = set()
        for t_, _ in tg + [x for sg in sgs for x in sg]:
            _atoms(t_, atoms)
        atoms = sorted(atoms)
        bad = None
        if len(atoms) <= 10:
            for combo in itertools.product([True, False], repeat=len(atoms)):
                env = dict(zip(atoms, combo))

                def holds(gs):
                    try:
                        return all(bool(ev(t_, dict(env))) == pol for t_, pol in gs)
                    except (Unknown, TypeError):
                        return None
                if holds(tg) and not any(holds(sg) for sg in sgs):
                    bad = ", ".join("%s is %s" % (a, v) for a, v in env.items())
                    break
        ctx.check(R, bad is None, fi.qname, r,
                  "an undecryptable record can be skipped with no snapshot of the read state taken: when %s the "
                  "restore `%s` runs but `%s` was left unset (None becomes the read state)" % (bad, norm(r), name),
                  fi.loc(r), what="restored read state was snapshotted on every skipping path")


def rule_hdr13(ctx):
    R = "C02.HDR13"
    fi = ctx.index.func(RECLAYER + "_decryptAndUnseal")
    g = ctx.an.cfg(fi)
    opens = [n for n in g.nodes if n.kind == "stmt" and ".open(nonce, buf, authData)" in norm(n.ast)]
    t13 = [t for t in g.nodes if t.kind == "test" and norm(t.expr) == "not self._is_tls13_plus()" and
           isinstance(t.ast, ast.If) and any("authData = " in norm(s_) for s_ in t.ast.body)]
    if not t13 or not opens:
        raise AnalysisError("C02.HDR13: TLS 1.3 branch of _decryptAndUnseal not found")
    cut = {(t13[0].id, "T")}
    for frag, what in (("header.type != ContentType.application_data", "outer type is application_data"),
                       ("header.version != (3, 3)", "outer version is (3, 3)"),
                       ("header.length != len(buf)", "outer length equals the ciphertext length")):
        tests = [t for t in g.nodes if t.kind == "test" and norm(t.expr) == frag]
        eff = [t for t in tests if "T" in dead_edge_labels(g, t, opens)]
        must_pass(ctx, R, fi, g, t13, opens, eff, "TLS 1.3 outer header gate: " + what,
                  "a TLS 1.3 protected record is opened without checking that its " + what, cut=cut)
    ad = [n for n in g.nodes if n.kind == "stmt" and norm(n.ast) == "authData = header.write()"]
    ctx.check(R, bool(ad), fi.qname, "TLS 1.3 additional data is the record header",
              "TLS 1.3 AEAD additional data must be the received record header", fi.loc())


def rule_epoch(ctx):
    R = "C02.EPOCH"
    for nm, cur, pend in (("changeReadState", "_readState", "_pendingReadState"),
                          ("changeWriteState", "_writeState", "_pendingWriteState")):
        fi = ctx.index.func(RECLAYER + nm)
        src = [norm(s) for s in fi.node.body if not (isinstance(s, ast.Expr) and isinstance(s.value, ast.Constant))]
        tail = src[-2:]
        ok = tail == ["self.%s = self.%s" % (cur, pend), "self.%s = ConnectionState()" % pend]
        ctx.check(R, ok, fi.qname, "%s installs pending and resets it" % nm,
                  "%s must install the pending state and replace it by a fresh ConnectionState (a stale "
                  "pending state would be re-installed by the next switch)" % nm, fi.loc())
        others = [s for s in own_nodes(fi.node) if isinstance(s, ast.Assign) and
                  any(attr_chain(t) in ("self._readState", "self._writeState", "self._pendingReadState",
                                        "self._pendingWriteState") for t in s.targets)]
        ctx.check(R, len(others) == 2, fi.qname, "%s touches only its own direction" % nm,
                  "%s assigns other connection states as well" % nm, fi.loc())
    sh = ctx.index.func(RECLAYER + "shutdown")
    src = sorted(norm(s) for s in sh.node.body if isinstance(s, ast.Assign))
    ctx.check(R, src == sorted("self.%s = ConnectionState()" % x for x in
                               ("_writeState", "_readState", "_pendingWriteState", "_pendingReadState")),
              sh.qname, "shutdown clears all four states", "RecordLayer.shutdown must reset all four states", sh.loc())
    cs = ctx.index.cls("recordlayer:ConnectionState")
    init = {attr_chain(t)[5:] for s in own_nodes(cs.methods["__init__"].node) if isinstance(s, ast.Assign)
            for t in s.targets if attr_chain(t) and attr_chain(t).startswith("self.")}
    cp = {attr_chain(t)[4:]: norm(s.value) for s in own_nodes(cs.methods["__copy__"].node) if isinstance(s, ast.Assign)
          for t in s.targets if attr_chain(t) and attr_chain(t).startswith("ret.")}
    for f in sorted(init):
        ok = f in cp and ("self." + f) in cp[f]
        ctx.check(R, ok, cs.qname + ".__copy__", "copy carries " + f,
                  "ConnectionState.__copy__ does not copy %s (the early-data retry restores a wrong state)" % f,
                  cs.methods["__copy__"].loc())
    f13 = ctx.index.func(RECLAYER + "_calcTLS1_3KeyUpdate")
    ok = any(isinstance(s, ast.Assign) and norm(s.value) == "ConnectionState()" for s in own_nodes(f13.node))
    ctx.check(R, ok, f13.qname, "key update builds a fresh ConnectionState (sequence number 0)",
              "a TLS 1.3 key update must start the new epoch from a fresh ConnectionState", f13.loc())


def rule_map(ctx):
    R = "C02.MAP"
    fi = ctx.index.func(TLSREC + "_getNextRecordFromSocket")
    g = ctx.an.cfg(fi)
    rec = ctx.index.func(RECLAYER + "recvRecord")
    raised = {e for e in ctx.an.raises(rec)
              if ctx.an.exc.is_sub(e, "TLSProtocolException") or ctx.an.exc.is_sub(e, "TLSError")}
    raised -= {"TLSAbruptCloseError", "TLSClosedConnectionError"}
    # an except clause may name its classes directly or through a module-level table
    from ..condeval import ev, Unknown, Inst
    from .common import module_constants
    consts = module_constants(ctx, fi.module.name, {"__sym__": True, "__index__": ctx.index})

    def caught(h):
        if h.type is None:
            return [""]
        out = []
        for e_ in (h.type.elts if isinstance(h.type, ast.Tuple) else [h.type]):
            v = consts.get(e_.id) if isinstance(e_, ast.Name) else None
            if isinstance(v, tuple) and v and all(isinstance(x, str) for x in v):
                out += [str(x).split(".")[-1] for x in v]
            else:
                out.append(norm(e_))
        return out

    def answer(h, hn, exc_name):
        """(cannot complete, alert description) of one handler for one exception class"""
        inside = [n for n in g.nodes if n.id in g.reach([hn], follow_exc=False)]
        nr = [n for n in inside if n.kind == "noreturn"]
        lo, hi = h.lineno, getattr(h, "end_lineno", h.lineno)
        closed = bool(nr) and g.exit.id not in {n.id for n in inside} and \
            all(lo <= n.line <= hi for n in inside if n.ast is not None)
        if not nr:
            return closed, None
        d = senderror_desc(nr[0])
        arg = nr[0].call.args[0] if nr[0].call.args else None
        if isinstance(arg, ast.Name):
            # the description is computed: evaluate the handler's assignments for this exception class
            env = {"__sym__": True, "__index__": ctx.index, "__exc__": ctx.an.exc}
            for k_, v_ in consts.items():
                if isinstance(k_, str) and not k_.startswith("__"):
                    env[k_] = v_
                    env["__const__" + k_] = v_
            if h.name:
                env[h.name] = Inst(exc_name)
            from ..condeval import exec_block
            try:
                exec_block(h.body, env, stop=lambda st_: st_ is nr[0].ast or any(x is nr[0].call for x in ast.walk(st_)))
                d = str(ev(arg, env)).split(".")[-1]
            except (Unknown, TypeError, AttributeError, KeyError, IndexError):
                d = None
        return closed, d
    ctx.info["recvRecord_protocol_exceptions"] = sorted(raised)
    want = {"TLSUnexpectedMessage": "unexpected_message", "TLSRecordOverflow": "record_overflow",
            "TLSIllegalParameterException": "illegal_parameter", "TLSDecryptionFailed": "decryption_failed",
            "TLSBadRecordMAC": "bad_record_mac"}
    for e in sorted(raised | set(want)):
        hit = [(h, hn) for (tr, h, hn) in g.handlers if any(ctx.an.exc.is_sub(e, t) for t in caught(h))]
        hit = hit[:1]           # the first matching clause is the one that runs
        res = [answer(h, hn, e) for h, hn in hit]
        if e in raised:
            ctx.check(R, bool(res) and all(c for c, _ in res), fi.qname, "%s -> fatal alert" % e,
                      "recvRecord can raise %s but _getNextRecordFromSocket does not turn it into a fatal alert "
                      "(_sendError): the failure would surface without alert / shutdown" % e, fi.loc())
        if e in want and res:
            ctx.check(R, res[0][1] == want[e], fi.qname, "%s answered with %s" % (e, want[e]),
                      "%s must be answered with the %s alert (found %s)" % (e, want[e], res[0][1]), fi.loc(hit[0][0]))
    ctx.require(len(raised) >= 4, "C02.MAP: exception summary of recvRecord too small")
    # _sendError: send alert, shutdown(False), raise - in that order, on every path
    se = ctx.index.func(TLSREC + "_sendError")
    gs = ctx.an.cfg(se)
    send = consumes_of(gs, "_sendMsg")
    shut = [n for n in gs.nodes if n.kind == "stmt" and norm(n.ast) == "self._shutdown(False)"]
    rs = [n for n in gs.nodes if n.kind == "raise" and "TLSLocalAlert(alert" in norm(n.ast)]
    ok = bool(send) and bool(shut) and bool(rs)
    if ok:
        seen = gs.reach([gs.entry], follow_exc=False)
        ok = gs.exit.id not in seen
        ok = ok and shut[0].id not in gs.reach([gs.entry], blocked=send, follow_exc=False)
        ok = ok and rs[0].id not in gs.reach([gs.entry], blocked=shut, follow_exc=False)
        al = [n for n in gs.nodes if n.kind == "stmt" and "Alert().create(alertDescription, AlertLevel.fatal)" in norm(n.ast)]
        ok = ok and bool(al)
    ctx.check(R, ok, se.qname, "_sendError: fatal alert sent, then _shutdown(False), then raise TLSLocalAlert",
              "_sendError must send a fatal alert, shut the connection down non-resumably and raise, in "
              "that order and on every path", se.loc())


def _stmt(frag):
    return lambda n: n.kind in ("stmt", "return") and n.ast is not None and frag in norm(n.ast)


def rule_lengths(ctx):
    """publicly-invalid records (too short, not a block multiple, bad padding) are refused before the
    operation that would otherwise misbehave on them; SSLv2 MAC; TLS 1.3 inner plaintext cap."""
    R = "C02.LENGTHS"
    etm = {"self._readState.macContext": "F"}
    enc = {"self._readState.encContext": "F"}
    gate_table(ctx, R, RECLAYER + "_macThenDecrypt", [
        dict(what="EtM: record at least as long as the MAC before the MAC is cut off", text="len(buf) < macLength",
             fail="T", protects=_stmt("checkBytes = buf[-macLength:]"),
             cond=({"len(buf)": [0, 19, 20, 21], "macLength": [20]}, lambda e: e["len(buf)"] < 20)),
        dict(what="EtM: ciphertext is a multiple of the block size before decryption",
             text="len(buf) % blockLength != 0", fail="T", protects=_stmt("encContext.decrypt(buf)")),
        dict(what="EtM: data left after removing the explicit IV", text="not buf", fail="T",
             protects=_stmt("paddingLength = buf[-1]")),
        dict(what="EtM: padding length fits in the record", text="paddingLength + 1 > len(buf)", fail="T",
             protects=_stmt("buf = buf[:-totalPaddingLength]"),
             cond=({"paddingLength": [0, 3, 4, 5, 255], "len(buf)": [4]}, lambda e: e["paddingLength"] + 1 > 4)),
        dict(what="EtM: padding bytes all equal the padding length (TLS)", text="not paddingGood", fail="T",
             protects=_stmt("buf = buf[:-totalPaddingLength]")),
    ], sinks="return")
    # EtM padding: decided over small decrypted buffers (the function is walked, nothing is run)
    from .common import spec_rows

    def pad_bad(e):
        b, v = e["buf"], e["self.version"]
        pl = b[-1]
        if pl + 1 > len(b):
            return True
        return v != (3, 0) and any(x != pl for x in b[-(pl + 1):-1])
    spec_rows(ctx, R, RECLAYER + "_macThenDecrypt", [
        dict(what="EtM: every padding byte compared with the padding length (except SSLv3)",
             dom={"self._readState.macContext": [None], "self._readState.encContext": [True], "blockLength": [4],
                  "self.version": [(3, 0), (3, 1)],
                  "buf": [b"dddd\x03\x03\x03\x03", b"dddd\x03\x02\x03\x03", b"dddd\x02\x03\x03\x03", b"ddd\x00",
                          b"dddd\x07\x07\x07\x07", b"\x07\x07\x07\x07\x07\x07\x07\x07", b"d\x09\x09\x09"]},
             abort=pad_bad,
             msg="the encrypt-then-MAC path must compare every padding byte with the padding length")])
    gate_table(ctx, R, RECLAYER + "_decryptThenMAC", [
        dict(what="CBC: ciphertext is a multiple of the block size before decryption",
             text="len(data) % blockLength != 0", fail="T", protects=_stmt("encContext.decrypt(data)")),
    ])
    gate_table(ctx, R, RECLAYER + "_decryptAndUnseal", [
        dict(what="AEAD: record long enough for the explicit nonce", text="explicitNonceLength > len(buf)", fail="T",
             protects=_stmt("buf[:explicitNonceLength]")),
        dict(what="AEAD: record long enough for the tag", text="self._readState.encContext.tagLength > len(buf)",
             fail="T", protects=_stmt(".open(nonce, buf, authData)")),
    ])
    # SSLv2 receive path: decided over sample records (c01shared.run_method; nothing of the library runs):
    # a record whose 16-byte MAC covers the payload and the low 32 bits of the receiver's sequence number
    # is returned without MAC and padding; one altered byte, or a MAC made for another sequence number,
    # is refused with TLSBadRecordMAC
    import hashlib
    from ..condeval import Rec, Unknown
    from .c01shared import run_method, _SampleMac

    class _Mac16(_SampleMac):
        def copy(self):
            return _Mac16(self.fed)

        def digest(self):
            return hashlib.md5(b"sample-key" + self.fed).digest()
    f2 = ctx.index.func(RECLAYER + "_decryptSSL2")
    SEQ = bytes([0, 0, 0, 0, 0, 0, 1, 7])
    payload, pad = bytes(range(30, 60)), 3

    def rec(seq):
        body = payload + bytes(pad)
        return _Mac16(body + seq[-4:]).digest() + body
    cases = [("well-formed", rec(SEQ), True), ("payload byte altered", None, False), ("MAC byte altered", None, False),
             ("MAC made for another sequence number", rec(bytes([0, 0, 0, 0, 0, 0, 1, 8])), False)]
    good = rec(SEQ)
    b1 = bytearray(good); b1[20] ^= 1
    b2 = bytearray(good); b2[3] ^= 1
    cases[1] = (cases[1][0], bytes(b1), False)
    cases[2] = (cases[2][0], bytes(b2), False)
    for label, data, accept in cases:
        state = Rec(macContext=_Mac16(), encContext=None, **{"getSeqNumBytes()": SEQ})
        try:
            kind, val = run_method(ctx, f2, [data, pad], {"self._readState": state}, {})
        except (Unknown, TypeError, AttributeError, KeyError, IndexError, ValueError) as e:
            raise AnalysisError("%s: cannot interpret %s: %s" % (R, f2.qname, e))
        ok = (kind == "return" and bytes(val) == payload) if accept else (kind == "raise" and "TLSBadRecordMAC" in str(val))
        ctx.check(R, ok, f2.qname, "SSLv2 record: " + label,
                  "an SSLv2 record (%s) must be %s; the receive path %s" % (
                      label, "returned without MAC and padding" if accept else "refused with TLSBadRecordMAC",
                      "returns %r" % (bytes(val)[:8] if kind == "return" and val is not None else val) if kind == "return" else "ends with %s %s" % (kind, val)),
                  f2.loc(), what="SSLv2 receive MAC covers payload and sequence number: " + label)
    gate_table(ctx, R, RECLAYER + "recvRecord", [
        dict(what="TLS 1.3: inner plaintext (with content type) capped at limit + 1",
             text="len(data) > self.recv_record_limit + 1", fail="T", protects=_stmt("self._tls13_de_pad(data)"),
             cond=({"len(data)": [16384, 16385, 16386], "self.recv_record_limit": [16384]},
                   lambda e: e["len(data)"] > 16385)),
        dict(what="plaintext capped at the negotiated receive limit", text="len(data) > self.recv_record_limit",
             fail="T", protects=lambda n: is_value_yield(n) and "Parser(data)" in norm(n.ast),
             cond=({"len(data)": [16383, 16384, 16385], "self.recv_record_limit": [16384]},
                   lambda e: e["len(data)"] > 16384)),
    ], sinks="yield")
    dp = ctx.index.func(RECLAYER + "_tls13_de_pad")
    g = ctx.an.cfg(dp)
    rs = [n for n in g.nodes if n.kind == "raise" and "TLSUnexpectedMessage" in norm(n.ast)]
    rets = [n for n in g.nodes if n.kind == "return"]
    okd = bool(rs) and len(rets) == 1 and norm(rets[0].ast) == "return (data[:pos], value)"
    t = [x for x in g.nodes if x.kind == "test" and norm(x.expr) == "value != 0"]
    ctx.check(R, okd and bool(t), dp.qname, "TLS 1.3 de-padding: content type = last non-zero byte; all-zero is fatal",
              "_tls13_de_pad must strip trailing zeros, return the last non-zero byte as content type and refuse an "
              "all-zero inner plaintext", dp.loc())
    gate_table(ctx, R, "recordlayer:RecordSocket._recvHeader", [
        dict(what="SSLv2 header: padding not longer than the record and only with block-multiple length",
             frag="record.padding > record.length", fail="T", cut_tests={"ssl2": "F"}),
    ], sinks="yield")
    gate_table(ctx, R, TLSREC + "_getNextRecordFromSocket", [
        dict(what="empty records of any type but application data are refused",
             text="header.type != ContentType.application_data and parser.getRemainingLength() == 0", fail="T",
             cond=({"header.type": [22, 23], "ContentType.application_data": [23], "parser.getRemainingLength()": [0, 1]},
                   lambda e: e["header.type"] != 23 and e["parser.getRemainingLength()"] == 0)),
        dict(what="unknown content types are refused", text="header.type not in ContentType.all", fail="T"),
    ], sinks="yield")


def rule_shared(ctx):
    c01shared.rule_dir(ctx, "C02.DIR")
    c01shared.rule_seq(ctx, "C02.SEQ")
    c01shared.rule_aad(ctx, "C02.AAD")
    c01shared.rule_role(ctx, "C02.ROLE")


def rule_early_snapshot(ctx):
    """EARLY (snapshot): the tolerance for undecryptable early-data records that is restored after a
    middlebox-compatibility CCS is the value read just before THAT record was read: on every loop
    path from one record read to the next the snapshot is taken again (a stale snapshot would
    re-enable skipping after records of the handshake epoch were already accepted)."""
    R = "C02.EARLY"
    fi = ctx.index.func(TLSREC + "_getNextRecord")
    g = ctx.an.cfg(fi)
    reads = consumes_of(g, "_getNextRecordFromSocket")
    snaps = [n for n in g.nodes if n.kind == "stmt" and isinstance(n.ast, ast.Assign)
             and norm(n.ast.value) == "self._recordLayer.early_data_ok"]
    restores = [n for n in g.nodes if n.kind == "stmt" and isinstance(n.ast, ast.Assign)
                and any(attr_chain(t) == "self._recordLayer.early_data_ok" for t in n.ast.targets)]
    if not reads or not restores:
        raise AnalysisError("C02.EARLY: record read / early_data_ok restore not found in _getNextRecord")
    for r in restores:
        v = r.ast.value
        ok = isinstance(v, ast.Name) and all(isinstance(s_.ast.targets[0], ast.Name) and s_.ast.targets[0].id == v.id
                                             for s_ in snaps) and bool(snaps)
        ctx.check(R, ok, fi.qname, "`%s` restores the snapshot" % norm(r.ast),
                  "after a compatibility CCS early_data_ok must be restored from the snapshot taken before the "
                  "record was read, not set to `%s`" % norm(v), fi.loc(r.ast))
    for rd in reads:
        seen = g.reach(g.normal_succ(rd), blocked=snaps)
        ctx.check(R, rd.id not in seen, fi.qname, "early_data_ok snapshot retaken before every record read",
                  "a record can be read with a snapshot of early_data_ok taken before an EARLIER record: after a "
                  "CCS the stale value re-enables skipping of undecryptable records although records of the "
                  "handshake epoch were already accepted", fi.loc(rd.ast) if rd.ast is not None else fi.loc())


RULES = [
    ("C02.EARLY-SNAPSHOT", "quick", rule_early_snapshot),
    ("C02.GATES", "quick", rule_gates),
    ("C02.DISPATCH", "quick", rule_dispatch),
    ("C02.EARLY", "quick", rule_early),
    ("C02.HDR13", "quick", rule_hdr13),
    ("C02.EPOCH", "quick", rule_epoch),
    ("C02.MAP", "quick", rule_map),
    ("C02.LENGTHS", "quick", rule_lengths),
    ("C02.SHARED", "quick", rule_shared),
    ("C02.GETMSG", "quick", borrowed("c06", "rule_getmsg", "C06.GETMSG", "C02.GETMSG")),
    ("C02.RECORD-GATES", "quick", borrowed("c06", "rule_record_gates", "C06.RECORD-GATES", "C02.RECORD-GATES")),
    # unprotected ChangeCipherSpec records are skipped only while the compatibility mode of THIS handshake lasts
    ("C02.CCS-TOLERANCE", "quick", borrowed("c06", "rule_reneg", "C06.RENEG", "C02.CCS-TOLERANCE")),
]
