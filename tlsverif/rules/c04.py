"""C04 - tampering cannot yield two completed endpoints that disagree; no downgrade."""
import ast
import re

from ..index import AnalysisError, attr_chain, chain_prefixes, norm, own_nodes
from ..query import (calls_in, call_name, is_value_yield, lines, mentions_all, falsy_edges,
                     assigns)
from ..flow import backward_slice_mentions
from .common import borrowed
from .common import (TLSCONN, TLSREC, fin_summary, fin_local_gate, nodes_with_call, consumes_of,
                     getmsg_nodes, dead_edge_labels, effective_tests, tests_mentioning, must_pass,
                     senderror_desc)

EXPLANATION = (
    "Path-quantified structural rules over the handshake coroutines' control-flow graphs. FIN: each "
    "_handshakeDone call site is dominated by an effective Finished comparison (directly, through a "
    "FIN-complete callee, or through a result token that its producer yields only after the gate), "
    "the expected value depends on the running transcript and a secret, and the transcript is read "
    "before the peer's Finished is consumed. TRANSCRIPT: every handshake message received or sent "
    "enters the transcript (update dominates the parse dispatch in _getMsg; _sendMsg's update is "
    "guarded only by update_hashes/contentType; the only update_hashes=False caller is _queue_flush, "
    "whose _queue_message counterpart updates; HandshakeHashes.update/copy/digest cover all members; "
    "the only replacements of the transcript are the two HRR message_hash restarts, built alike). "
    "SCHEDULE: TLS 1.3 traffic secrets are derived with the transcript and installed with client/"
    "server secrets in the right positions. SENTINEL/SCSV: downgrade sentinels written and checked, "
    "FALLBACK_SCSV gate effective. HRR: second-ClientHello and HRR consistency gates effective on "
    "every path. BINDER: a selected PSK reaches the ServerHello only through verify_binder, which "
    "ends in an effective constant-time comparison.")
NOT_DECIDED = ("that any concrete modification is detected (needs executions against a live peer); "
               "cryptographic strength of the MAC/hash; equality of the two endpoints' views")
TECHNIQUE = "CFG must-pass-through with effective gates, interprocedural gate summaries and yield-token domination"


def _flow_functions(ctx):
    return [f for f in ctx.index.all_functions()
            if f.module.name in ("tlsconnection", "tlsrecordlayer") and f.cls is not None]


def rule_fin(ctx):
    R = "C04.FIN"
    fin = fin_summary(ctx)
    sites = 0
    for fi in _flow_functions(ctx):
        g = ctx.an.cfg(fi)
        for n in nodes_with_call(g, "_handshakeDone"):
            if fi.name == "_handshakeDone":
                continue
            sites += 1
            ok, path = fin.dominated(fi, n)
            ctx.check(R, ok, fi.qname, n.ast,
                      "handshake completion (_handshakeDone) is reachable without verifying the peer's "
                      "Finished message", fi.loc(n.ast), path=lines(path) if path else None,
                      what="%s completion site line-independent %s" % (fi.short, norm(n.ast)))
    if sites < 6:
        raise AnalysisError("C04.FIN: %d _handshakeDone call sites, confirmed floor 6" % sites)
    # each local Finished gate: expected value depends on transcript and a secret, and the
    # transcript is read before the peer's Finished is received
    ngates = 0
    for fi in _flow_functions(ctx):
        g = ctx.an.cfg(fi)
        for gate in fin.local_gates(fi):
            ngates += 1
            cmp_ = gate.expr
            sides = [cmp_.left, cmp_.comparators[0]]
            exp = [s for s in sides if not (attr_chain(s) or "").endswith(".verify_data")]
            if len(exp) != 1:
                ctx.fail(R, fi.qname, gate.ast.test, "Finished gate compares verify_data with itself",
                         fi.loc(gate.ast))
                continue
            found = backward_slice_mentions(g, exp[0], ["handshake_hash", "secret", "handshake_context"])
            has_tr = found["handshake_hash"] or found["handshake_context"]
            ctx.check(R, has_tr and found["secret"], fi.qname, "expected Finished value in " + fi.short,
                      "the value the peer's Finished is compared with does not depend on %s" % (
                          "the handshake transcript" if not has_tr else "a handshake secret"),
                      fi.loc(gate.ast))
            # order: transcript read (digest / calc_key with the hash) before _getMsg(finished)
            fins = getmsg_nodes(g, hs_type="finished")
            reads = _transcript_reads(g, exp[0])
            if fins and reads:
                after = g.reach([m for f_ in fins for m in g.normal_succ(f_)])
                reads = [r for r in reads if _reaches(g, r, [gate])]
                late = [r for r in reads if r.id in after and not _reaches(g, r, fins)]
                ctx.check(R, not late, fi.qname, "transcript read precedes receiving Finished in " + fi.short,
                          "the transcript hash used for the expected Finished value is taken after the "
                          "peer's Finished was received (it would cover the Finished itself)",
                          fi.loc(late[0].ast) if late else fi.loc(gate.ast))
            else:
                raise AnalysisError("C04.FIN: cannot locate Finished receive / transcript read in " + fi.qname)
    ctx.require(ngates >= 4, "C04.FIN: %d effective Finished gates, confirmed floor 4" % ngates)
    ctx.info["fin_complete_functions"] = sorted(f.short for f in _flow_functions(ctx) if fin.complete(f))
    need = {"_getFinished", "_clientFinished", "_serverFinished"}
    got = {s.split(".")[-1] for s in ctx.info["fin_complete_functions"]}
    for nm in sorted(need):
        ctx.check(R, nm in got, TLSCONN + nm, "%s is FIN-complete" % nm,
                  "%s can return normally without having verified the peer's Finished" % nm)


def _reaches(g, a, targets):
    seen = g.reach(g.normal_succ(a))
    return any(t.id in seen for t in targets)


def _transcript_reads(g, expr):
    """assignment nodes in the backward slice of `expr` that read the transcript."""
    names = {n.id for n in ast.walk(expr) if isinstance(n, ast.Name)}
    out, done = [], set()
    for _ in range(6):
        new = names - done
        if not new:
            break
        done |= new
        for nd in g.nodes:
            if nd.kind == "stmt" and isinstance(nd.ast, ast.Assign):
                tn = {x.id for t in nd.ast.targets for x in ast.walk(t) if isinstance(x, ast.Name)}
                if tn & new:
                    names |= {x.id for x in ast.walk(nd.ast.value) if isinstance(x, ast.Name)}
                    src = norm(nd.ast.value)
                    if re.search(r"handshake_hash|handshake_context\.digest|handshake_hashes", src) and nd not in out:
                        out.append(nd)
    return out


def rule_transcript(ctx):
    R = "C04.TRANSCRIPT"
    # receive side
    fi = ctx.index.func(TLSREC + "_getMsg")
    g = ctx.an.cfg(fi)
    upd = [n for n in g.nodes if n.kind == "stmt" and
           re.search(r"self\._handshake_hash\.update\(p\.bytes\)", norm(n.ast))]
    parse_yields = [n for n in g.nodes if is_value_yield(n) and ".parse(p)" in norm(n.ast)
                    and not re.search(r"ChangeCipherSpec|Alert\(|ApplicationData", norm(n.ast))]
    if len(parse_yields) < 12:
        raise AnalysisError("C04.TRANSCRIPT: handshake parse dispatch of _getMsg not recognised")
    must_pass(ctx, R, fi, g, [g.entry], parse_yields, upd, "transcript update before handshake parse dispatch",
              "_getMsg can hand a handshake message to the caller without adding it to the transcript",
              start_after=False)
    # the update must not be conditional on anything but being in the handshake branch: every
    # path from the sub-type gate to the dispatch passes it (same query), and it uses p.bytes
    # send side
    fs = ctx.index.func(TLSREC + "_sendMsg")
    gs = ctx.an.cfg(fs)
    supd = [n for n in gs.nodes if n.kind == "stmt" and "_handshake_hash.update(" in norm(n.ast)]
    ok = False
    if len(supd) == 1:
        # find the test controlling it
        ctl = [t for t in gs.nodes if t.kind == "test" and supd[0] in [m for m, l in t.succ if l == "T"]]
        if ctl:
            src = norm(ctl[0].expr)
            ok = src == "update_hashes and contentType == ContentType.handshake"
            arg = norm(supd[0].ast)
            buf_def = [n for n in gs.nodes if n.kind == "stmt" and norm(n.ast) == "buf = msg.write()"]
            ok = ok and "update(buf)" in arg and bool(buf_def)
            # update happens before fragmentation
            loops = [t for t in gs.nodes if t.kind == "test" and "self.recordSize" in norm(t.expr)]
            if loops:
                seen = gs.reach(gs.normal_succ(loops[0]))
                ok = ok and supd[0].id not in seen
    ctx.check(R, ok, fs.qname, "transcript update in _sendMsg",
              "_sendMsg must add the whole unfragmented handshake message to the transcript, guarded "
              "only by `update_hashes and contentType == ContentType.handshake`, before fragmentation",
              fs.loc(supd[0].ast) if supd else fs.loc())
    # who passes update_hashes=False
    for f in ctx.index.all_functions():
        for n in own_nodes(f.node):
            if isinstance(n, ast.Call) and call_name(n) in ("_sendMsg", "_sendMsgs"):
                kws = {k.arg: k.value for k in n.keywords}
                pos_false = len(n.args) >= 3 and call_name(n) == "_sendMsg" and \
                    isinstance(n.args[2], ast.Constant) and not n.args[2].value
                uh = kws.get("update_hashes")
                off = pos_false or (uh is not None and not (isinstance(uh, ast.Constant) and uh.value is True))
                if off:
                    ctx.check(R, f.name == "_queue_flush", f.qname, n,
                              "a message is sent with update_hashes disabled outside _queue_flush: it "
                              "never enters the transcript", f.loc(n))
    fq = ctx.index.func(TLSREC + "_queue_message")
    gq = ctx.an.cfg(fq)
    qupd = [n for n in gq.nodes if n.kind == "stmt" and "_handshake_hash.update(serialised_msg)" in norm(n.ast)]
    okq = False
    if qupd:
        ctl = [t for t in gq.nodes if t.kind == "test" and qupd[0] in [m for m, l in t.succ if l == "T"]]
        okq = bool(ctl) and norm(ctl[0].expr) == "msg.contentType == ContentType.handshake"
        app = [n for n in gq.nodes if n.kind == "stmt" and norm(n.ast) == "self._buffer += serialised_msg"]
        okq = okq and bool(app)
    ctx.check(R, okq, fq.qname, "transcript update in _queue_message",
              "_queue_message must add every queued handshake message to the transcript (its flush "
              "sends with update_hashes=False)", fq.loc())
    # HandshakeHashes members
    hh = ctx.index.cls("handshakehashes:HandshakeHashes")
    init = hh.methods["__init__"]
    members = []
    for n in own_nodes(init.node):
        if isinstance(n, ast.Assign):
            for t in n.targets:
                c = attr_chain(t)
                if c and c.startswith("self._handshake"):
                    members.append(c[5:])
    if len(members) < 7:
        raise AnalysisError("C04.TRANSCRIPT: HandshakeHashes members not recognised")
    up = hh.methods["update"]
    cp = hh.methods["copy"]
    usrc = [norm(n) for n in own_nodes(up.node)]
    csrc = [norm(n) for n in own_nodes(cp.node)]
    for m in members:
        if m == "_handshake_buffer":
            oku = any(s == "self._handshake_buffer += text" for s in usrc)
            okc = any(s.startswith("other._handshake_buffer = ") and "self._handshake_buffer" in s for s in csrc)
        else:
            oku = any(s == "self.%s.update(text)" % m for s in usrc)
            okc = any(s == "other.%s = self.%s.copy()" % (m, m) for s in csrc)
        ctx.check(R, oku, up.qname, "update feeds " + m,
                  "HandshakeHashes.update does not feed member %s" % m, up.loc())
        ctx.check(R, okc, cp.qname, "copy copies " + m,
                  "HandshakeHashes.copy does not copy member %s from the source" % m, cp.loc())
    dg = hh.methods["digest"]
    want = {"md5": "_handshakeMD5", "sha1": "_handshakeSHA", "sha224": "_handshakeSHA224",
            "sha256": "_handshakeSHA256", "sha384": "_handshakeSHA384", "sha512": "_handshakeSHA512"}
    for n in own_nodes(dg.node):
        if isinstance(n, ast.If) and isinstance(n.test, ast.Compare) and \
                isinstance(n.test.comparators[0], ast.Constant) and n.test.comparators[0].value in want:
            nm = n.test.comparators[0].value
            ret = [x for x in n.body if isinstance(x, ast.Return)]
            ctx.check(R, bool(ret) and norm(ret[0].value) == "self.%s.digest()" % want[nm], dg.qname,
                      "digest(%r)" % nm, "digest(%r) does not return the %s transcript hash" % (nm, nm),
                      dg.loc(n))
    # replacements of the running transcript: only the two HRR restarts, built alike
    repl = []
    for f in ctx.index.all_functions():
        if f.name == "__init__":
            continue
        for n in own_nodes(f.node):
            if isinstance(n, ast.Assign) and any(attr_chain(t) == "self._handshake_hash" for t in n.targets):
                repl.append((f, n))
    def fresh(f, n):
        """the assigned value is a HandshakeHashes() created in this function (directly or via a local)"""
        if norm(n.value) == "HandshakeHashes()":
            return True
        if isinstance(n.value, ast.Name):
            ds = [x for x in own_nodes(f.node) if isinstance(x, ast.Assign) and len(x.targets) == 1
                  and isinstance(x.targets[0], ast.Name) and x.targets[0].id == n.value.id]
            return len(ds) == 1 and norm(ds[0].value) == "HandshakeHashes()"
        return False
    for f, n in repl:
        ok = f.name in ("_clientGetServerHello", "_serverGetClientHello", "_handshakeStart") and fresh(f, n)
        ctx.check(R, ok, f.qname, n, "the running transcript is replaced outside the HelloRetryRequest "
                  "message_hash restart / handshake start", f.loc(n))
    for q in (TLSCONN + "_clientGetServerHello", TLSCONN + "_serverGetClientHello"):
        f = ctx.index.func(q)
        gq_ = ctx.an.cfg(f)
        # T: what the fresh transcript object is called while it is being filled
        rs = [n for n in gq_.nodes if n.kind == "stmt" and isinstance(n.ast, ast.Assign)
              and norm(n.ast.value) == "HandshakeHashes()"]
        ok = False
        if rs:
            T = norm(rs[0].ast.targets[0])
            seq = []
            cur = rs[0]
            for _ in range(8):
                nx = gq_.normal_succ(cur)
                if len(nx) != 1:
                    break
                cur = nx[0]
                if cur.ast is not None:
                    seq.append(cur.ast)
            W = None
            st = 0
            hashed = None
            hashed_ast = None
            for a_ in seq:
                t_ = norm(a_)
                if st == 0 and isinstance(a_, ast.Assign) and norm(a_.value) == "Writer()" and isinstance(a_.targets[0], ast.Name):
                    W, st = a_.targets[0].id, 1
                elif st == 1 and t_ == "%s.add(HandshakeType.message_hash, 1)" % W:
                    st = 2
                elif st == 2 and isinstance(a_, ast.Expr) and isinstance(a_.value, ast.Call) \
                        and norm(a_.value.func) == "%s.addVarSeq" % W and [norm(x) for x in a_.value.args[1:]] == ["1", "3"]:
                    hashed, hashed_ast, st = norm(a_.value.args[0]), a_.value.args[0], 3
                elif st == 3 and t_ == "%s.update(%s.bytes)" % (T, W):
                    st = 4
            installed = T == "self._handshake_hash" or any(
                isinstance(a_, ast.Assign) and norm(a_) == "self._handshake_hash = %s" % T for a_ in seq)
            # what is hashed: a digest of the transcript as it stood before the restart - followed through
            # the locals it was stored in (whatever they are called), each defined before the restart
            chain_defs, origin = [], None
            e_ = hashed_ast
            for _ in range(4):
                if e_ is None:
                    break
                names_ = [x for x in ast.walk(e_) if isinstance(x, ast.Name) and x.id not in ("self", "prf_name")]
                if "self._handshake_hash" in norm(e_):
                    origin = e_
                    break
                if len(names_) != 1:
                    break
                ds_ = [n for n in gq_.nodes if n.kind == "stmt" and isinstance(n.ast, ast.Assign)
                       and any(isinstance(t, ast.Name) and t.id == names_[0].id for t in n.ast.targets)]
                if len(ds_) != 1:
                    break
                chain_defs.append(ds_[0])
                e_ = ds_[0].ast.value
            after = gq_.reach(gq_.normal_succ(rs[0]))
            walked = " <- ".join([hashed or "?"] + [norm(d.ast.value) for d in chain_defs])
            ok = st == 4 and installed and origin is not None and ".digest(" in walked \
                and not any(d.id in after for d in chain_defs) \
                and (chain_defs or False)
        ctx.check(R, bool(ok), f.qname, "HRR transcript restart = message_hash || len || Hash(ClientHello1)",
                  "the synthetic message_hash transcript after HelloRetryRequest is not built as "
                  "message_hash(254) || 3-byte length || Hash(ClientHello1)", f.loc(rs[0].ast) if rs else f.loc())
        # the hash of ClientHello1 must be taken from the transcript before it is replaced
        if rs:
            okd = bool(rs) and origin is not None and bool(chain_defs) and not any(d.id in after for d in chain_defs)
            ctx.check(R, okd, f.qname, "Hash(ClientHello1) taken before the restart",
                      "the hash of the first ClientHello must be derived from the running transcript before it "
                      "is reset (found: %s)" % walked, f.loc(rs[0].ast))


def rule_schedule(ctx):
    R = "C04.SCHEDULE"
    labels = {"c hs traffic": "c", "s hs traffic": "s", "c ap traffic": "c", "s ap traffic": "s",
              "exp master": None, "res master": None, "c e traffic": "c", "e exp master": None}
    n_derive = 0
    for fi in _flow_functions(ctx):
        side_of = {}     # local name -> 'c' / 's'
        for n in own_nodes(fi.node):
            if isinstance(n, ast.Call) and call_name(n) == "derive_secret" and len(n.args) >= 3:
                lab = n.args[1]
                lit = None
                for x in ast.walk(lab):
                    if isinstance(x, ast.Constant) and isinstance(x.value, bytes):
                        lit = x.value.decode()
                if lit in labels:
                    n_derive += 1
                    tr = n.args[2]
                    ok = not (isinstance(tr, ast.Constant) and tr.value is None) and \
                        backward_slice_mentions(ctx.an.cfg(fi), tr, ["handshake_hash"])["handshake_hash"]
                    ctx.check(R, ok, fi.qname, "derive_secret(%r) bound to transcript" % lit,
                              "secret with label %r is derived without the handshake transcript" % lit,
                              fi.loc(n))
        for n in own_nodes(fi.node):
            if isinstance(n, ast.Assign) and isinstance(n.value, ast.Call) and \
                    call_name(n.value) == "derive_secret" and len(n.value.args) >= 2:
                lit = None
                for x in ast.walk(n.value.args[1]):
                    if isinstance(x, ast.Constant) and isinstance(x.value, bytes):
                        lit = x.value.decode()
                if lit in labels and labels[lit]:
                    for t in n.targets:
                        c = attr_chain(t)
                        if c:
                            side_of.setdefault(c, set()).add(labels[lit])
        for n in own_nodes(fi.node):
            if isinstance(n, ast.Call) and call_name(n) == "calcTLS1_3PendingState" and len(n.args) >= 3:
                a_cl, a_sr = attr_chain(n.args[1]), attr_chain(n.args[2])
                ok = side_of.get(a_cl) == {"c"} and side_of.get(a_sr) == {"s"}
                ctx.check(R, ok, fi.qname, "calcTLS1_3PendingState(client secret, server secret) in " + fi.short,
                          "calcTLS1_3PendingState receives %s (labels %s) as client secret and %s (labels %s) "
                          "as server secret" % (a_cl, sorted(side_of.get(a_cl, [])), a_sr,
                                                sorted(side_of.get(a_sr, []))), fi.loc(n))
    if n_derive < 12:
        raise AnalysisError("C04.SCHEDULE: %d labelled derive_secret calls, floor 12" % n_derive)
    # session secrets: cl_app_secret from a 'c ap traffic' derivation, sr_app_secret from 's ap traffic'
    for q in (TLSCONN + "_clientTLS13Handshake", TLSCONN + "_serverTLS13Handshake"):
        fi = ctx.index.func(q)
        side = {}
        for n in own_nodes(fi.node):
            if isinstance(n, ast.Assign) and isinstance(n.value, ast.Call) and call_name(n.value) == "derive_secret":
                for x in ast.walk(n.value.args[1]):
                    if isinstance(x, ast.Constant) and isinstance(x.value, bytes):
                        for t in n.targets:
                            if attr_chain(t):
                                side[attr_chain(t)] = x.value.decode()
        for n in own_nodes(fi.node):
            if isinstance(n, ast.Call) and call_name(n) == "create":
                for kw in n.keywords:
                    if kw.arg in ("cl_app_secret", "sr_app_secret", "exporterMasterSecret",
                                  "resumptionMasterSecret"):
                        want = {"cl_app_secret": "c ap traffic", "sr_app_secret": "s ap traffic",
                                "exporterMasterSecret": "exp master",
                                "resumptionMasterSecret": "res master"}[kw.arg]
                        got = side.get(attr_chain(kw.value))
                        ctx.check(R, got == want, fi.qname, "session.%s from label %r" % (kw.arg, want),
                                  "session.%s is set from a secret derived with label %r" % (kw.arg, got),
                                  fi.loc(n))


def rule_sentinel(ctx):
    R = "C04.SENTINEL"
    # server writes
    fs = ctx.index.func(TLSCONN + "_handshakeServerAsyncHelper")
    g = ctx.an.cfg(fs)
    creates = [n for n in g.nodes if n.kind == "stmt" and "serverHello.create(" in norm(n.ast)]
    if not creates:
        raise AnalysisError("C04.SENTINEL: ServerHello.create not found in _handshakeServerAsyncHelper")
    cr = [c for c in calls_in(creates[0].ast) if call_name(c) == "create"][0]
    rnd = cr.args[1] if len(cr.args) > 1 else None
    if not isinstance(rnd, ast.Name):
        raise AnalysisError("C04.SENTINEL: the random passed to ServerHello.create is not a local")

    def marks(name):
        """statement `<the random passed to create>[-8:] = <name>`"""
        def pred(st):
            return isinstance(st, ast.Assign) and len(st.targets) == 1 and isinstance(st.targets[0], ast.Subscript) \
                and isinstance(st.targets[0].value, ast.Name) and st.targets[0].value.id == rnd.id \
                and norm(st.targets[0].slice) == "-8:" and norm(st.value) == name
        return pred
    from .common import spec_rows
    spec_rows(ctx, R, TLSCONN + "_handshakeServerAsyncHelper", [
        dict(what="server marks ServerHello.random with the downgrade sentinel exactly when it negotiates below its maximum",
             dom={"version": [(3, 0), (3, 2), (3, 3)], "settings.maxVersion": [(3, 1), (3, 2), (3, 3), (3, 4)],
                  "result is None": [False]},
             when=lambda e: e["version"] <= e["settings.maxVersion"],
             abort=lambda e: False,
             effects={"TLS 1.2 sentinel": (marks("TLS_1_2_DOWNGRADE_SENTINEL"),
                                           lambda e: e["version"] == (3, 3) and e["settings.maxVersion"] > (3, 3)),
                      "TLS 1.1 sentinel": (marks("TLS_1_1_DOWNGRADE_SENTINEL"),
                                           lambda e: e["version"] < (3, 3) and e["settings.maxVersion"] >= (3, 3))},
             msg="the server does not mark its ServerHello.random with the TLS 1.3 downgrade sentinels exactly when "
                 "it negotiates a version below its maximum (RFC 8446 4.1.3)")])
    writes = [n for n in g.nodes if n.kind == "stmt" and (marks("TLS_1_2_DOWNGRADE_SENTINEL")(n.ast)
                                                           or marks("TLS_1_1_DOWNGRADE_SENTINEL")(n.ast))]
    seen = g.reach(g.normal_succ(creates[0]))
    ctx.check(R, len(writes) >= 2 and not any(w.id in seen for w in writes), fs.qname,
              "sentinels written before ServerHello.create", "a downgrade sentinel is written after the ServerHello "
              "was built from the random", fs.loc(creates[0].ast))
    # client checks
    fc = ctx.index.func(TLSCONN + "_handshakeClientAsyncHelper")
    gc = ctx.an.cfg(fc)
    sinks = [gc.exit] + nodes_with_call(gc, "_handshakeDone") + consumes_of(gc, "_clientKeyExchange") + \
        consumes_of(gc, "_clientResume")
    tests = [t for t in gc.nodes if t.kind == "test" and "DOWNGRADE_SENTINEL" in norm(t.expr)]
    eff = effective_tests(gc, tests, sinks)
    srcs = consumes_of(gc, "_clientGetServerHello")
    # what the client's checks mean, over boundary values (condeval.outcomes; nothing is run)
    S12, S11 = b"DOWNGRD\x01", b"DOWNGRD\x00"
    spec_rows(ctx, R, TLSCONN + "_handshakeClientAsyncHelper", [
        dict(what="client refuses a ServerHello.random carrying a downgrade sentinel below its maximum version",
             dom={"settings.maxVersion": [(3, 2), (3, 3), (3, 4)], "self.version": [(3, 1), (3, 2), (3, 3), (3, 4)],
                  "serverHello.random[-8:]": [S12, S11, b"notmarkd"], "TLS_1_2_DOWNGRADE_SENTINEL": [S12],
                  "TLS_1_1_DOWNGRADE_SENTINEL": [S11]},
             when=lambda e: e["self.version"] <= e["settings.maxVersion"],
             abort=lambda e: (e["settings.maxVersion"] > (3, 3) and e["self.version"] <= (3, 3)
                              and e["serverHello.random[-8:]"] in (S12, S11))
             or (e["settings.maxVersion"] == (3, 3) and e["self.version"] < (3, 3)
                 and e["serverHello.random[-8:]"] == S11),
             msg="a TLS 1.3 capable client must refuse the TLS 1.2 / TLS 1.1 sentinels below TLS 1.3, a TLS 1.2 "
                 "client the TLS 1.1 sentinel below TLS 1.2 (RFC 8446 4.1.3), and nothing else")])
    for nm in ("TLS_1_2_DOWNGRADE_SENTINEL", "TLS_1_1_DOWNGRADE_SENTINEL"):
        mine = [t for t in eff if nm in norm(t.expr)]
        if not srcs:
            raise AnalysisError("C04.SENTINEL: _clientGetServerHello consumption not found")
        # the gate must lie on every path from ServerHello to key exchange / resumption / completion
        must_pass(ctx, R, fc, gc, srcs, [s for s in sinks if s is not gc.exit], mine,
                  "client checks %s before continuing" % nm,
                  "the client continues a handshake below its maximum version without an effective check "
                  "of the %s downgrade sentinel in ServerHello.random" % nm)


def rule_scsv(ctx):
    R = "C04.SCSV"
    fi = ctx.index.func(TLSCONN + "_serverGetClientHello")
    g = ctx.an.cfg(fi)
    tests = [t for t in g.nodes if t.kind == "test" and "TLS_FALLBACK_SCSV" in norm(t.expr)]
    sinks = [n for n in g.nodes if is_value_yield(n)]
    eff = [t for t in effective_tests(g, tests, sinks)
           if "version < settings.maxVersion" in norm(t.expr)
           and "CipherSuite.TLS_FALLBACK_SCSV in clientHello.cipher_suites" in norm(t.expr)
           and isinstance(t.expr, ast.BoolOp) and isinstance(t.expr.op, ast.And) and len(t.expr.values) == 2]
    must_pass(ctx, R, fi, g, getmsg_nodes(g, hs_type="client_hello")[:1], sinks, eff,
              "server refuses inappropriate fallback (TLS_FALLBACK_SCSV below maxVersion)",
              "a ClientHello carrying TLS_FALLBACK_SCSV at a version below the server's maximum is not "
              "refused with inappropriate_fallback on every path")
    dead = [m for t in eff for m in g.nodes if m.kind == "noreturn" and m.line > t.line and m.line < t.line + 6]
    ctx.check(R, any(senderror_desc(m) == "inappropriate_fallback" for m in dead), fi.qname,
              "alert of the SCSV gate", "the SCSV gate must send inappropriate_fallback", fi.loc())
    # the caller's sendFallbackSCSV reaches the hello builder unchanged
    from . import c19
    c19.copy_preserves(ctx, R, only={"sendFallbackSCSV"})
    # client appends the SCSV iff sendFallbackSCSV
    fc = ctx.index.func(TLSCONN + "_clientSendClientHello")
    ok = False
    for n in own_nodes(fc.node):
        if isinstance(n, ast.If) and norm(n.test) == "settings.sendFallbackSCSV":
            ok = any("append(CipherSuite.TLS_FALLBACK_SCSV)" in norm(x) for x in n.body) and not n.orelse
    # every ClientHello this function builds carries the list that received the SCSV
    lst = None
    for n in own_nodes(fc.node):
        if isinstance(n, ast.If) and norm(n.test) == "settings.sendFallbackSCSV":
            for x in n.body:
                for c in calls_in(x):
                    if call_name(c) == "append" and "TLS_FALLBACK_SCSV" in norm(c):
                        lst = attr_chain(c.func.value)
    creates = [n for n in own_nodes(fc.node) if isinstance(n, ast.Call) and call_name(n) == "create"
               and norm(n.func.value) == "clientHello"]
    ctx.require(len(creates) >= 2, "C04.SCSV: ClientHello.create calls not found")
    for c in creates:
        ctx.check(R, lst is not None and len(c.args) >= 4 and attr_chain(c.args[3]) == lst, fc.qname,
                  "ClientHello built with the SCSV-carrying suite list (%s)" % norm(c)[:60],
                  "a ClientHello is built from a suite list that does not carry TLS_FALLBACK_SCSV "
                  "(resumption retries would lose downgrade protection)", fc.loc(c))
    others = [n for n in own_nodes(fc.node) if isinstance(n, ast.Call) and "TLS_FALLBACK_SCSV" in norm(n)]
    ctx.check(R, ok and len(others) == 1, fc.qname, "client appends TLS_FALLBACK_SCSV iff sendFallbackSCSV",
              "the client must offer TLS_FALLBACK_SCSV exactly when settings.sendFallbackSCSV is set", fc.loc())


def rule_hrr(ctx):
    R = "C04.HRR"
    fi = ctx.index.func(TLSCONN + "_serverGetClientHello")
    g = ctx.an.cfg(fi)
    ch = getmsg_nodes(g, hs_type="client_hello")
    if len(ch) < 2:
        raise AnalysisError("C04.HRR: second ClientHello receive not found")
    second = ch[-1]
    sinks = [n for n in g.nodes if is_value_yield(n)]
    table = [
        ("second ClientHello equals the first modulo HRR changes", lambda s: s == "clientHello1 != clientHello"),
        ("key_share present", lambda s: s == "not ext"),
        ("exactly one key share", lambda s: s == "len(ext.client_shares) != 1"),
        ("key share group is the requested one", lambda s: s == "ext.client_shares[0].group != selected_group"),
    ]
    for what, pred in table:
        tests = [t for t in g.nodes if t.kind == "test" and pred(norm(t.expr))]
        eff = effective_tests(g, tests, sinks)
        must_pass(ctx, R, fi, g, [second], sinks, eff, "server HRR gate: " + what,
                  "after a HelloRetryRequest the server continues without the check: " + what)
    # cookie gate: under `if cookie:` the loop must compare and the for-else must abort
    ck = [t for t in g.nodes if t.kind == "test" and norm(t.expr) == "ext.extData != cookie.extData"]
    eff = effective_tests(g, ck, sinks)
    ctx.check(R, bool(eff), fi.qname, "server HRR gate: cookie echoed unchanged",
              "the cookie of the second ClientHello is not compared with the one sent", fi.loc())
    # client side
    fc = ctx.index.func(TLSCONN + "_clientGetServerHello")
    gc = ctx.an.cfg(fc)
    sh = getmsg_nodes(gc, hs_type="server_hello")
    if len(sh) < 2:
        raise AnalysisError("C04.HRR: client HRR retry not found")
    csinks = [n for n in gc.nodes if is_value_yield(n)]
    resend = consumes_of(gc, "_sendMsgs")
    ctable = [
        ("HRR extensions subset of ClientHello extensions", lambda s: s == "bad_ext", resend),
        ("HRR changes the ClientHello", lambda s: s == "not cookie and (not sr_key_share_ext)", resend),
        ("HRR session_id echo", lambda s: s == "clientHello.session_id != hello_retry.session_id", resend),
        ("HRR suite equals ServerHello suite",
         lambda s: s == "hello_retry and hello_retry.cipher_suite != serverHello.cipher_suite", csinks),
    ]
    hrr_assign = [n for n in gc.nodes if n.kind == "stmt" and norm(n.ast) == "hello_retry = result"]
    if not hrr_assign:
        raise AnalysisError("C04.HRR: `hello_retry = result` not found in _clientGetServerHello")
    cut = falsy_edges(gc, "hello_retry")
    for what, pred, snk in ctable:
        tests = [t for t in gc.nodes if t.kind == "test" and pred(norm(t.expr))]
        eff = effective_tests(gc, tests, snk)
        must_pass(ctx, R, fc, gc, hrr_assign, snk, eff, "client HRR gate: " + what,
                  "the client accepts a HelloRetryRequest without the check: " + what)
    # selected group gates (under `if sr_key_share_ext:`)
    for what, frag in (("selected group was advertised", "group_id not in groups_ext.groups"),
                       ("selected group not already shared", "entry.group == group_id")):
        tests = [t for t in gc.nodes if t.kind == "test" and frag in norm(t.expr)]
        eff = effective_tests(gc, tests, resend)
        gen = [n for n in gc.nodes if n.kind == "stmt" and "_genKeyShareEntry(group_id" in norm(n.ast)]
        must_pass(ctx, R, fc, gc, hrr_assign, gen, eff, "client HRR gate: " + what,
                  "the client generates a new key share for the HRR group without the check: " + what)


def rule_binder(ctx):
    R = "C04.BINDER"
    fi = ctx.index.func(TLSCONN + "_serverTLS13Handshake")
    g = ctx.an.cfg(fi)
    srcs = [n for n in g.nodes if assigns(n, "selected_psk") and not (
        isinstance(n.ast.value, ast.Constant) and n.ast.value.value is None)]
    sends = consumes_of(g, "_sendMsgs")
    if not srcs or not sends:
        raise AnalysisError("C04.BINDER: PSK selection or ServerHello send not found")
    vb = [n for n in nodes_with_call(g, "verify_binder")]
    gates = []
    for n in vb:
        # failure is an exception: every exception edge must lead to a dead end
        exc_targets = [m for m, l in n.succ if l.startswith("exc")]
        seen = g.reach(exc_targets)
        if exc_targets and not any(s.id in seen for s in sends) and g.exit.id not in seen:
            # and the binder checked is the selected one with the selected secret
            call = [c for c in calls_in(n.ast) if call_name(c) == "verify_binder"][0]
            args = [norm(a) for a in call.args]
            if len(args) >= 5 and args[0] == "clientHello" and args[2] == "selected_psk" and args[3] == "psk":
                gates.append(n)
    must_pass(ctx, R, fi, g, srcs, sends[:1], gates, "selected PSK passes verify_binder before ServerHello",
              "a PSK identity can be selected and answered with a ServerHello without a verified binder")
    hb = ctx.index.func("handshakehelpers:HandshakeHelpers.verify_binder")
    gb = ctx.an.cfg(hb)
    tests = [t for t in gb.nodes if t.kind == "test" and "ct_compare_digest(binder, ext.binders[position])" in norm(t.expr)]
    eff = [t for t in tests if "F" not in dead_edge_labels(gb, t, [gb.exit]) and
           "T" in dead_edge_labels(gb, t, [gb.exit]) and norm(t.expr).startswith("not ")]
    must_pass(ctx, R, hb, gb, [gb.entry], [gb.exit], eff, "verify_binder ends in an effective comparison",
              "verify_binder can return normally without comparing the computed binder with the received one",
              start_after=False)
    src = [norm(n.ast) for n in gb.nodes if n.ast is not None and n.kind == "stmt"]
    ctx.check(R, "hh = handshake_hashes.copy()" in src and "hh.update(client_hello.psk_truncate())" in src,
              hb.qname, "binder computed over transcript + truncated ClientHello",
              "verify_binder must hash a copy of the transcript extended with the truncated ClientHello",
              hb.loc())
    # the transcript the server checks binders against is the one that precedes the ClientHello being
    # checked: every path to a _getMsg(client_hello) takes the copy after the last message that entered the
    # transcript (after a HelloRetryRequest: after the HRR was sent, RFC 8446 4.2.11.2)
    sg = ctx.index.func(TLSCONN + "_serverGetClientHello")
    gq = ctx.an.cfg(sg)
    reads = getmsg_nodes(gq, hs_type="client_hello")
    copies = [n for n in gq.nodes if n.kind == "stmt" and isinstance(n.ast, ast.Assign)
              and any(attr_chain(t) == "self._pre_client_hello_handshake_hash" for t in n.ast.targets)]
    if len(reads) < 2 or not copies:
        raise AnalysisError("C04.BINDER: ClientHello reads / transcript copy for binders not found in _serverGetClientHello")
    writers = [n for n in gq.nodes if (n.kind in ("consume", "noreturn") and call_name(n.call) in ("_sendMsg", "_sendMsgs", "_queue_message"))
               or (n.kind == "stmt" and "self._handshake_hash.update(" in norm(n.ast))
               or (n.kind == "stmt" and isinstance(n.ast, ast.Assign) and any(attr_chain(t) == "self._handshake_hash" for t in n.ast.targets))]
    stale = None
    for w in writers:
        # from a statement that changes the transcript, a ClientHello read must not be reachable
        # without passing a fresh copy
        seen = gq.reach(gq.normal_succ(w), blocked=copies)
        hit = [r for r in reads if r.id in seen]
        if hit:
            stale = (w, hit[0])
            break
    ctx.check(R, stale is None, sg.qname, "binder transcript copied after the last transcript change",
              "a ClientHello is read (line %s) after the transcript changed (line %s) with no fresh copy into "
              "_pre_client_hello_handshake_hash in between: its PSK binders are checked against a transcript that "
              "lacks the HelloRetryRequest" % ((stale[1].line, stale[0].line) if stale else ("", "")), sg.loc(),
              what="_serverGetClientHello copies the transcript for binders after every change before reading a ClientHello")
    ub = ctx.index.func("handshakehelpers:HandshakeHelpers.update_binders")
    usrc = [norm(n) for n in own_nodes(ub.node)]
    ctx.check(R, "hh = handshake_hashes.copy()" in usrc and "hh.update(client_hello.psk_truncate())" in usrc,
              ub.qname, "binder made over transcript + truncated ClientHello (sender side agrees)",
              "update_binders must hash the same input as verify_binder", ub.loc())


def rule_pure_kdf(ctx):
    """PURE-KDF: the key-derivation and transcript functions are functions of their arguments: no function
    of mathtls / handshakehashes / handshakehelpers writes module-level state (a memo of derived values keyed
    on less than every input - e.g. without the transcript - makes Finished independent of the handshake)."""
    R = "C04.PURE-KDF"
    n = 0
    for modname in ("mathtls", "handshakehashes", "handshakehelpers"):
        mod = ctx.index.module(modname)
        glob = {t.id for st in mod.tree.body if isinstance(st, (ast.Assign, ast.AugAssign, ast.AnnAssign))
                for t in (st.targets if isinstance(st, ast.Assign) else [st.target]) if isinstance(t, ast.Name)}
        for fi in ctx.index.all_functions():
            if fi.module is not mod:
                continue
            n += 1
            local = {a.arg for a in fi.node.args.args + fi.node.args.kwonlyargs} | \
                {x.id for x in own_nodes(fi.node) if isinstance(x, ast.Name) and isinstance(x.ctx, ast.Store)}
            declared = {nm for x in own_nodes(fi.node) if isinstance(x, (ast.Global, ast.Nonlocal)) for nm in x.names}
            bad = []
            for x in own_nodes(fi.node):
                tg = None
                if isinstance(x, (ast.Subscript, ast.Attribute)) and isinstance(x.ctx, (ast.Store, ast.Del)):
                    b = x.value
                    while isinstance(b, (ast.Subscript, ast.Attribute)):
                        b = b.value
                    tg = b
                elif isinstance(x, ast.Call) and isinstance(x.func, ast.Attribute) and x.func.attr in (
                        "append", "extend", "update", "clear", "pop", "setdefault", "add", "insert", "remove", "popitem") \
                        and isinstance(x.func.value, ast.Name):
                    tg = x.func.value
                elif isinstance(x, ast.Name) and isinstance(x.ctx, ast.Store) and x.id in declared:
                    tg = x
                if isinstance(tg, ast.Name) and tg.id in glob and (tg.id not in local or tg.id in declared):
                    bad.append((x, tg.id))
            for x, nm in bad[:2]:
                ctx.fail(R, fi.qname, x, "%s writes the module-level `%s`: derived keys / transcripts kept across calls "
                         "(and connections) make the result depend on earlier handshakes" % (fi.short, nm), fi.loc(x))
            if not bad:
                ctx.ok(R, "%s keeps no module-level state" % fi.short, fi.loc())
    if n < 20:
        raise AnalysisError("%s: only %d functions examined" % (R, n))


RULES = [
    ("C04.PURE-KDF", "quick", rule_pure_kdf),
    # a resumed connection keeps the protection negotiated by the full handshake (no silent EtM downgrade)
    ("C04.ETM-SOURCE", "quick", borrowed("c13", "rule_pending_source", "C13.ETM-SOURCE", "C04.ETM-SOURCE")),
    ("C04.FIN", "quick", rule_fin),
    ("C04.TRANSCRIPT", "quick", rule_transcript),
    ("C04.SCHEDULE", "quick", rule_schedule),
    ("C04.SENTINEL", "quick", rule_sentinel),
    ("C04.SCSV", "quick", rule_scsv),
    ("C04.HRR", "quick", rule_hrr),
    ("C04.BINDER", "quick", rule_binder),
    ("C04.EXPORTER", "quick", borrowed("c03", "rule_exporter", "C03.EXPORTER", "C04.EXPORTER")),
]
