"""C18 - lock discipline of the objects documented as thread-safe."""
import ast

from ..index import AnalysisError, attr_chain, norm, own_nodes
from .common import resolved_text, borrowed
from ..flow import reaching_defs as reaching

EXPLANATION = (
    "Static lockset analysis. For SessionCache (entriesDict, entriesList, firstIndex, lastIndex), "
    "Python_RSAKey (blinder, unblinder) and BaseDB/VerifierDB (contents of self.db) every access "
    "outside the construction phase must lie lexically inside a region that holds the owning lock "
    "(`with self.L:` or `self.L.acquire(); try: ... finally: self.L.release()`), or inside a helper "
    "all of whose call sites are inside such regions. Every acquire is immediately followed by its "
    "try/finally release, releases only occur in finally blocks, the RSA blinding pair is read and "
    "advanced inside one single region per operation, and SessionCache ring indices (advanced modulo "
    "the ring size) are only compared with ==/!= (an ordering comparison is wrong after wrap-around).")
NOT_DECIDED = ("results under real interleavings, the sequential cache semantics (which entry is "
               "returned for which history and clock), the mathematics of blinding")
TECHNIQUE = "lockset analysis over lexical lock regions with helper call-site closure"

GUARDED = [
    # class, lock attribute, guarded fields, construction-phase methods, mode
    ("sessioncache:SessionCache", "lock", ["entriesDict", "entriesList", "firstIndex", "lastIndex"],
     ["__init__"], "all"),
    ("utils.python_rsakey:Python_RSAKey", "_lock", ["blinder", "unblinder"], ["__init__"], "all"),
    ("basedb:BaseDB", "lock", ["db"], ["__init__", "create", "open"], "contents"),
]


def _is_self_attr(e, name):
    return isinstance(e, ast.Attribute) and isinstance(e.value, ast.Name) and \
        e.value.id == "self" and e.attr == name


def _is_lock_call(stmt, lock, meth):
    return (isinstance(stmt, ast.Expr) and isinstance(stmt.value, ast.Call)
            and isinstance(stmt.value.func, ast.Attribute) and stmt.value.func.attr == meth
            and _is_self_attr(stmt.value.func.value, lock))


class Regions(object):
    """lexical lock regions of one method: list of lists of statements."""

    def __init__(self, fn, lock):
        self.fn = fn
        self.lock = lock
        self.regions = []        # [(kind, [stmts], anchor stmt)]
        self.problems = []       # (stmt, message)
        self.acquires = 0
        self._scan(fn.body)
        # a release outside a finally block
        finals = set()
        for n in ast.walk(fn):
            if isinstance(n, ast.Try):
                for s in n.finalbody:
                    finals.add(id(s))
        for n in ast.walk(fn):
            if isinstance(n, ast.Expr) and _is_lock_call(n, lock, "release") and id(n) not in finals:
                self.problems.append((n, "lock released outside a finally block: an exception in the "
                                         "critical section leaves the lock held or releases it early"))

    def _scan(self, body):
        i = 0
        while i < len(body):
            s = body[i]
            if _is_lock_call(s, self.lock, "acquire"):
                self.acquires += 1
                nxt = body[i + 1] if i + 1 < len(body) else None
                ok = isinstance(nxt, ast.Try) and nxt.finalbody and \
                    _is_lock_call(nxt.finalbody[0], self.lock, "release") and not nxt.handlers
                if isinstance(nxt, ast.Try) and nxt.finalbody and nxt.handlers and \
                        _is_lock_call(nxt.finalbody[0], self.lock, "release"):
                    ok = True
                if not ok:
                    self.problems.append((s, "acquire() is not immediately followed by "
                                             "try: ... finally: release()"))
                else:
                    stmts = list(nxt.body) + [x for h in nxt.handlers for x in h.body] + list(nxt.orelse)
                    self.regions.append(("acquire", stmts, s))
                    # statements in the finally after the release are outside the region
                    self._scan(nxt.finalbody[1:])
                    i += 2
                    continue
            elif isinstance(s, ast.With) and any(_is_self_attr(it.context_expr, self.lock)
                                                 for it in s.items):
                self.acquires += 1
                self.regions.append(("with", list(s.body), s))
                i += 1
                continue
            # recurse into compound statements
            for fld in ("body", "orelse", "finalbody"):
                blk = getattr(s, fld, None)
                if isinstance(blk, list) and blk and isinstance(blk[0], ast.stmt):
                    self._scan(blk)
            for h in getattr(s, "handlers", []) or []:
                self._scan(h.body)
            i += 1

    def region_of(self, node):
        for idx, (kind, stmts, anchor) in enumerate(self.regions):
            for st in stmts:
                for n in ast.walk(st):
                    if n is node:
                        return idx
        return None


def _accesses(fn, field, mode):
    """nodes accessing self.<field>.  mode 'contents': only operations on the object's
    contents (subscript, in, method call, del, iteration), not tests of the reference."""
    parents = {}
    for n in ast.walk(fn):
        for c in ast.iter_child_nodes(n):
            parents[c] = n
    out = []
    for n in ast.walk(fn):
        if not _is_self_attr(n, field):
            continue
        if mode == "all":
            out.append(n)
            continue
        p = parents.get(n)
        if isinstance(p, ast.Subscript) and p.value is n:
            out.append(n)
        elif isinstance(p, ast.Attribute) and p.value is n:
            out.append(n)        # self.db.keys(), self.db.sync()
        elif isinstance(p, ast.Compare) and n in p.comparators and \
                any(isinstance(o, (ast.In, ast.NotIn)) for o in p.ops):
            out.append(n)
        elif isinstance(p, (ast.For, ast.comprehension)) and getattr(p, "iter", None) is n:
            out.append(n)
        elif isinstance(p, ast.Call) and n in p.args:
            out.append(n)        # len(self.db), list(self.db)
    return out


def rule_lockset(ctx, only=None):
    for cq, lock, fields, ctor_phase, mode in GUARDED:
        if only and cq != only:
            continue
        R = "C18.LOCKSET-" + {"sessioncache:SessionCache": "CACHE",
                              "utils.python_rsakey:Python_RSAKey": "RSA",
                              "basedb:BaseDB": "DB"}[cq]
        cls = ctx.index.cls(cq)
        classes = [cls] + cls.descendants()
        # the lock must be created in __init__
        init = cls.find_method("__init__")
        has_lock = init is not None and any(
            isinstance(n, ast.Assign) and any(_is_self_attr(t, lock) for t in n.targets)
            and "Lock" in norm(n.value) for n in own_nodes(init.node))
        ctx.check(R, has_lock, cq, "self.%s = threading.Lock()" % lock,
                  "the owning lock self.%s is not created in __init__" % lock, cls.methods["__init__"].loc()
                  if "__init__" in cls.methods else "")
        methods = []
        for c in classes:
            for m in c.methods.values():
                methods.append(m)
        regions = {m.qname: Regions(m.node, lock) for m in methods}
        # unlocked accesses per method
        unlocked = {}      # method -> [(node, field)]
        total = 0
        for m in methods:
            if m.name in ctor_phase and m.cls is cls:
                continue
            rg = regions[m.qname]
            for f in fields:
                for n in _accesses(m.node, f, mode):
                    total += 1
                    if rg.region_of(n) is None:
                        unlocked.setdefault(m.qname, []).append((n, f, m))
        # helper closure: a method whose every call site (self.m()) in the family is inside a
        # locked region (or inside another such helper) runs with the lock held
        held = set()
        changed = True
        while changed:
            changed = False
            for m in methods:
                if m.qname in held or m.qname not in unlocked:
                    continue
                sites = []
                for caller in methods:
                    for n in ast.walk(caller.node):
                        if isinstance(n, ast.Call) and isinstance(n.func, ast.Attribute) and \
                                n.func.attr == m.name and isinstance(n.func.value, ast.Name) and \
                                n.func.value.id == "self":
                            sites.append((caller, n))
                if sites and all(regions[c.qname].region_of(n) is not None or c.qname in held
                                 for c, n in sites) and m.name.startswith("_") and \
                        not m.name.startswith("__"):
                    held.add(m.qname)
                    changed = True
        n_ok = total
        for mq, accs in sorted(unlocked.items()):
            if mq in held:
                ctx.exempt(R, mq, "helper: every call site holds self.%s" % lock)
                continue
            for n, f, m in accs:
                n_ok -= 1
                st = _enclosing_stmt(m.node, n)
                ctx.fail(R, mq, st,
                         "access to guarded field self.%s outside the region holding self.%s" % (f, lock),
                         m.loc(n))
        for i in range(n_ok):
            ctx.ok(R, "%s guarded access #%d under self.%s" % (cls.name, i, lock))
        nacq = 0
        for m in methods:
            rg = regions[m.qname]
            nacq += rg.acquires
            for st, msg in rg.problems:
                ctx.fail(R, m.qname, st, msg, m.loc(st))
        for i in range(nacq):
            ctx.ok(R, "%s lock region #%d well formed" % (cls.name, i))
        ctx.info[R + ".accesses"] = total
        ctx.info[R + ".regions"] = nacq
        ctx.info[R + ".helpers_with_lock_held"] = sorted(held)
        if total < {"CACHE": 15, "RSA": 6, "DB": 6}[R.split("-")[1]]:
            raise AnalysisError("%s: only %d guarded accesses found; confirmed floor not met" % (R, total))
        if R.endswith("RSA"):
            # read and update of the blinding pair in ONE region per operation
            for m in methods:
                if m.name in ctor_phase:
                    continue
                rg = regions[m.qname]
                used = set()
                for f in fields:
                    for n in _accesses(m.node, f, mode):
                        r = rg.region_of(n)
                        if r is not None:
                            used.add(r)
                if used:
                    ctx.check(R, len(used) == 1, m.qname, "blinding pair accessed in one lock region",
                              "the blinding pair is read and updated in %d separate lock regions: another "
                              "thread can interleave between them" % len(used), m.loc())


def _enclosing_stmt(fn, node):
    best = None
    for st in ast.walk(fn):
        if isinstance(st, ast.stmt) and not isinstance(st, (ast.FunctionDef, ast.If, ast.For, ast.While,
                                                            ast.Try, ast.With)):
            for n in ast.walk(st):
                if n is node:
                    best = st
    return best if best is not None else node


def rule_ring(ctx):
    """ring indices (advanced modulo the ring size) are only compared with == / !=."""
    R = "C18.RING"
    cls = ctx.index.cls("sessioncache:SessionCache")
    ring = set()
    for m in cls.methods.values():
        for n in own_nodes(m.node):
            if isinstance(n, ast.Assign) and isinstance(n.value, ast.BinOp) and \
                    isinstance(n.value.op, ast.Mod) and "len(self.entriesList)" in resolved_text(m.node, n.value.right):
                for t in n.targets:
                    c = attr_chain(t)
                    if c:
                        ring.add(c)
    # every wrap-around in the cache wraps at the size of the ring (a different modulus leaves slots
    # that are never purged or evicted)
    n_mod = 0
    for m in cls.methods.values():
        for n in own_nodes(m.node):
            if isinstance(n, ast.BinOp) and isinstance(n.op, ast.Mod) and not isinstance(n.left, ast.Constant):
                n_mod += 1
                ctx.check(R, "len(self.entriesList)" in resolved_text(m.node, n.right), m.qname, n,
                          "an index of the circular list is wrapped modulo `%s`, not the size of the list "
                          "(len(self.entriesList))" % norm(n.right), m.loc(n),
                          what="%s: `%s` wraps at the ring size" % (m.short, norm(n)))
    if n_mod < 3:
        raise AnalysisError("C18.RING: %d wrap-arounds found, confirmed 3" % n_mod)
    # locals initialised from a ring index are ring indices too
    for m in cls.methods.values():
        for n in own_nodes(m.node):
            if isinstance(n, ast.Assign) and attr_chain(n.value) in ring:
                for t in n.targets:
                    c = attr_chain(t)
                    if c:
                        ring.add(c)
    if len(ring) < 2:
        raise AnalysisError("C18.RING: ring indices of SessionCache not recognised")
    count = 0
    for m in cls.methods.values():
        for n in own_nodes(m.node):
            if isinstance(n, ast.Compare):
                operands = [n.left] + list(n.comparators)
                if sum(1 for o in operands if attr_chain(o) in ring) >= 2:
                    count += 1
                    ok = all(isinstance(o, (ast.Eq, ast.NotEq)) for o in n.ops)
                    ctx.check(R, ok, m.qname, n,
                              "ring indices are compared with an ordering operator; after the "
                              "circular list wraps (lastIndex < firstIndex) the comparison is wrong",
                              m.loc(n))
    if count < 2:
        raise AnalysisError("C18.RING: %d ring-index comparisons found, floor 2" % count)
    # the purge loop looks at the entry it is about to drop: every read of the ring inside the loop is
    # indexed by the loop's own cursor (the variable the loop condition compares with lastIndex)
    pf = ctx.index.func("sessioncache:SessionCache._purge")
    for w in [n for n in own_nodes(pf.node) if isinstance(n, ast.While)]:
        cur = None
        if isinstance(w.test, ast.Compare) and len(w.test.ops) == 1:
            for a_, b_ in ((w.test.left, w.test.comparators[0]), (w.test.comparators[0], w.test.left)):
                if attr_chain(b_) == "self.lastIndex" and isinstance(a_, ast.Name):
                    cur = a_.id
        if cur is None:
            continue
        for x in ast.walk(w):
            if isinstance(x, ast.Subscript) and attr_chain(x.value) == "self.entriesList" and isinstance(x.ctx, ast.Load):
                ctx.check(R, isinstance(x.slice, ast.Name) and x.slice.id == cur, pf.qname, x,
                          "the purge loop walks the ring with `%s` but reads `%s`: the age (or key) of another entry "
                          "decides whether this one is dropped" % (cur, norm(x)), pf.loc(x),
                          what="_purge reads the entry under its cursor (`%s`)" % norm(x))
    # the purge loop must compare ages with maxAge and remove from the dict what it skips
    purge = ctx.index.func("sessioncache:SessionCache._purge")
    src = [norm(n) for n in own_nodes(purge.node)]
    has_age = any(isinstance(n, ast.Compare) and "self.maxAge" in norm(n) and
                  isinstance(n.ops[0], (ast.Gt, ast.GtE)) for n in own_nodes(purge.node))
    ctx.check(R, has_age, purge.qname, "age > self.maxAge comparison in _purge",
              "_purge must expire entries whose age exceeds maxAge", purge.loc())
    has_del = any(isinstance(n, ast.Delete) and "self.entriesDict" in norm(n) for n in own_nodes(purge.node))
    ctx.check(R, has_del, purge.qname, "del self.entriesDict[...] in _purge",
              "_purge must delete expired entries from the dictionary", purge.loc())
    writes_first = any(isinstance(n, ast.Assign) and any(attr_chain(t) == "self.firstIndex" for t in n.targets)
                       for n in own_nodes(purge.node))
    ctx.check(R, writes_first, purge.qname, "self.firstIndex = index in _purge",
              "_purge must advance firstIndex past the expired prefix", purge.loc())
    # eviction: the slot that is dropped from the dictionary is the one firstIndex pointed at BEFORE it advances
    seti = ctx.index.func("sessioncache:SessionCache.__setitem__")
    gs = ctx.an.cfg(seti)
    adv = [n for n in gs.nodes if n.kind == "stmt" and isinstance(n.ast, ast.Assign)
           and any(attr_chain(t) == "self.firstIndex" for t in n.ast.targets)]
    dels = [n for n in gs.nodes if n.kind == "stmt" and isinstance(n.ast, ast.Delete)
            and "self.entriesDict" in norm(n.ast) and "self.firstIndex" in resolved_text(seti.node, n.ast.targets[0])]
    # a key read into a local counts at the point where it is READ (before or after the advance)
    keyreads = [n for n in gs.nodes if n.kind == "stmt" and isinstance(n.ast, ast.Assign)
                and "self.entriesList[self.firstIndex]" in norm(n.ast.value)]
    full = [t for t in gs.nodes if t.kind == "test" and {"self.lastIndex", "self.firstIndex"} <=
            {attr_chain(x) for x in ast.walk(t.expr) if isinstance(x, ast.Attribute)}]
    if not adv or not full:
        raise AnalysisError("C18.RING: eviction in SessionCache.__setitem__ not recognised")
    after = gs.reach([m for a in adv for m in gs.normal_succ(a)], follow_exc=False)
    late = [d for d in dels + keyreads if d.id in after and (d in keyreads or "self.firstIndex" in norm(d.ast))]
    before = gs.reach(gs.succ_on(full[0], "T"), blocked=dels, follow_exc=False)
    ctx.check(R, bool(dels) and not late and not any(a.id in before for a in adv), seti.qname,
              "eviction deletes the oldest slot before advancing firstIndex",
              "when the ring is full __setitem__ must delete the dictionary entry of the slot firstIndex points at "
              "and only then advance firstIndex; advancing first deletes a LIVE entry and leaves the evicted one "
              "in the dictionary (returned although evicted, and _purge later raises KeyError)",
              seti.loc(late[0].ast) if late else seti.loc())
    getit = ctx.index.func("sessioncache:SessionCache.__getitem__")
    g = ctx.an.cfg(getit)
    purges = [n for n in g.nodes if n.kind == "stmt" and "self._purge()" in norm(n.ast)]
    lookups = [n for n in g.nodes if n.ast is not None and n.kind in ("stmt", "return") and
               "self.entriesDict[" in norm(n.ast)]
    seen = g.reach([g.entry], blocked=purges)
    ctx.check(R, bool(purges) and bool(lookups) and not any(l.id in seen for l in lookups), getit.qname,
              "purge before lookup", "__getitem__ must purge expired entries before the lookup", getit.loc())
    valid_gate = False
    for n in g.nodes:
        if n.kind == "test" and "valid()" in norm(n.expr):
            fail_lbl = "F" if not (isinstance(n.expr, ast.UnaryOp)) else "T"
            seenf = g.reach(g.succ_on(n, fail_lbl))
            valid_gate = g.exit.id not in seenf
    ctx.check(R, valid_gate, getit.qname, "session.valid() gate",
              "__getitem__ must not return a session that is no longer valid/resumable", getit.loc())


def rule_clock(ctx):
    """CLOCK: the ring of (id, timestamp) pairs is ordered by time only if each timestamp is read while
    the lock that orders the insertions is held: every clock read in SessionCache happens in a lock
    region (or in a private helper whose every call site is in one)."""
    R = "C18.CLOCK"
    cls = ctx.index.cls("sessioncache:SessionCache")
    methods = [m for c in [cls] + cls.descendants() for m in c.methods.values()]
    regions = {m.qname: Regions(m.node, "lock") for m in methods}

    def held_helper(m, depth=0):
        if not m.name.startswith("_") or m.name.startswith("__") or depth > 3:
            return False
        sites = [(c, n) for c in methods for n in ast.walk(c.node)
                 if isinstance(n, ast.Call) and isinstance(n.func, ast.Attribute) and n.func.attr == m.name
                 and isinstance(n.func.value, ast.Name) and n.func.value.id == "self"]
        return bool(sites) and all(regions[c.qname].region_of(n) is not None or held_helper(c, depth + 1)
                                   for c, n in sites)
    reads = 0
    for m in methods:
        if m.name == "__init__":
            continue
        for n in ast.walk(m.node):
            if isinstance(n, ast.Call) and (attr_chain(n.func) or "").split(".")[0] in ("time", "datetime"):
                reads += 1
                ok = regions[m.qname].region_of(n) is not None or held_helper(m)
                ctx.check(R, ok, m.qname, "`%s` read under self.lock" % norm(n),
                          "the clock is read outside the region holding self.lock: two threads can insert in one "
                          "order and stamp in the other, so the ring is no longer ordered by time and _purge (which "
                          "stops at the first unexpired entry) keeps expired sessions resumable", m.loc(n))
    ctx.require(reads >= 2, "C18.CLOCK: %d clock reads found in SessionCache, floor 2" % reads)


def rule_identity(ctx):
    """IDENTITY: the cache holds the very Session object it was handed and hands the same object back.
    The connection that filled it keeps updating that object (master secret after Finished, tickets,
    `resumable = False` on a fatal alert); a copy taken at insertion or on lookup would stay resumable
    after the connection invalidated the session."""
    R = "C18.IDENTITY"
    seti = ctx.index.func("sessioncache:SessionCache.__setitem__")
    params = [a.arg for a in seti.node.args.args]
    if len(params) < 3:
        raise AnalysisError("%s: signature of SessionCache.__setitem__ not recognised" % R)
    val = params[2]
    stores = [n for n in own_nodes(seti.node) if isinstance(n, ast.Assign) and len(n.targets) == 1
              and isinstance(n.targets[0], ast.Subscript) and attr_chain(n.targets[0].value) == "self.entriesDict"]
    if not stores:
        raise AnalysisError("%s: store into entriesDict not found" % R)
    rebound = [n for n in own_nodes(seti.node) if isinstance(n, ast.Name) and n.id == val and isinstance(n.ctx, ast.Store)]
    for st in stores:
        ok = isinstance(st.value, ast.Name) and st.value.id == val and not rebound
        ctx.check(R, ok, seti.qname, st,
                  "the cache stores `%s` instead of the Session object it was handed: later changes to the "
                  "session (invalidation by a fatal alert, the master secret) do not reach the cached entry"
                  % norm(st.value), seti.loc(st), what="__setitem__ stores the caller's object")
    geti = ctx.index.func("sessioncache:SessionCache.__getitem__")
    g = ctx.an.cfg(geti)
    n_ret = 0
    for r in [n for n in g.nodes if n.kind == "return" and n.ast is not None and n.ast.value is not None]:
        n_ret += 1
        v = r.ast.value
        src = None
        if isinstance(v, ast.Name):
            ds = reaching(g, r, v.id)
            if len(ds) == 1 and isinstance(ds[0].ast, ast.Assign):
                src = ds[0].ast.value
        else:
            src = v
        ok = isinstance(src, ast.Subscript) and attr_chain(src.value) == "self.entriesDict"
        ctx.check(R, ok, geti.qname, r.ast,
                  "the cache returns `%s`, not the stored Session object itself" % (norm(src) if src is not None else norm(v)),
                  geti.loc(r.ast), what="__getitem__ returns the stored object")
    if n_ret < 1:
        raise AnalysisError("%s: return of SessionCache.__getitem__ not found" % R)


RULES = [
    ("C18.IDENTITY", "quick", rule_identity),
    ("C18.CLOCK", "quick", rule_clock),
    ("C18.LOCKSET", "quick", rule_lockset),
    ("C18.RING", "quick", rule_ring),
    # other threads see a session in the shared cache only once its handshake is complete
    ("C18.CACHE-AFTER-FINISHED", "quick", borrowed("c05", "rule_cache", "C05.CACHE", "C18.CACHE-AFTER-FINISHED")),
]
