"""Run context: obligations, findings, known-findings matching, evidence, exit codes."""
import hashlib
import json
import os
import sys
import time
import traceback

from .index import Index, AnalysisError, norm
from .cfg import Analysis

VERIF = os.path.dirname(os.path.dirname(os.path.abspath(__file__)))
KNOWN_FILE = os.path.join(VERIF, "known_findings.json")

ASSUMPTIONS = [
    "the Python grammar as parsed by the stdlib ast module of the interpreter running the check",
    "the engine's own CFG builder and call resolver (exercised by witnesses and the self-test variants)",
    "explicit-raise exception model: only explicit raise statements, resolved project callees and "
    "project __getitem__ methods create exception edges; implicit interpreter exceptions are not edges",
    "stdlib / third-party callees have no effect on the analysed facts",
    "RFC facts embedded in rule tables (IANA suite-name grammar, RFC 5246/8446 message orders, "
    "RFC 5246 section 6.3 key-block order)",
]


class Finding(object):
    def __init__(self, prop, rule, func, stmt, msg, loc="", path=None):
        self.prop = prop
        self.rule = rule
        self.func = func      # qualified function / class / table name
        self.stmt = stmt      # normalised text of sink / deviant construct
        self.msg = msg
        self.loc = loc
        self.path = path or []

    @property
    def key(self):
        return "%s / %s / %s" % (self.rule, self.func, self.stmt)

    def to_json(self):
        return {"property": self.prop, "rule": self.rule, "function": self.func,
                "construct": self.stmt, "key": self.key, "message": self.msg,
                "location": self.loc, "path_lines": self.path}


class Ctx(object):
    def __init__(self, prop, tier, index=None, analysis=None):
        self.prop = prop
        self.tier = tier
        self.index = index or Index()
        self.an = analysis or Analysis(self.index)
        self.findings = []
        self.rules = {}        # rule -> dict(obligations, discharged, exempted, samples)
        self.notes = []
        self.info = {}
        self.cur_rule = None

    # -- bookkeeping
    def _rn(self, name):
        """a rule borrowed from another property's module reports under this property's name."""
        rn = getattr(self, "rename", None)
        if rn and name.startswith(rn[0]):
            return rn[1] + name[len(rn[0]):]
        return name

    def rule(self, name):
        name = self._rn(name)
        self.cur_rule = name
        return self.rules.setdefault(name, {"obligations": 0, "discharged": 0,
                                            "exempted": 0, "samples": [], "distinct": set()})

    def ok(self, rule, what, loc="", sample=None):
        r = self.rule(rule)
        r["obligations"] += 1
        r["discharged"] += 1
        r["distinct"].add(what)
        if len(r["samples"]) < 4:
            s = {"obligation": what, "at": loc, "verdict": "discharged"}
            if sample:
                s.update(sample)
            r["samples"].append(s)

    def exempt(self, rule, what, why):
        r = self.rule(rule)
        r["exempted"] += 1
        if len(r["samples"]) < 4:
            r["samples"].append({"obligation": what, "verdict": "exempt", "why": why})

    def fail(self, rule, func, stmt, msg, loc="", path=None):
        r = self.rule(rule)
        r["obligations"] += 1
        r["distinct"].add(stmt if isinstance(stmt, str) else norm(stmt))
        if not isinstance(stmt, str):
            stmt = norm(stmt)
        if len(stmt) > 160:
            stmt = stmt[:157] + "..."
        f = Finding(self.prop, self._rn(rule), func, stmt, msg, loc, path)
        self.findings.append(f)
        return f

    def check(self, rule, cond, func, stmt, msg, loc="", path=None, what=None):
        if cond:
            self.ok(rule, what or (stmt if isinstance(stmt, str) else norm(stmt)), loc)
        else:
            self.fail(rule, func, stmt, msg, loc, path)
        return cond

    def floor(self, rule, minimum):
        r = self.rule(rule)
        if r["obligations"] < minimum:
            raise AnalysisError("rule %s found %d obligations, fewer than the confirmed floor %d "
                                "(anchors restructured; rule must be re-confirmed)"
                                % (rule, r["obligations"], minimum))

    def note(self, s):
        self.notes.append(s)

    def require(self, cond, msg):
        """population floor: an analysis error unless a finding of this run already explains
        the shrunken population (a neutralised gate is a violation, not an analysis error)."""
        if cond:
            return
        if self.findings:
            self.note("floor not met (explained by the findings of this run): " + msg)
            return
        raise AnalysisError(msg)


def load_known():
    if not os.path.exists(KNOWN_FILE):
        return []
    with open(KNOWN_FILE) as f:
        return json.load(f).get("findings", [])


def run_property(prop, tier, rules, explanation, not_decided, technique):
    """rules: list of (rule name, tier, callable(ctx)). returns exit code."""
    t0 = time.time()
    seed = int(os.environ.get("VERIF_SEED", "0") or 0)
    ev_dir = os.environ.get("TLSVERIF_EVIDENCE_DIR") or os.path.join(VERIF, "evidence")
    os.makedirs(ev_dir, exist_ok=True)
    ev_path = os.path.join(ev_dir, prop + ".json")
    try:
        ctx = Ctx(prop, tier)
        for name, rtier, fn in rules:
            if rtier == "thorough" and tier != "thorough":
                continue
            ctx.cur_rule = name
            fn(ctx)
        lost = []
        if tier == "thorough" and not os.environ.get("TLSVERIF_NO_WITNESS"):
            from .witness import replay_witnesses
            res = replay_witnesses(prop, ctx.index.repo)
            ctx.info["witnesses"] = res
            lost = [w for w in res if w["applies"] and not w["fires"]]
            ctx.note("thorough tier: %d recorded property-breaking changes of seeded/ re-applied to a scratch copy of "
                     "the current tree; %d apply, %d of those make this check fire" % (
                         len(res), sum(1 for w in res if w["applies"]),
                         sum(1 for w in res if w["applies"] and w["fires"])))
        noisy = []
        if tier == "thorough" and not os.environ.get("TLSVERIF_NO_WITNESS"):
            from .witness import replay_controls
            cres = replay_controls(prop, ctx.index.repo)
            ctx.info["negative_controls"] = cres
            noisy = [w for w in cres if w["applies"] and w.get("exit") != 0]
            ctx.note("thorough tier: %d behaviour-preserving refactorings of benign/ re-applied to a scratch copy; "
                     "%d apply, %d of those leave this check silent" % (
                         len(cres), sum(1 for w in cres if w["applies"]),
                         sum(1 for w in cres if w["applies"] and w.get("exit") == 0)))
        code = finish(ctx, explanation, not_decided, technique, t0, seed, ev_path)
        if noisy and code == 0:
            for w in noisy:
                print("ANALYSIS-ERROR property=%s negative control %s (%s) applies to the current tree and makes "
                      "the check report (exit %s) although it preserves behaviour: a rule became brittle and must "
                      "be re-confirmed" % (prop, w["seed"], w["title"][:80], w.get("exit")))
            return 2
        if lost and code == 0:
            for w in lost:
                print("ANALYSIS-ERROR property=%s witness %s (%s) applies to the current tree but no longer makes "
                      "the check fire: a rule lost its sensitivity and must be re-confirmed" % (prop, w["seed"], w["title"][:90]))
            return 2
        return code
    except AnalysisError as e:
        print("ANALYSIS-ERROR property=%s %s" % (prop, e))
        _write_error_evidence(prop, tier, seed, ev_path, t0, str(e))
        return 2
    except Exception as e:      # never let a traceback look like a violation
        print("ANALYSIS-ERROR property=%s internal error: %r" % (prop, e))
        traceback.print_exc(file=sys.stdout)
        _write_error_evidence(prop, tier, seed, ev_path, t0, repr(e))
        return 2


def _write_error_evidence(prop, tier, seed, ev_path, t0, msg):
    ev = {"property_id": prop, "tier": tier, "seed": seed, "level": "other",
          "coverage": {"explanation": "ANALYSIS-ERROR: the checker could not analyse the tree: " + msg,
                       "evaluations": 0, "distinct_nontrivial": 0},
          "assumptions": ASSUMPTIONS, "wall_s": round(time.time() - t0, 3), "violations": 0,
          "analysis_error": msg}
    with open(ev_path, "w") as f:
        json.dump(ev, f, indent=1)


def finish(ctx, explanation, not_decided, technique, t0, seed, ev_path):
    known = [k for k in load_known() if k.get("property") == ctx.prop]
    known_keys = {k["key"]: k for k in known if k.get("status") == "known"}
    new, matched = [], []
    for f in ctx.findings:
        if f.key in known_keys:
            matched.append(f)
        else:
            new.append(f)
    seen_known = set()
    for f in matched:
        if f.key in seen_known:
            continue
        seen_known.add(f.key)
        print("KNOWN-FINDING: property=%s %s [%s at %s]" % (
            ctx.prop, known_keys[f.key].get("what", f.msg), f.key, f.loc))
    stale = [k for k in known_keys if k not in seen_known]
    for k in stale:
        ctx.note("known finding no longer reported (defect gone or rule not run in this tier): " + k)

    obligations = sum(r["obligations"] for r in ctx.rules.values())
    discharged = sum(r["discharged"] for r in ctx.rules.values())
    distinct = sum(len(r["distinct"]) for r in ctx.rules.values())
    samples = []
    for name, r in sorted(ctx.rules.items()):
        for s in r["samples"][:3]:
            d = {"rule": name}
            d.update(s)
            samples.append(d)
    replay_path = ""
    if new:
        rp_dir = os.environ.get("TLSVERIF_REPLAY_DIR") or os.path.join(VERIF, "replay")
        os.makedirs(rp_dir, exist_ok=True)
        h = hashlib.sha1(("\n".join(sorted(f.key for f in new))).encode()).hexdigest()[:12]
        replay_path = os.path.join(rp_dir, "%s-%s.json" % (ctx.prop, h))
        with open(replay_path, "w") as f:
            json.dump({"property": ctx.prop, "tier": ctx.tier,
                       "findings": [x.to_json() for x in new]}, f, indent=1)
    ev = {
        "property_id": ctx.prop, "tier": ctx.tier, "seed": seed, "level": "other",
        "coverage": {
            "explanation": explanation,
            "technique": technique,
            "not_decided": not_decided,
            "evaluations": obligations,
            "distinct_nontrivial": distinct,
            "rule": "one evaluation = one obligation (a sink, call site, class, table row or suite "
                    "the rule must discharge) found on the current tree; distinct = obligations with "
                    "distinct normalised constructs; trivial (vacuous) rule instances are not counted",
            "obligations": obligations,
            "discharged": discharged,
            "exhaustive": True,
            "samples": samples,
            "per_rule": {name: {"obligations": r["obligations"], "discharged": r["discharged"],
                                "exempted": r["exempted"]} for name, r in sorted(ctx.rules.items())},
            "files_parsed": len(ctx.index.modules),
            "functions_indexed": len(ctx.index.functions),
            "calls_total": ctx.an.calls_total,
            "calls_resolved": ctx.an.calls_resolved,
            "known_findings_matched": sorted(seen_known),
            "new_findings": [x.to_json() for x in new],
            "info": ctx.info,
            "notes": ctx.notes,
        },
        "assumptions": ASSUMPTIONS,
        "wall_s": round(time.time() - t0, 3),
        "violations": len(new),
    }
    with open(ev_path, "w") as f:
        json.dump(ev, f, indent=1, default=str)
    print("property=%s tier=%s rules=%d obligations=%d discharged=%d known=%d new=%d wall=%.2fs" % (
        ctx.prop, ctx.tier, len(ctx.rules), obligations, discharged, len(seen_known), len(new),
        time.time() - t0))
    if new:
        for f in new:
            print("  %s %s %s -- %s%s" % (f.loc, f.func, f.rule, f.msg,
                                          (" path=" + str(f.path)) if f.path else ""))
            print("    construct: %s" % f.stmt)
        print("VIOLATION property=%s replay=%s" % (ctx.prop, replay_path))
        return 1
    return 0
