"""Path queries over a CFG: avoid(), effective gates, truthiness edge cuts."""
import ast

from .index import attr_chain, chains_in, chain_prefixes, norm, own_nodes


# ------------------------------------------------------------ truthiness facts
def _key(e):
    """name or attribute chain of an expression, or None."""
    return attr_chain(e) if isinstance(e, (ast.Name, ast.Attribute)) else None


def falsy_when(test, outcome):
    """set of chains known to be falsy/None/empty when `test` evaluates to `outcome`."""
    out = set()
    k = _key(test)
    if k is not None:
        if not outcome:
            out.add(k)
        return out
    if isinstance(test, ast.UnaryOp) and isinstance(test.op, ast.Not):
        return falsy_when(test.operand, not outcome)
    if isinstance(test, ast.BoolOp):
        if isinstance(test.op, ast.Or) and not outcome:
            for v in test.values:
                out |= falsy_when(v, False)
        if isinstance(test.op, ast.And) and outcome:
            for v in test.values:
                out |= falsy_when(v, True)
        # `V and V.x()` false  =>  not necessarily V falsy; but when every conjunct is
        # about the same chain (V and V.getNumCerts()), false means "V empty".
        if isinstance(test.op, ast.And) and not outcome:
            keys = set()
            for v in test.values:
                kk = _key(v)
                if kk is None and isinstance(v, ast.Call) and isinstance(v.func, ast.Attribute):
                    kk = _key(v.func.value)
                keys.add(kk)
            if len(keys) == 1 and None not in keys:
                out |= keys
        return out
    if isinstance(test, ast.Compare) and len(test.ops) == 1:
        l, c, op = test.left, test.comparators[0], test.ops[0]
        k = _key(l)
        if k is not None and isinstance(c, ast.Constant) and c.value is None:
            if isinstance(op, (ast.Is, ast.Eq)) and outcome:
                out.add(k)
            if isinstance(op, (ast.IsNot, ast.NotEq)) and not outcome:
                out.add(k)
    return out


def truthy_when(test, outcome):
    out = set()
    k = _key(test)
    if k is not None:
        if outcome:
            out.add(k)
        return out
    if isinstance(test, ast.UnaryOp) and isinstance(test.op, ast.Not):
        return truthy_when(test.operand, not outcome)
    if isinstance(test, ast.BoolOp):
        if isinstance(test.op, ast.And) and outcome:
            for v in test.values:
                out |= truthy_when(v, True)
        if isinstance(test.op, ast.Or) and not outcome:
            for v in test.values:
                out |= truthy_when(v, False)
        return out
    if isinstance(test, ast.Compare) and len(test.ops) == 1:
        l, c, op = test.left, test.comparators[0], test.ops[0]
        k = _key(l)
        if k is not None and isinstance(c, ast.Constant) and c.value is None:
            if isinstance(op, (ast.IsNot, ast.NotEq)) and outcome:
                out.add(k)
            if isinstance(op, (ast.Is, ast.Eq)) and not outcome:
                out.add(k)
    return out


def falsy_edges(cfg, chain):
    """edges on which `chain` is known falsy/None/empty -> set of (node id, label)."""
    cut = set()
    for n in cfg.nodes:
        if n.kind == "test" and n.expr is not None:
            if chain in falsy_when(n.expr, True):
                cut.add((n.id, "T"))
            if chain in falsy_when(n.expr, False):
                cut.add((n.id, "F"))
    return cut


def truthy_edges(cfg, chain):
    cut = set()
    for n in cfg.nodes:
        if n.kind == "test" and n.expr is not None:
            if chain in truthy_when(n.expr, True):
                cut.add((n.id, "T"))
            if chain in truthy_when(n.expr, False):
                cut.add((n.id, "F"))
    return cut


# ------------------------------------------------------------ assignments
def assigned_names(stmt):
    """chains (names / attribute chains) assigned by a simple statement."""
    out = []
    tgts = []
    if isinstance(stmt, ast.Assign):
        tgts = stmt.targets
    elif isinstance(stmt, (ast.AugAssign, ast.AnnAssign)):
        tgts = [stmt.target]
    for t in tgts:
        for e in ([t] if not isinstance(t, (ast.Tuple, ast.List)) else t.elts):
            k = _key(e)
            if k is not None:
                out.append(k)
    return out


def assigns(node, chain):
    return node.kind == "stmt" and isinstance(node.ast, (ast.Assign, ast.AugAssign, ast.AnnAssign)) \
        and chain in assigned_names(node.ast)


def assigns_none(node, chain):
    return assigns(node, chain) and isinstance(node.ast, ast.Assign) \
        and isinstance(node.ast.value, ast.Constant) and node.ast.value.value is None


def defs_of(cfg, chain):
    """nodes that (re)define `chain`: assignments and consume/loop nodes binding it."""
    out = []
    for n in cfg.nodes:
        if assigns(n, chain):
            out.append(n)
        elif n.kind in ("consume", "loop") and n.var == chain:
            out.append(n)
    return out


# ------------------------------------------------------------ constant flags
def const_flag_cuts(cfg, names=None):
    """Boolean flags assigned only constants in this function: cut the infeasible edge of
    tests `if flag` / `if not flag` when every definition reaching the test agrees.

    Implemented as a forward may-analysis of {flag: set of constant values}."""
    fn = cfg.fn
    consts = {}
    nonconst = set()
    params = {a.arg for a in fn.args.args + fn.args.kwonlyargs}
    if fn.args.vararg:
        params.add(fn.args.vararg.arg)
    if fn.args.kwarg:
        params.add(fn.args.kwarg.arg)
    for n in cfg.nodes:
        if n.kind == "stmt" and isinstance(n.ast, ast.Assign):
            for t in n.ast.targets:
                if isinstance(t, ast.Name):
                    if isinstance(n.ast.value, ast.Constant) and \
                            isinstance(n.ast.value.value, (bool, type(None))):
                        consts.setdefault(t.id, set()).add(n.ast.value.value)
                    else:
                        nonconst.add(t.id)
                elif isinstance(t, (ast.Tuple, ast.List)):
                    for e in t.elts:
                        if isinstance(e, ast.Name):
                            nonconst.add(e.id)
        elif n.kind == "stmt" and isinstance(n.ast, (ast.AugAssign, ast.AnnAssign)):
            if isinstance(n.ast.target, ast.Name):
                nonconst.add(n.ast.target.id)
        elif n.kind in ("consume", "loop") and n.var:
            nonconst.add(n.var)
        elif n.kind == "with" and isinstance(n.ast, ast.With):
            for it in n.ast.items:
                if isinstance(it.optional_vars, ast.Name):
                    nonconst.add(it.optional_vars.id)
        elif n.kind == "handler" and getattr(n.ast, "name", None):
            nonconst.add(n.ast.name)
    flags = {k for k in consts if k not in nonconst and k not in params}
    if names is not None:
        flags &= set(names)
    if not flags:
        return set()
    # forward may-analysis
    state = {cfg.entry.id: {f: frozenset() for f in flags}}
    work = [cfg.entry]
    def transfer(n, st):
        if n.kind == "stmt" and isinstance(n.ast, ast.Assign):
            for t in n.ast.targets:
                if isinstance(t, ast.Name) and t.id in flags:
                    st = dict(st)
                    st[t.id] = frozenset([n.ast.value.value])
        return st
    while work:
        n = work.pop()
        out = transfer(n, state[n.id])
        for m, l in n.succ:
            old = state.get(m.id)
            if old is None:
                state[m.id] = dict(out)
                work.append(m)
            else:
                changed = False
                for f in flags:
                    u = old[f] | out[f]
                    if u != old[f]:
                        old[f] = u
                        changed = True
                if changed:
                    work.append(m)
    cut = set()
    for n in cfg.nodes:
        if n.kind != "test" or n.id not in state:
            continue
        t = n.expr
        neg = False
        while isinstance(t, ast.UnaryOp) and isinstance(t.op, ast.Not):
            t = t.operand
            neg = not neg
        if isinstance(t, ast.Name) and t.id in flags:
            vals = state[n.id][t.id]
            if not vals:
                continue
            truth = {bool(v) for v in vals}
            if len(truth) == 1:
                outcome = truth.pop() != neg
                cut.add((n.id, "F" if outcome else "T"))
    return cut


# ------------------------------------------------------------ avoid / gates
class Obligation(object):
    """sources -> sinks must pass one of gates (after effectiveness filtering)."""

    def __init__(self, cfg, sources, sinks, kills=(), cut=(), start_after_sources=True):
        self.cfg = cfg
        self.sources = list(sources)
        self.sinks = list(sinks)
        self.kills = list(kills)
        self.cut = set(cut)
        self.start_after = start_after_sources

    def starts(self):
        if not self.start_after:
            return list(self.sources)
        out = []
        for s in self.sources:
            out += self.cfg.normal_succ(s)
        return out

    def effective(self, gate, fail_labels):
        """gate node is effective iff from its failing edge(s) no sink is reachable
        without re-passing a source or a kill."""
        starts = []
        for m, l in gate.succ:
            if l in fail_labels:
                starts.append(m)
        if not starts and gate.kind in ("consume", "stmt", "noreturn", "raise"):
            return True
        seen = self.cfg.reach(starts, blocked=self.kills + self.sources, cut=self.cut)
        return not any(k.id in seen for k in self.sinks)

    def escape(self, gates):
        """a path from a source to a sink avoiding all `gates` (and kills), or None."""
        seen = self.cfg.reach(self.starts(), blocked=list(self.kills) + list(gates), cut=self.cut)
        for k in self.sinks:
            if k.id in seen:
                return self.cfg.path(seen, k.id)
        return None


def failing_labels(test_expr, predicate_true_means_fail=True):
    return ("T",) if predicate_true_means_fail else ("F",)


def branch_dead(cfg, test, label, sinks=None, blocked=(), cut=()):
    """True if from edge `label` of `test` neither exit nor the other branch's join nor
    any sink is reachable (i.e. the branch never returns to normal flow)."""
    starts = cfg.succ_on(test, label)
    seen = cfg.reach(starts, blocked=blocked, cut=cut)
    if sinks is None:
        return cfg.exit.id not in seen
    return not any(s.id in seen for s in sinks)


def noreturn_branch(cfg, test, label):
    """the branch leaves the function abnormally on every path (alert/raise): exit not
    reachable and no value-yield reachable before the raise."""
    starts = cfg.succ_on(test, label)
    seen = cfg.reach(starts)
    if cfg.exit.id in seen:
        return False
    return True


def mentions(expr, chain):
    return chain in chain_prefixes(expr)


def mentions_all(expr, chains):
    pf = chain_prefixes(expr)
    return all(c in pf for c in chains)


def calls_in(node):
    out = []
    todo = [node]
    while todo:
        n = todo.pop()
        if isinstance(n, ast.Call):
            out.append(n)
        for c in ast.iter_child_nodes(n):
            if isinstance(c, (ast.Lambda, ast.FunctionDef, ast.ClassDef)):
                continue
            todo.append(c)
    return out


def call_name(call):
    f = call.func
    if isinstance(f, ast.Attribute):
        return f.attr
    if isinstance(f, ast.Name):
        return f.id
    return None


def node_calls(node, name):
    """does the CFG node's own expression contain a call named `name`?"""
    if node.expr is None and node.ast is None:
        return []
    e = node.expr if node.expr is not None else None
    if e is None:
        return []
    return [c for c in calls_in(e) if call_name(c) == name]


def nodes_calling(cfg, name):
    return [n for n in cfg.nodes if node_calls(n, name)]


def is_value_yield(node):
    """a `yield <value>` statement that is not a 0/1 forward (token yield)."""
    if node.kind != "stmt" or not isinstance(node.ast, ast.Expr):
        return False
    v = node.ast.value
    if not isinstance(v, ast.Yield):
        return False
    if isinstance(v.value, ast.Constant) and v.value.value in (0, 1) and \
            not isinstance(v.value.value, bool):
        return False
    return True


def yield_value(node):
    return node.ast.value.value


def lines(path):
    out = []
    for n in path:
        if n.line and (not out or out[-1] != n.line):
            out.append(n.line)
    return out


def flag_cuts_from(cfg, sources, flag):
    """infeasible edges of tests of a constant-only boolean `flag` on paths that start at
    `sources`: the value is the (unique) constant reaching the sources unless re-assigned."""
    from .flow import reaching_defs
    vals = set()
    for s in sources:
        if assigns(s, flag) and isinstance(s.ast, ast.Assign) and isinstance(s.ast.value, ast.Constant):
            vals.add(bool(s.ast.value.value))      # the source itself sets the flag
            continue
        for d in reaching_defs(cfg, s, flag):
            if d.kind == "stmt" and isinstance(d.ast, ast.Assign) and isinstance(d.ast.value, ast.Constant):
                vals.add(bool(d.ast.value.value))
            else:
                return set()
    if len(vals) != 1:
        return set()
    val = vals.pop()
    # assignments of the flag reachable from the sources invalidate the knowledge beyond them
    kills = [n for n in cfg.nodes if assigns(n, flag)]
    starts = []
    for s in sources:
        starts += cfg.normal_succ(s)
    seen = cfg.reach(starts, blocked=kills)
    cut = set()
    for n in cfg.nodes:
        if n.kind == "test" and n.id in seen:
            t, neg = n.expr, False
            while isinstance(t, ast.UnaryOp) and isinstance(t.op, ast.Not):
                t, neg = t.operand, not neg
            if isinstance(t, ast.Name) and t.id == flag:
                outcome = val != neg
                cut.add((n.id, "F" if outcome else "T"))
    return cut
