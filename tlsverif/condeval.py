"""Decide what a guard condition means by evaluating its syntax tree over a finite domain.

The guards this is used for touch their operands only through comparisons, membership
tests and small integer arithmetic, so a handful of values around each boundary
enumerates every ordering the condition can distinguish.  Nothing of the library is
executed: the evaluator interprets the `ast` of the one expression, with the operands
(sub-expressions identified by their normalised source text) bound to domain values.
"""
import ast
import itertools

from .index import AnalysisError, norm


class Unknown(Exception):
    pass


def _local_def(fn, name):
    """The one assignment `name = <expr>` that provably reaches the use: either the only assignment
    of that name in the function, or the latest one above the use that is a sibling of a statement
    containing the use (same straight-line block), with no loop around the use re-assigning it."""
    defs = [n for n in ast.walk(fn) if isinstance(n, ast.Assign) and len(n.targets) == 1
            and isinstance(n.targets[0], ast.Name) and n.targets[0].id == name.id]
    dt = {id(d.targets[0]) for d in defs}
    others = [t for t in ast.walk(fn) if isinstance(t, ast.Name) and t.id == name.id
              and isinstance(t.ctx, ast.Store) and id(t) not in dt]
    if len(defs) == 1 and not others:
        return defs[0]
    if not hasattr(name, "lineno"):
        return None
    above = [d for d in defs if d.end_lineno < name.lineno]
    if not above:
        return None
    d = max(above, key=lambda x: x.lineno)
    for blk in ast.walk(fn):
        for field in ("body", "orelse", "finalbody"):
            stmts = getattr(blk, field, None)
            if not isinstance(stmts, list) or d not in stmts:
                continue
            after = stmts[stmts.index(d) + 1:]
            holder = [s_ for s_ in after if any(x is name for x in ast.walk(s_))]
            if not holder:
                return None
            between = after[:after.index(holder[0])]
            for s_ in between + holder[:1]:
                for x in ast.walk(s_):
                    if isinstance(x, ast.Name) and x.id == name.id and isinstance(x.ctx, ast.Store):
                        return None
            return d
    return None


def ev(e, env):
    key = norm(e)
    if key in env:
        return env[key]
    if isinstance(e, ast.Constant):
        return e.value
    if isinstance(e, (ast.Tuple, ast.List)):
        return tuple(ev(x, env) for x in e.elts)
    if isinstance(e, ast.Set):
        return frozenset(ev(x, env) for x in e.elts)
    if isinstance(e, ast.UnaryOp):
        v = ev(e.operand, env)
        if isinstance(e.op, ast.Not):
            return not v
        if isinstance(e.op, ast.USub):
            return -v
        raise Unknown(key)
    if isinstance(e, ast.BoolOp):
        if isinstance(e.op, ast.And):
            r = True
            for v in e.values:
                r = ev(v, env)
                if not r:
                    return r
            return r
        r = False
        for v in e.values:
            r = ev(v, env)
            if r:
                return r
        return r
    if isinstance(e, ast.BinOp):
        l, r = ev(e.left, env), ev(e.right, env)
        ops = {ast.Add: lambda: l + r, ast.Sub: lambda: l - r, ast.Mult: lambda: l * r,
               ast.Mod: lambda: l % r, ast.FloorDiv: lambda: l // r, ast.Pow: lambda: l ** r,
               ast.BitOr: lambda: l | r, ast.BitAnd: lambda: l & r, ast.LShift: lambda: l << r,
               ast.RShift: lambda: l >> r}
        if type(e.op) in ops:
            return ops[type(e.op)]()
        raise Unknown(key)
    if isinstance(e, ast.Compare):
        left = ev(e.left, env)
        for op, c in zip(e.ops, e.comparators):
            right = ev(c, env)
            if isinstance(op, ast.Lt):
                ok = left < right
            elif isinstance(op, ast.LtE):
                ok = left <= right
            elif isinstance(op, ast.Gt):
                ok = left > right
            elif isinstance(op, ast.GtE):
                ok = left >= right
            elif isinstance(op, ast.Eq):
                ok = left == right
            elif isinstance(op, ast.NotEq):
                ok = left != right
            elif isinstance(op, ast.In):
                ok = left in right
            elif isinstance(op, ast.NotIn):
                ok = left not in right
            elif isinstance(op, ast.Is):
                ok = left is right or (left is None and right is None)
            elif isinstance(op, ast.IsNot):
                ok = not (left is right or (left is None and right is None))
            else:
                raise Unknown(key)
            if not ok:
                return False
            left = right
        return True
    if isinstance(e, ast.Subscript):
        base = ev(e.value, env)
        if isinstance(e.slice, ast.Slice):
            lo = ev(e.slice.lower, env) if e.slice.lower is not None else None
            hi = ev(e.slice.upper, env) if e.slice.upper is not None else None
            return base[lo:hi]
        return base[ev(e.slice, env)]
    if isinstance(e, ast.IfExp):
        return ev(e.body, env) if ev(e.test, env) else ev(e.orelse, env)
    if isinstance(e, (ast.ListComp, ast.SetComp, ast.GeneratorExp)) and len(e.generators) == 1 \
            and isinstance(e.generators[0].target, ast.Name):
        gen = e.generators[0]
        out = []
        for item in ev(gen.iter, env):
            env2 = dict(env)
            env2[gen.target.id] = item
            if all(ev(c, env2) for c in gen.ifs):
                out.append(ev(e.elt, env2))
        return frozenset(out) if isinstance(e, ast.SetComp) else tuple(out)
    if isinstance(e, ast.Name):
        fn = env.get("__fn__")
        if fn is not None:
            d = _local_def(fn, e)
            busy = env.setdefault("__busy__", set())
            if d is not None and e.id not in busy:
                busy.add(e.id)
                try:
                    return ev(d.value, env)
                finally:
                    busy.discard(e.id)
        raise Unknown(key)
    if isinstance(e, ast.Call) and isinstance(e.func, ast.Name) and not e.keywords:
        args = [ev(a, env) for a in e.args]
        fn = {"min": min, "max": max, "len": len, "bool": bool, "int": int, "abs": abs,
              "any": any, "all": all, "tuple": tuple, "set": frozenset, "list": tuple,
              "frozenset": frozenset, "sorted": lambda x: tuple(sorted(x))}.get(e.func.id)
        if fn:
            return fn(*args)
    raise Unknown(key)


def mismatches(expr, domain, spec, limit=3):
    """domain: {operand text: [values]}; spec(**{operand text: value}) -> expected truth.
    returns list of (assignment, got, expected); raises Unknown if not evaluable."""
    keys = sorted(domain)
    bad = []
    for combo in itertools.product(*[domain[k] for k in keys]):
        env = dict(zip(keys, combo))
        got = bool(ev(expr, env))
        exp = bool(spec(env))
        if got != exp:
            bad.append((env, got, exp))
            if len(bad) >= limit:
                break
    return bad


def check_cond(ctx, rule, fi, node_ast, expr, domain, spec, what, meaning, closed=False):
    """records ok / finding: `expr` must be true exactly when `spec` says so.
    closed=True: the specification names every quantity the guard may depend on; an operand
    outside the model is then itself the violation (the guard depends on something else)."""
    try:
        bad = mismatches(expr, domain, spec)
    except Unknown as u:
        if closed:
            ctx.fail(rule, fi.qname, what,
                     "%s: the condition `%s` depends on `%s`, which is not one of the quantities this "
                     "guard is specified over (%s)" % (meaning, norm(expr)[:100], u, ", ".join(sorted(domain))),
                     fi.loc(node_ast))
            return False
        raise AnalysisError("%s: condition `%s` in %s uses an operand the rule does not model (%s); "
                            "re-confirm the rule" % (rule, norm(expr)[:80], fi.qname, u))
    if bad:
        env, got, exp = bad[0]
        ctx.fail(rule, fi.qname, what,
                 "%s: the condition `%s` is %s for %s but must be %s" % (
                     meaning, norm(expr)[:100], got, ", ".join("%s=%r" % kv for kv in sorted(env.items())), exp),
                 fi.loc(node_ast))
        return False
    ctx.ok(rule, "%s: %s" % (fi.short, what), fi.loc(node_ast), sample={"condition": norm(expr)[:120]})
    return True


def outcomes(g, fn_node, env, abort_only):
    """Which ways can one function end for one assignment of its inputs?  Walks the CFG from the entry,
    deciding every test whose operands the assignment binds (through `ev`, locals resolved to their
    reaching straight-line definition).  A test that cannot be decided is an unrelated check: if one of
    its edges only aborts (`abort_only(test)` names that label) the other edge is taken - the unrelated
    checks are assumed to pass - otherwise both edges are explored.  Returns a subset of
    {"raise", "pass"} and the undecided tests that were explored both ways."""
    env = dict(env)
    env["__fn__"] = fn_node
    out, both = set(), []
    seen = set()
    st = [g.entry]
    while st:
        n = st.pop()
        if n.id in seen:
            continue
        seen.add(n.id)
        if n is g.exit or n.kind == "return":
            out.add("pass")
            continue
        if n.kind in ("raise", "noreturn"):
            out.add("raise")
            continue
        if n.kind == "test" and n.expr is not None:
            try:
                v = bool(ev(n.expr, env))
                st += [m for m, l in n.succ if l == ("T" if v else "F")]
                continue
            except (Unknown, TypeError, AttributeError, KeyError, IndexError):
                dl = abort_only(n)
                if len(dl) == 1:
                    st += [m for m, l in n.succ if l in ("T", "F") and l != dl[0]]
                else:
                    both.append(n)
                    st += [m for m, l in n.succ if l in ("T", "F")]
                continue
        st += [m for m, l in n.succ if not l.startswith("exc")]
    return out, both
