"""Decide what a guard condition means by evaluating its syntax tree over a finite domain.

The guards this is used for touch their operands only through comparisons, membership
tests and small integer arithmetic, so a handful of values around each boundary
enumerates every ordering the condition can distinguish.  Nothing of the library is
executed: the evaluator interprets the `ast` of the one expression, with the operands
(sub-expressions identified by their normalised source text) bound to domain values.
"""
import ast
import itertools

from .index import AnalysisError, norm


class Unknown(Exception):
    pass


class Sym(str):
    """an operand the assignment does not bind, carried symbolically (symbolic mode: env["__sym__"])."""
    def __repr__(self):
        return "<%s>" % str(self)


class Inst(object):
    """an instance of the named (exception) class, as far as isinstance() is concerned"""
    def __init__(self, cls_name):
        self.cls_name = cls_name

    def __hash__(self):
        return hash(("Inst", self.cls_name))

    def __eq__(self, other):
        return isinstance(other, Inst) and other.cls_name == self.cls_name

    def __repr__(self):
        return "<%s instance>" % self.cls_name


class FrozenDict(dict):
    """a literal dict as a hashable value"""
    def __hash__(self):
        return hash(tuple(sorted(self.items(), key=repr)))


class Rec(object):
    """a domain value with named fields (one element of a list the peer sent), hashable."""

    def __init__(self, **fields):
        self.fields = fields

    def _k(self):
        return tuple(sorted((k, repr(v)) for k, v in self.fields.items()))

    def __hash__(self):
        return hash(self._k())

    def __eq__(self, other):
        return isinstance(other, Rec) and self._k() == other._k()

    def __repr__(self):
        return "Rec(%s)" % ", ".join("%s=%r" % kv for kv in sorted(self.fields.items()))


_LD_CACHE = {}
_FN_FACTS = {}
_NORM = {}


def _norm(e):
    k = id(e)
    v = _NORM.get(k)
    if v is None or v[0] is not e:
        v = (e, norm(e))
        _NORM[k] = v
    return v[1]


def _fn_facts(fn):
    """per function, computed once: simple `name = expr` assignments by name, other stores by name,
    and the statement lists (blocks)."""
    k = id(fn)
    f = _FN_FACTS.get(k)
    if f is not None and f[0] is fn:
        return f[1]
    defs, others, blocks = {}, {}, []
    dt = set()
    for n in ast.walk(fn):
        if isinstance(n, ast.Assign) and len(n.targets) == 1 and isinstance(n.targets[0], ast.Name):
            defs.setdefault(n.targets[0].id, []).append(n)
            dt.add(id(n.targets[0]))
        for field in ("body", "orelse", "finalbody"):
            stmts = getattr(n, field, None)
            if isinstance(stmts, list) and stmts and isinstance(stmts[0], ast.stmt):
                blocks.append(stmts)
    for t in ast.walk(fn):
        if isinstance(t, ast.Name) and isinstance(t.ctx, ast.Store) and id(t) not in dt:
            others.setdefault(t.id, []).append(t)
    facts = (defs, others, blocks)
    _FN_FACTS[k] = (fn, facts)
    return facts


def _local_def(fn, name):
    """The one assignment `name = <expr>` that provably reaches the use: either the only assignment
    of that name in the function, or the latest one above the use that is a sibling of a statement
    containing the use (same straight-line block), with nothing in between re-assigning it."""
    ck = (id(fn), id(name))
    hit = _LD_CACHE.get(ck)
    if hit is not None and hit[0] is name:
        return hit[1]
    r = _local_def_uncached(fn, name)
    _LD_CACHE[ck] = (name, r)
    return r


def _local_def_uncached(fn, name):
    alld, allo, blocks = _fn_facts(fn)
    defs = alld.get(name.id, [])
    others = allo.get(name.id, [])
    if len(defs) == 1 and not others:
        return defs[0]
    if not hasattr(name, "lineno"):
        return None
    above = [d for d in defs if d.end_lineno < name.lineno]
    if not above:
        return None
    d = max(above, key=lambda x: x.lineno)
    for stmts in blocks:
        if not any(x is d for x in stmts):
            continue
        i = [k for k, x in enumerate(stmts) if x is d][0]
        after = stmts[i + 1:]
        holder = [s_ for s_ in after if s_.lineno <= name.lineno <= s_.end_lineno
                  and any(x is name for x in ast.walk(s_))]
        if not holder:
            return None
        between = after[:after.index(holder[0])]
        for s_ in between + holder[:1]:
            for x in ast.walk(s_):
                if isinstance(x, ast.Name) and x.id == name.id and isinstance(x.ctx, ast.Store):
                    return None
        return d
    return None


def _none_alias(e, key):
    """`x == None` and `x is None` are one operand text as far as a row's bindings go"""
    if isinstance(e, ast.Compare) and len(e.ops) == 1 and isinstance(e.comparators[0], ast.Constant) \
            and e.comparators[0].value is None:
        swap = {ast.Eq: " is None", ast.Is: " == None", ast.NotEq: " is not None", ast.IsNot: " != None"}.get(type(e.ops[0]))
        if swap:
            return _norm(e.left) + swap
    return None


def ev(e, env):
    key = _norm(e)
    if key in env:
        return env[key]
    if isinstance(e, ast.Compare):
        alt = _none_alias(e, key)
        if alt is not None and alt in env:
            return env[alt]
    if isinstance(e, ast.Constant):
        return e.value
    if isinstance(e, (ast.Tuple, ast.List)):
        return tuple(ev(x, env) for x in e.elts)
    if isinstance(e, ast.Set):
        return frozenset(ev(x, env) for x in e.elts)
    if isinstance(e, ast.Dict) and all(k is not None for k in e.keys):
        return FrozenDict((ev(k, env), ev(v, env)) for k, v in zip(e.keys, e.values))
    if isinstance(e, ast.UnaryOp):
        v = ev(e.operand, env)
        if isinstance(e.op, ast.Not):
            return not v
        if isinstance(e.op, ast.USub):
            return -v
        if isinstance(e.op, ast.Invert) and isinstance(v, int) and not isinstance(v, bool):
            return ~v
        raise Unknown(key)
    if isinstance(e, ast.BoolOp):
        # three-valued: the operands are side-effect free, so one decided falsy (truthy) operand
        # decides a conjunction (disjunction) whatever the undecided ones are
        is_and = isinstance(e.op, ast.And)
        unknown = None
        r = is_and
        for v in e.values:
            try:
                r = ev(v, env)
            except Unknown as u:
                unknown = unknown or u
                continue
            if bool(r) != is_and:
                return r
        if unknown is not None:
            raise unknown
        return r
    if isinstance(e, ast.BinOp):
        l, r = ev(e.left, env), ev(e.right, env)
        ops = {ast.Add: lambda: l + r, ast.Sub: lambda: l - r, ast.Mult: lambda: l * r,
               ast.Mod: lambda: l % r, ast.FloorDiv: lambda: l // r, ast.Pow: lambda: l ** r,
               ast.BitOr: lambda: l | r, ast.BitAnd: lambda: l & r, ast.LShift: lambda: l << r,
               ast.BitXor: lambda: l ^ r,
               ast.RShift: lambda: l >> r}
        if type(e.op) in ops:
            return ops[type(e.op)]()
        raise Unknown(key)
    if isinstance(e, ast.Compare):
        left = ev(e.left, env)
        for op, c in zip(e.ops, e.comparators):
            right = ev(c, env)
            if isinstance(op, ast.Lt):
                ok = left < right
            elif isinstance(op, ast.LtE):
                ok = left <= right
            elif isinstance(op, ast.Gt):
                ok = left > right
            elif isinstance(op, ast.GtE):
                ok = left >= right
            elif isinstance(op, ast.Eq):
                ok = left == right
            elif isinstance(op, ast.NotEq):
                ok = left != right
            elif isinstance(op, ast.In):
                ok = left in right
            elif isinstance(op, ast.NotIn):
                ok = left not in right
            elif isinstance(op, ast.Is):
                ok = left is right or (left is None and right is None)
            elif isinstance(op, ast.IsNot):
                ok = not (left is right or (left is None and right is None))
            else:
                raise Unknown(key)
            if not ok:
                return False
            left = right
        return True
    if isinstance(e, ast.Subscript):
        base = ev(e.value, env)
        if isinstance(e.slice, ast.Slice):
            lo = ev(e.slice.lower, env) if e.slice.lower is not None else None
            hi = ev(e.slice.upper, env) if e.slice.upper is not None else None
            return base[lo:hi]
        return base[ev(e.slice, env)]
    if isinstance(e, ast.IfExp):
        return ev(e.body, env) if ev(e.test, env) else ev(e.orelse, env)
    if isinstance(e, (ast.ListComp, ast.SetComp, ast.GeneratorExp)) and len(e.generators) == 1 \
            and isinstance(e.generators[0].target, ast.Tuple) \
            and all(isinstance(x, ast.Name) for x in e.generators[0].target.elts):
        gen = e.generators[0]
        out = []
        for item in ev(gen.iter, env):
            env2 = dict(env)
            for x, v_ in zip(gen.target.elts, item):
                env2[x.id] = v_
            if all(ev(c, env2) for c in gen.ifs):
                out.append(ev(e.elt, env2))
        return frozenset(out) if isinstance(e, ast.SetComp) else tuple(out)
    if isinstance(e, (ast.ListComp, ast.SetComp, ast.GeneratorExp)) and len(e.generators) == 1 \
            and isinstance(e.generators[0].target, ast.Name):
        gen = e.generators[0]
        out = []
        for item in ev(gen.iter, env):
            env2 = dict(env)
            env2[gen.target.id] = item
            if all(ev(c, env2) for c in gen.ifs):
                out.append(ev(e.elt, env2))
        return frozenset(out) if isinstance(e, ast.SetComp) else tuple(out)
    if isinstance(e, ast.Name):
        fn = env.get("__fn__")
        if fn is not None:
            d = _local_def(fn, e)
            busy = env.setdefault("__busy__", set())
            if d is not None and e.id not in busy:
                busy.add(e.id)
                try:
                    return ev(d.value, env)
                except Unknown:
                    if env.get("__sym__"):
                        return Sym(e.id)
                    raise
                finally:
                    busy.discard(e.id)
        if env.get("__sym__"):
            return Sym(e.id)
        raise Unknown(key)
    if isinstance(e, ast.Attribute):
        try:
            base = ev(e.value, env)
        except Unknown:
            if env.get("__sym__"):
                return Sym(key)
            raise
        if isinstance(base, Rec) and e.attr in base.fields:
            return base.fields[e.attr]
        if getattr(base, "_tlsverif_sample", False) and not e.attr.startswith("_") \
                and not callable(getattr(base, e.attr, None)) and hasattr(base, e.attr):
            return getattr(base, e.attr)
        if isinstance(base, Sym):
            return Sym("%s.%s" % (base, e.attr))
        raise Unknown(key)
    if isinstance(e, ast.Call) and isinstance(e.func, ast.Attribute) and not e.keywords and not e.args \
            and e.func.attr in ("items", "keys", "values"):
        base = ev(e.func.value, env)
        if isinstance(base, dict):
            return tuple(getattr(base, e.func.attr)())
    if isinstance(e, ast.Call) and isinstance(e.func, ast.Attribute) and not e.keywords \
            and e.func.attr in ("intersection", "union", "difference", "issubset"):
        base = ev(e.func.value, env)
        if isinstance(base, (frozenset, set, tuple)):
            return getattr(frozenset(base), e.func.attr)(*[frozenset(ev(a, env)) for a in e.args])
    if isinstance(e, ast.Call) and not e.keywords and env.get("__calls__"):
        hooks = env["__calls__"]
        if isinstance(e.func, ast.Name) and e.func.id in hooks:
            return hooks[e.func.id](*[ev(a, env) for a in e.args])
        if isinstance(e.func, ast.Attribute) and e.func.attr in hooks:
            try:
                recv = ev(e.func.value, env)
            except Unknown:
                recv = None
            return hooks[e.func.attr](recv, *[ev(a, env) for a in e.args])
    if isinstance(e, ast.Call) and not e.keywords and isinstance(e.func, ast.Call) and env.get("__stmts__") \
            and env.get("__calls__") and isinstance(e.func.func, ast.Name) and e.func.func.id in env["__calls__"]:
        # `getattr(module, name)(...)`: the hook hands back the checker's own stand-in
        f_ = ev(e.func, env)
        if callable(f_):
            return f_(*[ev(a, env) for a in e.args])
    if isinstance(e, ast.Call) and not e.keywords and isinstance(e.func, ast.Attribute):
        # a method of a record that the row binds (`state.getSeqNumBytes()` -> field "getSeqNumBytes()"),
        # or of one of the checker's own sample objects (MAC accumulators)
        try:
            base_ = ev(e.func.value, env)
        except Unknown:
            base_ = None
        if isinstance(base_, Rec) and (e.func.attr + "()") in base_.fields and not e.args:
            return base_.fields[e.func.attr + "()"]
        if getattr(base_, "_tlsverif_sample", False) and not e.func.attr.startswith("_"):
            return getattr(base_, e.func.attr)(*[ev(a, env) for a in e.args])
    if isinstance(e, ast.Call) and not e.keywords and isinstance(e.func, ast.Name) \
            and e.func.id in ("bytearray", "bytes") and len(e.args) <= 1 and env.get("__bytes__"):
        if not e.args:
            return b""
        v_ = ev(e.args[0], env)
        if isinstance(v_, int) and not isinstance(v_, bool):
            return bytes(v_)
        if isinstance(v_, (bytes, bytearray)):
            return bytes(v_)
        return bytes(bytearray(list(v_)))
    if isinstance(e, ast.Call) and not e.keywords and isinstance(e.func, ast.Name) and env.get("__stmts__") \
            and e.func.id in ("iter", "enumerate") and len(e.args) == 1:
        # whole-function interpretation: iterators are the interpreter's own stateful iterators
        v_ = ev(e.args[0], env)
        return iter(v_) if e.func.id == "iter" else enumerate(v_)
    if isinstance(e, ast.Call) and not e.keywords and isinstance(e.func, ast.Name) and env.get("__stmts__") \
            and e.func.id == "next" and len(e.args) == 1:
        it_ = ev(e.args[0], env)
        if hasattr(it_, "__next__"):
            try:
                return next(it_)
            except StopIteration:
                raise Unknown("next() on an exhausted iterator")
    if isinstance(e, ast.Call) and not e.keywords and isinstance(e.func, ast.Name) and e.func.id == "zip" \
            and env.get("__bytes__"):
        args_ = [ev(a, env) for a in e.args]
        if any(hasattr(a, "__next__") for a in args_):
            return list(zip(*args_))
        return tuple(zip(*args_))
    if isinstance(e, ast.Call) and isinstance(e.func, ast.Name) and e.func.id == "isinstance" and len(e.args) == 2 \
            and not e.keywords and env.get("__exc__") is not None:
        inst = ev(e.args[0], env)
        if isinstance(inst, Inst):
            senv = dict(env)
            senv["__sym__"] = True
            ty = ev(e.args[1], senv)
            tys = ty if isinstance(ty, tuple) else (ty,)
            if all(isinstance(t, str) for t in tys):
                return any(env["__exc__"].is_sub(inst.cls_name, str(t).split(".")[-1]) for t in tys)
        raise Unknown(key)
    if isinstance(e, ast.Call) and isinstance(e.func, ast.Name) and not e.keywords:
        args = [ev(a, env) for a in e.args]
        fn = {"min": min, "max": max, "len": len, "bool": bool, "int": int, "abs": abs,
              "any": any, "all": all, "tuple": tuple, "set": frozenset, "list": tuple,
              "frozenset": frozenset, "sorted": lambda x: tuple(sorted(x)),
              "range": lambda *a: tuple(range(*a)) if len(range(*a)) <= 70000 else None}.get(e.func.id)
        if fn:
            return fn(*args)
        if e.func.id == "next" and len(args) == 2:
            return next(iter(args[0]), args[1])
        if e.func.id == "next" and len(args) == 1 and isinstance(args[0], (tuple, list)):
            if not args[0]:
                raise Unknown("next() of an empty sequence")
            return args[0][0]
    if isinstance(e, ast.Call) and not e.keywords and env.get("__index__") is not None:
        # a call of a small pure helper of the library is evaluated from the helper's own source
        func = e.func
        if isinstance(func, ast.Name) and env.get("__fn__") is not None:
            d = _local_def(env["__fn__"], func)     # `alias = Cls.helper` ... `alias(..)`
            if d is not None and isinstance(d.value, (ast.Attribute, ast.Name)):
                func = d.value
        target = _helper(env["__index__"], func, env.get("__selfcls__"))
        if target is not None:
            return _call(target, [ev(a, env) for a in e.args], env)
    raise Unknown(key)


_HELPERS = {}


def _helper(index, func, selfcls=None):
    k = (id(index), _norm(func), id(selfcls))
    if k not in _HELPERS:
        _HELPERS[k] = _helper_uncached(index, func, selfcls)
    return _HELPERS[k]


def _helper_uncached(index, func, selfcls=None):
    if isinstance(func, ast.Name):
        c = [f for f in index.all_functions() if f.cls is None and f.name == func.id]
    elif isinstance(func, ast.Attribute) and isinstance(func.value, ast.Name) and func.value.id in ("self", "cls"):
        # a static method reached through the instance (unique name in the package)
        c = [f for f in index.all_functions() if f.cls is not None and f.name == func.attr
             and any(isinstance(d, ast.Name) and d.id == "staticmethod" for d in f.node.decorator_list)]
        if not c and selfcls is not None and func.attr in selfcls.methods:
            c = [selfcls.methods[func.attr]]
    elif isinstance(func, ast.Attribute) and isinstance(func.value, ast.Name):
        c = [f for f in index.all_functions() if f.cls is not None and f.cls.name == func.value.id
             and f.name == func.attr and any(isinstance(d, ast.Name) and d.id == "staticmethod"
                                             for d in f.node.decorator_list)]
    else:
        return None
    return c[0] if len(c) == 1 else None


def _call(fi, args, env, depth=0):
    """evaluate a helper made of docstring / assert / if / assignment / return statements."""
    a = fi.node.args
    if a.vararg or a.kwarg or a.kwonlyargs or len(args) > len(a.args) or depth > 3:
        raise Unknown("call of " + fi.qname)
    local = {"__index__": env.get("__index__"), "__exc__": env.get("__exc__")}
    if env.get("__sym__"):
        local["__sym__"] = True
    for k_ in ("__calls__", "__bytes__", "__selfcls__"):
        if env.get(k_) is not None:
            local[k_] = env[k_]
    if env.get("__selfcls__") is not None:
        # a method of the same object sees the same attributes
        for k_, v_ in env.items():
            if isinstance(k_, str) and k_.startswith("self."):
                local[k_] = v_
    for k_, v_ in env.items():
        if isinstance(k_, str) and k_.startswith("__const__"):
            local[k_[9:]] = v_       # module-level constants the caller resolved
            local[k_] = v_
    names = [x.arg for x in a.args]
    if names and names[0] == "self" and fi.cls is not None and env.get("__selfcls__") is not None and not any(
            isinstance(d, ast.Name) and d.id == "staticmethod" for d in fi.node.decorator_list):
        names = names[1:]       # a method called on the object the caller is evaluating
    if len(args) > len(names):
        raise Unknown("call of " + fi.qname)
    defaults = [None] * (len(names) - len(a.defaults)) + list(a.defaults) if len(a.defaults) <= len(names) \
        else list(a.defaults)[-len(names):]
    for i, nm in enumerate(names):
        if i < len(args):
            local[nm] = args[i]
        elif defaults[i] is not None:
            local[nm] = ev(defaults[i], {})
        else:
            raise Unknown("call of " + fi.qname)

    class _Ret(Exception):
        pass

    def run(stmts):
        for st_ in stmts:
            if isinstance(st_, ast.Expr) and isinstance(st_.value, ast.Constant):
                continue
            if isinstance(st_, ast.Assert):
                continue
            if isinstance(st_, ast.Return):
                r = _Ret()
                r.value = None if st_.value is None else ev(st_.value, local)
                raise r
            if isinstance(st_, ast.If):
                run(st_.body if ev(st_.test, local) else st_.orelse)
                continue
            if isinstance(st_, ast.Assign) and len(st_.targets) == 1 and isinstance(st_.targets[0], ast.Name):
                local[st_.targets[0].id] = ev(st_.value, local)
                continue
            if isinstance(st_, ast.For) and not st_.orelse and not any(
                    isinstance(x, (ast.Break, ast.Continue)) for b_ in st_.body for x in ast.walk(b_)):
                items = list(ev(st_.iter, local))
                if len(items) > 64:
                    raise Unknown("long loop in helper " + fi.qname)
                tg = st_.target
                for it in items:
                    if isinstance(tg, ast.Name):
                        local[tg.id] = it
                    elif isinstance(tg, ast.Tuple) and all(isinstance(x, ast.Name) for x in tg.elts) \
                            and len(tg.elts) == len(it):
                        for x, v_ in zip(tg.elts, it):
                            local[x.id] = v_
                    else:
                        raise Unknown("loop target in helper " + fi.qname)
                    run(st_.body)
                continue
            raise Unknown("statement `%s` in helper %s" % (norm(st_)[:40], fi.qname))
    try:
        run(fi.node.body)
    except _Ret as r:
        return r.value
    return None


class _Break(Exception):
    pass


class _Continue(Exception):
    pass


class Returned(Exception):
    """a `return` met by exec_block (value in .value)"""
    def __init__(self, value):
        Exception.__init__(self)
        self.value = value


class Raised(Exception):
    """a `raise` met by exec_block (exception expression text in .what)"""
    def __init__(self, what):
        Exception.__init__(self)
        self.what = what


def exec_block(stmts, env, stop=None):
    """interpret a block of assignments / if / for (with break, continue) over `env` (updated in
    place); `stop(stmt)` ends the interpretation before that statement (returns True then).  Anything
    else in the block raises Unknown.  Nothing of the library is run."""
    for st in stmts:
        if stop is not None and stop(st):
            return True
        if isinstance(st, ast.Pass) or (isinstance(st, ast.Expr) and isinstance(st.value, ast.Constant)):
            continue
        if isinstance(st, ast.Assign) and len(st.targets) == 1:
            tg = st.targets[0]
            if env.get("__stmts__"):
                if env.get("__selfstate__") and isinstance(tg, ast.Attribute) and isinstance(tg.value, ast.Name) \
                        and tg.value.id == "self":
                    try:
                        env["self." + tg.attr] = ev(st.value, env)     # later reads find it by its text
                    except Unknown:
                        env.pop("self." + tg.attr, None)
                    continue
                if isinstance(tg, ast.Subscript) and isinstance(tg.value, ast.Name) \
                        and isinstance(env.get(tg.value.id), (bytes, bytearray)) and not isinstance(tg.slice, ast.Slice):
                    b_ = bytearray(env[tg.value.id])      # a followed local byte string: the store is followed too
                    b_[ev(tg.slice, env)] = ev(st.value, env)
                    env[tg.value.id] = bytes(b_)
                    continue
                if isinstance(tg, (ast.Attribute, ast.Subscript)):
                    continue        # state of the object itself is not followed
                try:
                    val = ev(st.value, env)
                except Unknown:
                    for x in ast.walk(tg):
                        if isinstance(x, ast.Name):
                            env.pop(x.id, None)     # unknown from here on
                    continue
            else:
                val = ev(st.value, env)
            if isinstance(tg, ast.Name):
                env[tg.id] = val
            elif isinstance(tg, ast.Tuple) and all(isinstance(x, ast.Name) for x in tg.elts) \
                    and isinstance(val, (tuple, list)) and len(val) == len(tg.elts):
                for x, v_ in zip(tg.elts, val):
                    env[x.id] = v_
            else:
                raise Unknown("assignment target " + _norm(tg))
            continue
        if isinstance(st, ast.If):
            if exec_block(st.body if ev(st.test, env) else st.orelse, env, stop):
                return True
            continue
        if isinstance(st, ast.For):
            items = list(ev(st.iter, env))
            if len(items) > (4096 if env.get("__stmts__") else 64):
                raise Unknown("long loop")
            broke = False
            for it in items:
                tg = st.target
                if isinstance(tg, ast.Name):
                    env[tg.id] = it
                elif isinstance(tg, ast.Tuple) and all(isinstance(x, ast.Name) for x in tg.elts) \
                        and isinstance(it, (tuple, list)) and len(it) == len(tg.elts):
                    for x, v_ in zip(tg.elts, it):
                        env[x.id] = v_
                else:
                    raise Unknown("loop target")
                try:
                    if exec_block(st.body, env, stop):
                        return True
                except _Break:
                    broke = True
                    break
                except _Continue:
                    continue
            if not broke and st.orelse:
                if exec_block(st.orelse, env, stop):
                    return True
            continue
        if isinstance(st, ast.Break):
            raise _Break()
        if isinstance(st, ast.Continue):
            raise _Continue()
        if env.get("__stmts__"):
            # whole-function interpretation (sample values): a few more statement kinds
            if isinstance(st, ast.AugAssign) and isinstance(st.target, ast.Subscript) \
                    and isinstance(st.target.value, ast.Name) and not isinstance(st.target.slice, ast.Slice) \
                    and isinstance(env.get(st.target.value.id), (bytes, bytearray)) \
                    and type(st.op) in (ast.BitAnd, ast.BitOr, ast.BitXor):
                b_ = bytearray(env[st.target.value.id])
                i_, r = ev(st.target.slice, env), ev(st.value, env)
                b_[i_] = {ast.BitAnd: b_[i_] & r, ast.BitOr: b_[i_] | r, ast.BitXor: b_[i_] ^ r}[type(st.op)]
                env[st.target.value.id] = bytes(b_)
                continue
            if isinstance(st, ast.AugAssign) and isinstance(st.target, ast.Name):
                if st.target.id not in env:
                    raise Unknown(st.target.id)
                l, r = env[st.target.id], ev(st.value, env)
                ops = {ast.Add: lambda: l + r, ast.Sub: lambda: l - r, ast.Mult: lambda: l * r,
                       ast.Mod: lambda: l % r, ast.FloorDiv: lambda: l // r, ast.BitOr: lambda: l | r,
                       ast.BitAnd: lambda: l & r, ast.BitXor: lambda: l ^ r, ast.LShift: lambda: l << r,
                       ast.RShift: lambda: l >> r}
                if type(st.op) not in ops:
                    raise Unknown("augmented assignment")
                env[st.target.id] = ops[type(st.op)]()
                continue
            if isinstance(st, ast.While) and not st.orelse:
                turns = 0
                while ev(st.test, env):
                    turns += 1
                    if turns > 4096:
                        raise Unknown("long loop")
                    try:
                        if exec_block(st.body, env, stop):
                            return True
                    except _Break:
                        break
                    except _Continue:
                        continue
                continue
            if isinstance(st, ast.Try) and not st.finalbody:
                try:
                    if exec_block(st.body, env, stop):
                        return True
                except Raised as r_:
                    handled = False
                    for h in st.handlers:
                        names_ = [] if h.type is None else [_norm(x) for x in (h.type.elts if isinstance(h.type, ast.Tuple) else [h.type])]
                        cls_ = r_.what.split("(")[0]
                        exc_ = env.get("__exc__")
                        if h.type is None or any(cls_ == nm_ or nm_ in ("Exception", "BaseException") or (
                                exc_ is not None and exc_.is_sub(cls_, nm_)) for nm_ in names_):
                            if exec_block(h.body, env, stop):
                                return True
                            handled = True
                            break
                    if not handled:
                        raise
                else:
                    if st.orelse and exec_block(st.orelse, env, stop):
                        return True
                continue
            if isinstance(st, ast.Return):
                raise Returned(None if st.value is None else ev(st.value, env))
            if isinstance(st, ast.Raise):
                raise Raised(_norm(st.exc) if st.exc is not None else "")
            if isinstance(st, ast.Assert):
                continue
            if isinstance(st, ast.Expr):
                try:
                    ev(st.value, env)
                except Unknown:
                    pass
                continue
            if isinstance(st, ast.Assign) and len(st.targets) == 1 and isinstance(st.targets[0], (ast.Attribute, ast.Subscript)):
                continue        # state of the object itself is not followed
        raise Unknown("statement " + type(st).__name__)
    return False


def mismatches(expr, domain, spec, limit=3):
    """domain: {operand text: [values]}; spec(**{operand text: value}) -> expected truth.
    returns list of (assignment, got, expected); raises Unknown if not evaluable."""
    keys = sorted(domain)
    bad = []
    for combo in itertools.product(*[domain[k] for k in keys]):
        env = dict(zip(keys, combo))
        got = bool(ev(expr, env))
        exp = bool(spec(env))
        if got != exp:
            bad.append((env, got, exp))
            if len(bad) >= limit:
                break
    return bad


def check_cond(ctx, rule, fi, node_ast, expr, domain, spec, what, meaning, closed=False):
    """records ok / finding: `expr` must be true exactly when `spec` says so.
    closed=True: the specification names every quantity the guard may depend on; an operand
    outside the model is then itself the violation (the guard depends on something else)."""
    try:
        bad = mismatches(expr, domain, spec)
    except Unknown as u:
        if closed:
            ctx.fail(rule, fi.qname, what,
                     "%s: the condition `%s` depends on `%s`, which is not one of the quantities this "
                     "guard is specified over (%s)" % (meaning, norm(expr)[:100], u, ", ".join(sorted(domain))),
                     fi.loc(node_ast))
            return False
        raise AnalysisError("%s: condition `%s` in %s uses an operand the rule does not model (%s); "
                            "re-confirm the rule" % (rule, norm(expr)[:80], fi.qname, u))
    if bad:
        env, got, exp = bad[0]
        ctx.fail(rule, fi.qname, what,
                 "%s: the condition `%s` is %s for %s but must be %s" % (
                     meaning, norm(expr)[:100], got, ", ".join("%s=%r" % kv for kv in sorted(env.items())), exp),
                 fi.loc(node_ast))
        return False
    ctx.ok(rule, "%s: %s" % (fi.short, what), fi.loc(node_ast), sample={"condition": norm(expr)[:120]})
    return True


def outcomes(g, fn_node, env, abort_only, memo=None, watch=None, reached=None, start=None, visit=None,
             track_all=False):
    """Which ways can one function end for one assignment of its inputs?  Walks the CFG from the entry,
    deciding every test whose operands the assignment binds (through `ev`, locals resolved to their
    reaching straight-line definition; a local assigned an evaluable expression on the walked path is
    tracked, the operands the caller bound stay pinned).  A test that cannot be decided is an unrelated
    check: if one of its edges only aborts (`abort_only(test)` names that label) the other edge is
    taken - the unrelated checks are assumed to pass - otherwise both edges are explored and the paths
    are marked undecided.  Returns {(ending, undecided)} with ending in "raise"/"pass", and the
    undecided tests."""
    pinned = set(env)
    # locals worth tracking: those read by some test / loop head, or by the assignment of such a local
    rk = ("__relevant__", id(fn_node))
    if memo is not None and rk in memo:
        relevant = memo[rk]
    else:
        relevant = set()
        for n in g.nodes:
            if n.kind in ("test", "loop") and n.expr is not None:
                relevant |= {x.id for x in ast.walk(n.expr) if isinstance(x, ast.Name)}
        grew = True
        while grew:
            grew = False
            for n in g.nodes:
                if n.kind == "stmt" and isinstance(n.ast, ast.Assign) and len(n.ast.targets) == 1 \
                        and isinstance(n.ast.targets[0], ast.Name) and n.ast.targets[0].id in relevant:
                    more = {x.id for x in ast.walk(n.ast.value) if isinstance(x, ast.Name)} - relevant
                    if more:
                        relevant |= more
                        grew = True
        if memo is not None:
            memo[rk] = relevant
    out, both = set(), []
    seen = set()
    st = [(x, (), False) for x in (start or [g.entry])]
    while st:
        n, loc, taint = st.pop()
        key = (n.id, loc, taint)
        if key in seen or len(seen) > 20000:
            continue
        seen.add(key)
        if visit is not None and n.kind in ("stmt", "return", "raise") and n.ast is not None:
            ve = dict(env)
            ve.update(dict(loc))
            ve["__fn__"] = fn_node
            visit(n, ve, taint)
        if watch and n.kind == "return" and n.ast is not None and reached is not None:
            # a statement named by the row may be the `return <call>` itself
            if isinstance(watch, dict):
                for lab_, pred_ in watch.items():
                    if pred_(n.ast):
                        reached.add((lab_, taint))
            elif _norm(n.ast) in watch:
                reached.add((_norm(n.ast), taint))
        if n is g.exit or n.kind == "return":
            out.add(("pass", taint))
            continue
        if n.kind == "raise":
            caught = [m for m, l in n.succ if m.kind == "handler"]
            if caught:          # raised inside a try block that handles it: control continues there
                st += [(m, loc, taint) for m in caught]
                continue
        if n.kind in ("raise", "noreturn") or n is getattr(g, "raise_exit", None):
            out.add(("raise", taint))
            continue
        if watch and n.kind == "stmt" and n.ast is not None and reached is not None:
            if isinstance(watch, dict):        # label -> predicate on the statement
                for lab_, pred_ in watch.items():
                    if pred_(n.ast):
                        reached.add((lab_, taint))
            else:
                txt = _norm(n.ast)
                if txt in watch:
                    reached.add((txt, taint))
        if n.kind == "stmt" and isinstance(n.ast, ast.Expr) and isinstance(n.ast.value, ast.Call) \
                and env.get("__index__") is not None and env.get("__an__") is not None \
                and env.get("__depth__", 0) < 3:
            # a call statement of a helper that only checks: walk the helper for the bound arguments;
            # if it cannot complete, neither can this path
            ce = dict(env)
            ce.update(dict(loc))
            ce["__fn__"] = fn_node
            verdict = _callee_aborts(n.ast.value, ce)
            if verdict is True:
                out.add(("raise", taint))
                continue
        if n.kind not in ("test", "loop", "stmt"):
            st += [(m, loc, taint) for m, l in n.succ if not l.startswith("exc")]
            continue
        if n.kind == "stmt" and not (isinstance(n.ast, ast.Assign) and len(n.ast.targets) == 1
                                     and isinstance(n.ast.targets[0], ast.Name)
                                     and (track_all or n.ast.targets[0].id in relevant)):
            st += [(m, loc, taint) for m, l in n.succ if not l.startswith("exc")]
            continue
        # whether a test can be decided depends on WHICH operands are bound, not on their values:
        # remembered across the assignments of one row
        mk = (n.id, tuple(k for k, _ in loc)) if memo is not None else None
        e2 = None
        if mk is None or not memo.get(mk):
            e2 = dict(env)
            e2.update(dict(loc))
            e2["__fn__"] = fn_node
        if n.kind == "test" and n.expr is not None:
            try:
                if e2 is None:
                    raise Unknown("memo")
                v = bool(ev(n.expr, e2))
                st += [(m, loc, taint) for m, l in n.succ if l == ("T" if v else "F")]
                continue
            except (Unknown, TypeError, AttributeError, KeyError, IndexError) as ex:
                if mk is not None and isinstance(ex, Unknown):
                    memo[mk] = True
                dl = abort_only(n)
                if len(dl) == 1:
                    st += [(m, loc, taint) for m, l in n.succ if l in ("T", "F") and l != dl[0]]
                else:
                    both.append(n)
                    st += [(m, loc, True) for m, l in n.succ if l in ("T", "F")]
                continue
        if e2 is None:
            e2 = dict(env)
            e2.update(dict(loc))
            e2["__fn__"] = fn_node
        loop_vars = None
        if n.kind == "loop" and n.expr is not None and isinstance(n.ast, ast.For):
            tg = n.ast.target
            if isinstance(tg, ast.Name):
                loop_vars = [tg.id]
            elif isinstance(tg, ast.Tuple) and all(isinstance(x, ast.Name) for x in tg.elts):
                loop_vars = [x.id for x in tg.elts]
        if loop_vars and not (set(loop_vars) & pinned):
            # a for loop over a sequence the assignment binds is walked element by element
            try:
                items = tuple(ev(n.expr, e2))
            except (Unknown, TypeError, AttributeError, KeyError, IndexError):
                items = None
            if items is not None and len(items) <= 8:
                d = dict(loc)
                ik = "__iter__%d" % n.id
                i = d.get(ik, 0)
                try:
                    if i < len(items):
                        hash(items[i])
                        d[ik] = i + 1
                        if len(loop_vars) == 1:
                            d[loop_vars[0]] = items[i]
                        else:
                            if len(items[i]) != len(loop_vars):
                                raise TypeError("unpack")
                            for nm_, v_ in zip(loop_vars, items[i]):
                                d[nm_] = v_
                        lab = "T"
                    else:
                        d.pop(ik, None)
                        lab = "F"
                    loc2 = tuple(sorted(d.items(), key=lambda kv: kv[0]))
                    st += [(m, loc2, taint) for m, l in n.succ if l == lab]
                    continue
                except TypeError:
                    pass
        if n.kind == "stmt" and isinstance(n.ast, ast.Assign) and len(n.ast.targets) == 1 \
                and isinstance(n.ast.targets[0], ast.Name) and n.ast.targets[0].id not in pinned:
            nm = n.ast.targets[0].id
            d = dict(loc)
            try:
                val = ev(n.ast.value, e2)
                hash(val)
                d[nm] = val
            except (Unknown, TypeError, AttributeError, KeyError, IndexError):
                d.pop(nm, None)
            loc = tuple(sorted(d.items(), key=lambda kv: kv[0]))
        nxt = [(m, l) for m, l in n.succ if not l.startswith("exc")]
        st += [(m, loc, taint or (n.kind == "loop" and len(nxt) > 1)) for m, l in nxt]
    return out, both


def _resolve_callee(call, env):
    """FuncInfo of a call through a (possibly locally aliased) name: `f(..)`, `Cls.f(..)`,
    `alias = Cls.f; alias(..)`."""
    index = env["__index__"]
    func = call.func
    if isinstance(func, ast.Name) and env.get("__fn__") is not None:
        d = _local_def(env["__fn__"], func)
        if d is not None and isinstance(d.value, (ast.Attribute, ast.Name)):
            func = d.value
    return _helper(index, func)


def _callee_aborts(call, env):
    """True if the helper called with these (evaluable) arguments ends in an abort on every path."""
    if call.keywords:
        return None
    fi = _resolve_callee(call, env)
    if fi is None or fi.is_generator:
        return None
    try:
        args = [ev(a, env) for a in call.args]
    except (Unknown, TypeError, AttributeError, KeyError, IndexError):
        return None
    names = [x.arg for x in fi.node.args.args]
    if len(args) != len(names):
        return None
    an = env["__an__"]
    g = an.cfg(fi)
    sub = {k: v for k, v in env.items() if k.startswith("__") and k not in ("__fn__", "__busy__")}
    # module-level operands stay visible by their text; the callee's parameters are bound by name
    for k, v in env.items():
        if not k.startswith("__") and "." not in k and k[:1].isupper():
            sub[k] = v
    sub.update(dict(zip(names, args)))
    sub["__depth__"] = env.get("__depth__", 0) + 1
    cache = {}

    def ao(t):
        if t.id not in cache:
            seen = g.reach([m for m, l in t.succ if l == "T"])
            seen_f = g.reach([m for m, l in t.succ if l == "F"])
            labs = []
            if g.exit.id not in seen:
                labs.append("T")
            if g.exit.id not in seen_f:
                labs.append("F")
            cache[t.id] = labs
        return cache[t.id]
    out, both = outcomes(g, fi.node, sub, ao)
    ends = {x for x, t in out}
    if ends == {"raise"}:
        return True
    if "raise" not in ends:
        return False
    return None
