"""tlsverif - repository-specific static analysis for tlslite-ng (stdlib ast only)."""
