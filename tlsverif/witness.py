"""Thorough tier: both-ways test of the checker.

Every property-breaking change kept under seeded/ (each one confirmed to pass the project's test
suite and to break the property at run time, see its meta.json) that is recorded in
seeded/WITNESSES.json as detected by a property's check is re-applied to a scratch copy of the
CURRENT tree, and the quick rules are run on that copy: the check must fire (exit 1).  A rule that
silently stopped matching anything therefore cannot keep passing.  Nothing of the library is run;
the scratch copy is deleted afterwards.
"""
import json
import os
import shutil
import subprocess
import sys
import tempfile
from concurrent.futures import ThreadPoolExecutor

VERIF = os.path.dirname(os.path.dirname(os.path.abspath(__file__)))


def _one(prop, root, seed, base="seeded"):
    sd = os.path.join(VERIF, base, seed)
    title = ""
    try:
        with open(os.path.join(sd, "meta.json")) as f:
            m = json.load(f)
        title = m.get("title") or m.get("summary") or ""
    except (OSError, ValueError):
        pass
    out = {"seed": seed, "title": title, "applies": False, "fires": False, "rules": []}
    tmp = tempfile.mkdtemp(prefix="tlsverif-w-")
    try:
        shutil.copytree(os.path.join(root, "tlslite"), os.path.join(tmp, "tlslite"))
        p = subprocess.run(["patch", "-p1", "-s", "-f", "--no-backup-if-mismatch", "-i", os.path.join(sd, "patch.diff")],
                           cwd=tmp, stdout=subprocess.PIPE, stderr=subprocess.STDOUT, text=True)
        if p.returncode != 0:
            out["note"] = "patch does not apply to the current tree"
            return out
        out["applies"] = True
        env = dict(os.environ, TLSVERIF_REPO=tmp, TLSVERIF_EVIDENCE_DIR=tmp, TLSVERIF_REPLAY_DIR=tmp,
                   TLSVERIF_NO_WITNESS="1", PYTHONDONTWRITEBYTECODE="1")
        r = subprocess.run([sys.executable, os.path.join(VERIF, "tlsverif", "main.py"), prop, "quick"],
                           env=env, stdout=subprocess.PIPE, stderr=subprocess.STDOUT, text=True)
        out["exit"] = r.returncode
        out["fires"] = r.returncode == 1 and ("VIOLATION property=%s" % prop) in r.stdout
        rules = set()
        for line in r.stdout.splitlines():
            parts = line.split(" -- ")[0].split()
            if line.startswith("  ") and len(parts) >= 3 and parts[-1].startswith(prop + "."):
                rules.add(parts[-1])
        out["rules"] = sorted(rules)
        if r.returncode == 2:
            out["note"] = "analysis error on the changed copy (fails closed, not counted as firing)"
        return out
    finally:
        shutil.rmtree(tmp, ignore_errors=True)


def replay_witnesses(prop, root):
    path = os.path.join(VERIF, "seeded", "WITNESSES.json")
    if not os.path.exists(path):
        return []
    with open(path) as f:
        seeds = json.load(f).get(prop, [])
    if not seeds:
        return []
    with ThreadPoolExecutor(min(16, len(seeds))) as ex:
        return list(ex.map(lambda s: _one(prop, root, s), seeds))


def replay_controls(prop, root):
    """negative controls: behaviour-preserving refactorings (benign/) re-applied to a scratch copy of
    the current tree; the check must stay silent (no violation, no analysis error) on each."""
    path = os.path.join(VERIF, "benign", "CONTROLS.json")
    if not os.path.exists(path):
        return []
    with open(path) as f:
        ids = json.load(f).get(prop, [])
    if not ids:
        return []
    with ThreadPoolExecutor(min(16, len(ids))) as ex:
        return list(ex.map(lambda s: _one(prop, root, s, "benign"), ids))
