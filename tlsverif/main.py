"""command line: check CNN quick|thorough ; check replay <file> ; check all <tier>"""
import importlib
import json
import re
import os
import sys

sys.path.insert(0, os.path.dirname(os.path.dirname(os.path.abspath(__file__))))

from tlsverif.report import run_property  # noqa: E402


def run(prop, tier):
    try:
        mod = importlib.import_module("tlsverif.rules." + prop.lower())
    except Exception as e:       # a broken rules module is an analysis error, never a verdict
        print("ANALYSIS-ERROR property=%s rules module cannot be loaded: %s: %s" % (prop, type(e).__name__, e))
        return 2
    return run_property(prop, tier, mod.RULES, mod.EXPLANATION, mod.NOT_DECIDED, mod.TECHNIQUE)


def main(argv):
    if len(argv) >= 2 and argv[0] == "replay":
        with open(argv[1]) as f:
            rp = json.load(f)
        print("replaying %s (%d recorded findings)" % (argv[1], len(rp["findings"])))
        for x in rp["findings"]:
            print("  recorded: %s -- %s" % (x["key"], x["message"]))
        return run(rp["property"], rp.get("tier", "quick"))
    if len(argv) < 1:
        print(__doc__)
        return 2
    tier = argv[1] if len(argv) > 1 else os.environ.get("VERIF_TIER", "quick")
    if tier not in ("quick", "thorough"):
        print("unknown tier", tier)
        return 2
    if argv[0] == "all":
        worst = 0
        here = os.path.join(os.path.dirname(os.path.abspath(__file__)), "rules")
        for fn in sorted(os.listdir(here)):
            if re.match(r"c\d+\.py$", fn) and (not os.environ.get("TLSVERIF_ONLY")
                                                or fn[:-3].upper() in os.environ["TLSVERIF_ONLY"].split(",")):
                worst = max(worst, run(fn[:-3].upper(), tier))
        return worst
    return run(argv[0].upper(), tier)


if __name__ == "__main__":
    sys.exit(main(sys.argv[1:]))
