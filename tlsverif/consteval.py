"""Constant evaluation of class bodies made of literals (constants.py, registries)."""
import ast

from .index import AnalysisError, norm


class ClassEval(object):
    """evaluate a class body: literal assignments, list +, .append/.extend/.remove/
    .insert, dict subscripts, simple for loops.  Refuses anything else."""

    def __init__(self, cls_node, outer_env=None, what="class"):
        self.env = dict(outer_env or {})
        self.own = {}
        self.what = what
        self.order = []     # assignment order of names
        self.lineno = {}
        self._run(cls_node.body)

    def ev(self, e):
        if isinstance(e, ast.Constant):
            return e.value
        if isinstance(e, ast.Name):
            if e.id in self.own:
                return self.own[e.id]
            if e.id in self.env:
                return self.env[e.id]
            raise AnalysisError("%s: cannot evaluate name %s" % (self.what, e.id))
        if isinstance(e, ast.List):
            return [self.ev(x) for x in e.elts]
        if isinstance(e, ast.Tuple):
            return tuple(self.ev(x) for x in e.elts)
        if isinstance(e, ast.Set):
            return set(self.ev(x) for x in e.elts)
        if isinstance(e, ast.Dict):
            return {self.ev(k): self.ev(v) for k, v in zip(e.keys, e.values)}
        if isinstance(e, ast.BinOp) and isinstance(e.op, ast.Add):
            return self.ev(e.left) + self.ev(e.right)
        if isinstance(e, ast.BinOp) and isinstance(e.op, (ast.Mult, ast.Sub, ast.LShift, ast.BitOr)):
            l, r = self.ev(e.left), self.ev(e.right)
            return {ast.Mult: lambda: l * r, ast.Sub: lambda: l - r,
                    ast.LShift: lambda: l << r, ast.BitOr: lambda: l | r}[type(e.op)]()
        if isinstance(e, ast.UnaryOp) and isinstance(e.op, ast.USub):
            return -self.ev(e.operand)
        if isinstance(e, ast.Subscript):
            v = self.ev(e.value)
            if isinstance(e.slice, ast.Slice):
                lo = self.ev(e.slice.lower) if e.slice.lower else None
                hi = self.ev(e.slice.upper) if e.slice.upper else None
                return v[lo:hi]
            return v[self.ev(e.slice)]
        if isinstance(e, ast.Call) and isinstance(e.func, ast.Name) and \
                e.func.id in ("list", "tuple", "set", "frozenset", "bytearray", "dict", "sorted"):
            args = [self.ev(a) for a in e.args]
            return {"list": list, "tuple": tuple, "set": set, "frozenset": frozenset,
                    "bytearray": bytearray, "dict": dict, "sorted": sorted}[e.func.id](*args)
        if isinstance(e, ast.Attribute):
            base = self.ev(e.value)
            if isinstance(base, dict) and e.attr in base:
                return base[e.attr]
            raise AnalysisError("%s: cannot evaluate attribute %s" % (self.what, norm(e)))
        raise AnalysisError("%s: unsupported expression %s" % (self.what, norm(e)[:80]))

    def _run(self, stmts):
        for s in stmts:
            if isinstance(s, ast.Assign):
                val = self.ev(s.value)
                for tg in s.targets:
                    if isinstance(tg, ast.Name):
                        self.own[tg.id] = val
                        if tg.id not in self.lineno:
                            self.order.append(tg.id)
                        self.lineno[tg.id] = s.lineno
                    elif isinstance(tg, ast.Subscript):
                        self.ev(tg.value)[self.ev(tg.slice)] = val
                    else:
                        raise AnalysisError("%s: unsupported assignment target line %d"
                                            % (self.what, s.lineno))
            elif isinstance(s, ast.AugAssign) and isinstance(s.target, ast.Name) \
                    and isinstance(s.op, ast.Add):
                self.own[s.target.id] = self.ev(s.target) + self.ev(s.value)
            elif isinstance(s, ast.Expr):
                v = s.value
                if isinstance(v, ast.Constant):
                    continue
                if isinstance(v, ast.Call) and isinstance(v.func, ast.Attribute) and \
                        v.func.attr in ("append", "extend", "remove", "insert", "update", "add"):
                    obj = self.ev(v.func.value)
                    args = [self.ev(x) for x in v.args]
                    getattr(obj, v.func.attr)(*args)
                else:
                    raise AnalysisError("%s: unsupported statement line %d: %s"
                                        % (self.what, s.lineno, norm(s)[:60]))
            elif isinstance(s, ast.For) and isinstance(s.target, ast.Name) and not s.orelse:
                for x in list(self.ev(s.iter)):
                    self.own[s.target.id] = x
                    self._run(s.body)
            elif isinstance(s, (ast.FunctionDef, ast.ClassDef, ast.Pass)):
                continue
            elif isinstance(s, ast.Delete):
                for tg in s.targets:
                    if isinstance(tg, ast.Name):
                        self.own.pop(tg.id, None)
            else:
                raise AnalysisError("%s: unsupported statement kind %s line %d"
                                    % (self.what, type(s).__name__, s.lineno))
