"""Statement-level control-flow graphs with the explicit-raise exception model.

One node per simple statement, one *test* node per if/while head, one *loop* node per
for head.  Generator consumption loops in the code base's accepted idioms

    for r in G(...): yield r                                  (forwarding)
    for r in G(...):
        if r in (0, 1): yield r
        [else: <rest>]                                        (value taking)
    for r in G(...): pass                                     (drain)

are collapsed into one *consume* node (kind 'consume'); a consumption of `_sendError`
has no fall-through edge at all (kind 'noreturn').
"""
import ast
import builtins

from .index import own_nodes, norm, short, attr_chain


class Node(object):
    __slots__ = ("id", "kind", "ast", "succ", "pred", "label", "call", "var", "expr", "extra")

    def __init__(self, i, kind, a=None, label=""):
        self.id = i
        self.kind = kind
        self.ast = a
        self.succ = []     # [(node, label)]
        self.pred = []     # [(node, label)]
        self.label = label
        self.call = None   # for consume nodes: the ast.Call
        self.var = None    # for consume / loop nodes: loop variable name
        self.expr = None   # expression evaluated at this node (test, iter, ...)
        self.extra = None

    @property
    def line(self):
        return getattr(self.ast, "lineno", 0)

    def __repr__(self):
        return "<%d:%s@%d %s>" % (self.id, self.kind, self.line, self.label)


# ------------------------------------------------------------------ exceptions
class ExcModel(object):
    """exception class hierarchy: builtins + every class of the package."""

    def __init__(self, index):
        self.parent = {}
        for clist in index.classes_by_name.values():
            for c in clist:
                if c.base_names:
                    self.parent.setdefault(c.name.split(".")[-1], c.base_names[0])
        self.parent.setdefault("error", "OSError")   # socket.error

    def parent_of(self, name):
        if name in self.parent:
            return self.parent[name]
        b = getattr(builtins, name, None)
        if isinstance(b, type) and issubclass(b, BaseException) and b is not BaseException:
            return b.__mro__[1].__name__
        return None

    def is_sub(self, e, t):
        seen = 0
        while e and seen < 30:
            if e == t:
                return True
            e = self.parent_of(e)
            seen += 1
        return False

    def is_exception(self, name):
        return self.is_sub(name, "BaseException")


def exc_name(e):
    if e is None:
        return None
    if isinstance(e, ast.Call):
        e = e.func
    if isinstance(e, ast.Name):
        return e.id
    if isinstance(e, ast.Attribute):
        return e.attr
    return "?"


def handler_types(h):
    if h.type is None:
        return ["BaseException"]
    if isinstance(h.type, ast.Tuple):
        return [exc_name(x) for x in h.type.elts]
    return [exc_name(h.type)]


# ------------------------------------------------------------------ idioms
def _is_yield_of(stmt, var):
    return (isinstance(stmt, ast.Expr) and isinstance(stmt.value, ast.Yield)
            and isinstance(stmt.value.value, ast.Name) and stmt.value.value.id == var)


def _is_01_test(test, var):
    """`var in (0, 1)`"""
    if not (isinstance(test, ast.Compare) and len(test.ops) == 1
            and isinstance(test.ops[0], ast.In)
            and isinstance(test.left, ast.Name) and test.left.id == var):
        return False
    c = test.comparators[0]
    if not isinstance(c, (ast.Tuple, ast.List, ast.Set)):
        return False
    vals = []
    for e in c.elts:
        if not isinstance(e, ast.Constant):
            return False
        vals.append(e.value)
    return sorted(vals) == [0, 1]


def consume_idiom(st):
    """classify a `for` statement over a call: returns (idiom, var, rest) or None.

    idiom 'a' forward everything, 'b' forward 0/1 and take the value (rest = statements
    of the else arm), 'c' drain.
    """
    if not (isinstance(st, ast.For) and isinstance(st.iter, ast.Call)
            and isinstance(st.target, ast.Name)):
        return None
    var = st.target.id
    body = st.body
    if len(body) == 1 and _is_yield_of(body[0], var):
        return ("a", var, None)
    if len(body) == 1 and isinstance(body[0], ast.Pass):
        return ("c", var, None)
    if len(body) == 1 and isinstance(body[0], ast.If) and _is_01_test(body[0].test, var) \
            and len(body[0].body) == 1 and _is_yield_of(body[0].body[0], var):
        return ("b", var, body[0].orelse)
    return None


def is_senderror_call(call):
    return (isinstance(call, ast.Call) and isinstance(call.func, ast.Attribute)
            and call.func.attr == "_sendError")


# ------------------------------------------------------------------ builder
class CFG(object):
    """Control-flow graph of one function.

    `analysis` supplies (all optional): `.is_generator_call(fi, call)`,
    `.raises_of_expr(fi, node)` (explicit-raise summaries of resolved callees and of
    project `__getitem__`s), `.exc` (an ExcModel).
    """

    def __init__(self, fi, analysis=None, extra_raises=None):
        self.fi = fi
        self.fn = fi.node
        self.an = analysis
        self.extra_raises = extra_raises
        self.exc = analysis.exc if analysis is not None else None
        self.nodes = []
        self.entry = self._new("entry")
        self.exit = self._new("exit")
        self.raise_exit = self._new("raise_exit")
        self._loops = []     # stack of (head, after)
        self._tries = []     # stack of [(types, handler node)]
        self._handler_stack = []   # types of the enclosing handlers (for bare raise)
        self.handlers = []   # (try stmt, handler ast, handler node)
        self._link(self._seq(self.fn.body, [self.entry]), self.exit)
        for n in self.nodes:
            for m, l in n.succ:
                m.pred.append((n, l))

    # -- construction helpers
    def _new(self, kind, a=None, label=""):
        n = Node(len(self.nodes), kind, a, label)
        self.nodes.append(n)
        return n

    def _link(self, preds, n):
        for p in preds:
            if isinstance(p, tuple):
                p[0].succ.append((n, p[1]))
            else:
                p.succ.append((n, ""))

    def _is_sub(self, e, t):
        if self.exc is not None:
            return self.exc.is_sub(e, t)
        return e == t or t in ("Exception", "BaseException")

    def _raise_to(self, n, exc):
        """add the edge(s) taken when exception class `exc` is raised at node n."""
        for hs in reversed(self._tries):
            for types, hn in hs:
                if exc is None or any(self._is_sub(exc, t) for t in types):
                    n.succ.append((hn, "exc:" + str(exc)))
                    if exc is not None:
                        return
        n.succ.append((self.raise_exit, "exc:" + str(exc)))

    def _expr_raises(self, n, expr, iterated=False):
        if expr is None:
            return
        names = set()
        if self.an is not None:
            names |= self.an.raises_of_expr(self.fi, expr, iterated)
        if self.extra_raises is not None:
            names |= set(self.extra_raises(expr))
        for e in sorted(names):
            self._raise_to(n, e)

    def _seq(self, stmts, preds):
        for st in stmts:
            preds = self._stmt(st, preds)
        return preds

    def _is_gen_call(self, call):
        if self.an is not None:
            return self.an.is_generator_call(self.fi, call)
        return False

    # -- statements
    def _stmt(self, st, preds):
        if isinstance(st, ast.For):
            idi = consume_idiom(st)
            if idi is not None and (is_senderror_call(st.iter) or self._is_gen_call(st.iter)):
                return self._consume(st, idi, preds)
        if isinstance(st, ast.If):
            t = self._new("test", st, short(st.test, 100))
            t.expr = st.test
            self._link(preds, t)
            self._expr_raises(t, st.test)
            a = self._seq(st.body, [(t, "T")])
            b = self._seq(st.orelse, [(t, "F")]) if st.orelse else [(t, "F")]
            return a + b
        if isinstance(st, (ast.For, ast.While)):
            is_for = isinstance(st, ast.For)
            hd = st.iter if is_for else st.test
            h = self._new("loop" if is_for else "test", st, short(hd, 100))
            h.expr = hd
            if is_for and isinstance(st.target, ast.Name):
                h.var = st.target.id
            self._link(preds, h)
            self._expr_raises(h, hd, iterated=is_for)
            after = self._new("join", st, "loopexit")
            self._loops.append((h, after))
            self._link(self._seq(st.body, [(h, "T")]), h)
            self._loops.pop()
            infinite = (not is_for) and isinstance(st.test, ast.Constant) and bool(st.test.value)
            if not infinite:
                els = self._seq(st.orelse, [(h, "F")]) if st.orelse else [(h, "F")]
                self._link(els, after)
            return [after]
        if isinstance(st, ast.Break):
            n = self._new("break", st)
            self._link(preds, n)
            n.succ.append((self._loops[-1][1], ""))
            return []
        if isinstance(st, ast.Continue):
            n = self._new("continue", st)
            self._link(preds, n)
            n.succ.append((self._loops[-1][0], ""))
            return []
        if isinstance(st, ast.Return):
            n = self._new("return", st, short(st, 80))
            n.expr = st.value
            self._link(preds, n)
            self._expr_raises(n, st.value)
            n.succ.append((self.exit, ""))
            return []
        if isinstance(st, ast.Raise):
            n = self._new("raise", st, short(st, 80))
            n.expr = st.exc
            self._link(preds, n)
            if st.exc is None:
                types = self._handler_stack[-1] if self._handler_stack else ["BaseException"]
                saved = self._tries
                for t in types:
                    self._raise_to(n, t)
            else:
                self._raise_to(n, exc_name(st.exc))
            return []
        if isinstance(st, ast.Try):
            hent = []
            for h in st.handlers:
                hn = self._new("handler", h, "/".join(handler_types(h)))
                hent.append((handler_types(h), hn))
                self.handlers.append((st, h, hn))
            self._tries.append(hent)
            body_end = self._seq(st.body, preds)
            self._tries.pop()
            outs = list(self._seq(st.orelse, body_end))
            for h, (ty, hn) in zip(st.handlers, hent):
                self._handler_stack.append(ty)
                outs += self._seq(h.body, [hn])
                self._handler_stack.pop()
            if st.finalbody:
                outs = self._seq(st.finalbody, outs)
            return outs
        if isinstance(st, ast.With):
            n = self._new("with", st, short(st.items[0], 60))
            n.expr = st.items[0].context_expr
            self._link(preds, n)
            self._expr_raises(n, n.expr)
            return self._seq(st.body, [n])
        if isinstance(st, ast.Assert):
            n = self._new("assert", st, short(st.test, 80))
            n.expr = st.test
            self._link(preds, n)
            self._raise_to(n, "AssertionError")
            if isinstance(st.test, ast.Constant) and not st.test.value:
                return []
            return [n]
        if isinstance(st, (ast.FunctionDef, ast.ClassDef)):
            n = self._new("stmt", st, "def " + st.name)
            self._link(preds, n)
            return [n]
        n = self._new("stmt", st, short(st, 100))
        n.expr = st
        self._link(preds, n)
        self._expr_raises(n, st)
        return [n]

    def _consume(self, st, idi, preds):
        idiom, var, rest = idi
        if is_senderror_call(st.iter):
            n = self._new("noreturn", st, short(st.iter, 90))
            n.call = st.iter
            n.expr = st.iter
            self._link(preds, n)
            self._raise_to(n, "TLSLocalAlert")
            return []
        n = self._new("consume", st, short(st.iter, 90))
        n.call = st.iter
        n.var = var
        n.expr = st.iter
        n.extra = idiom
        self._link(preds, n)
        self._expr_raises(n, st.iter, iterated=True)
        after = self._new("join", st, "consumed")
        # exhaustion of the generator
        els = self._seq(st.orelse, [(n, "F")]) if st.orelse else [(n, "F")]
        self._link(els, after)
        if idiom == "b":
            self._loops.append((n, after))
            back = self._seq(rest or [], [(n, "V")])
            self._loops.pop()
            self._link(back, n)
        return [after]

    # ------------------------------------------------------------ queries
    def reach(self, srcs, blocked=(), cut=(), follow_exc=True):
        """forward reachability. `blocked`: nodes not entered. `cut`: (node id, label)
        or (node id, succ id, label) edges not taken. returns {node id: predecessor id}."""
        seen = {}
        blocked = {b.id if isinstance(b, Node) else b for b in blocked}
        cut = set(cut)
        st = [(s, None) for s in srcs]
        while st:
            n, p = st.pop()
            if n.id in seen or n.id in blocked:
                continue
            seen[n.id] = p
            for m, l in n.succ:
                if (n.id, l) in cut or (n.id, m.id, l) in cut:
                    continue
                if not follow_exc and l.startswith("exc"):
                    continue
                st.append((m, n.id))
        return seen

    def reach_back(self, tgts, blocked=()):
        seen = set()
        blocked = {b.id for b in blocked}
        st = list(tgts)
        while st:
            n = st.pop()
            if n.id in seen or n.id in blocked:
                continue
            seen.add(n.id)
            for m, l in n.pred:
                st.append(m)
        return seen

    def path(self, seen, tgt_id):
        p = []
        x = tgt_id
        while x is not None:
            p.append(x)
            x = seen[x]
        return [self.nodes[i] for i in reversed(p)]

    def succ_on(self, n, label):
        return [m for m, l in n.succ if l == label]

    def normal_succ(self, n):
        return [m for m, l in n.succ if not l.startswith("exc")]

    def nodes_of_kind(self, *kinds):
        return [n for n in self.nodes if n.kind in kinds]

    def stmt_nodes(self):
        return [n for n in self.nodes if n.ast is not None and n.kind not in ("join",)]

    def dump(self):
        out = []
        for n in self.nodes:
            out.append("%r -> %s" % (n, ", ".join("%d%s" % (m.id, ("[" + l + "]") if l else "")
                                                  for m, l in n.succ)))
        return "\n".join(out)


# ------------------------------------------------------------------ analysis
class Analysis(object):
    """shared, lazily computed program facts: CFGs, raise summaries, generator calls."""

    def __init__(self, index):
        self.index = index
        self.exc = ExcModel(index)
        self._raises = {}
        self._in_progress = set()
        self._gen_names = None
        self.calls_total = 0
        self.calls_resolved = 0
        self._counted = set()

    # generator calls -------------------------------------------------------
    def gen_names(self):
        if self._gen_names is None:
            self._gen_names = {}
            for f in self.index.all_functions():
                self._gen_names.setdefault(f.name, []).append(f)
        return self._gen_names

    def is_generator_call(self, fi, call):
        tgts = self.index.resolve_call(fi, call)
        if tgts:
            return any(t.is_generator for t in tgts)
        # name fallback: an attribute call whose name is *only* used by generators
        if isinstance(call.func, ast.Attribute):
            cands = self.gen_names().get(call.func.attr, [])
            return bool(cands) and all(c.is_generator for c in cands)
        return False

    def resolve(self, fi, call):
        key = (fi.qname, id(call))
        tgts = self.index.resolve_call(fi, call)
        if key not in self._counted:
            self._counted.add(key)
            self.calls_total += 1
            if tgts:
                self.calls_resolved += 1
        return tgts

    # cfgs --------------------------------------------------------------------
    def cfg(self, fi, extra_raises=None):
        if extra_raises is not None:
            return CFG(fi, self, extra_raises)
        if fi._cfg is None:
            fi._cfg = CFG(fi, self)
        return fi._cfg

    # explicit-raise summaries -----------------------------------------------------
    def raises(self, fi):
        """set of exception class names that may escape `fi` by explicit raise
        (transitively through resolved project callees)."""
        if fi.qname in self._raises:
            return self._raises[fi.qname]
        if fi.qname in self._in_progress:
            return set()
        self._in_progress.add(fi.qname)
        try:
            g = CFG(fi, self)
            out = set()
            for n in g.nodes:
                for m, l in n.succ:
                    if m is g.raise_exit and l.startswith("exc:"):
                        e = l[4:]
                        if e not in ("None", "?"):
                            out.add(e)
            # assert statements are not protocol errors; keep AssertionError only if explicit
            if "AssertionError" in out:
                explicit = any(n.kind == "raise" and exc_name(n.ast.exc) == "AssertionError"
                               for n in g.nodes) or \
                    any(n.kind == "assert" and isinstance(n.ast.test, ast.Constant)
                        for n in g.nodes)
                inherited = False
                for n in g.nodes:
                    if n.kind in ("stmt", "consume", "test", "loop", "return", "with"):
                        for m, l in n.succ:
                            if m is g.raise_exit and l == "exc:AssertionError":
                                inherited = True
                if not explicit and not inherited:
                    out.discard("AssertionError")
        finally:
            self._in_progress.discard(fi.qname)
        self._raises[fi.qname] = out
        if fi._cfg is None:
            fi._cfg = g
        return out

    def raises_of_expr(self, fi, expr, iterated=False):
        """exceptions an expression/statement may raise through resolved project calls.

        A call to a generator function raises nothing by itself; its exceptions surface
        where it is iterated (`iterated=True` for the iterable of a for loop / consume)."""
        out = set()
        top_call = expr if isinstance(expr, ast.Call) else None
        for n in _walk_no_lambda(expr):
            if isinstance(n, ast.Call):
                tgts = self.resolve(fi, n)
                for t in tgts:
                    if t is fi:
                        continue
                    if t.is_generator and not (iterated and n is top_call):
                        continue
                    out |= self.raises(t)
            elif isinstance(n, ast.Subscript) and isinstance(n.ctx, ast.Load):
                for c in self._subscript_classes(fi, n.value):
                    gi = c.find_method("__getitem__")
                    if gi is not None:
                        out |= self.raises(gi)
        return out

    def _subscript_classes(self, fi, recv):
        if isinstance(recv, ast.Attribute) and isinstance(recv.value, ast.Name) \
                and recv.value.id == "self" and fi.cls:
            return self.index.attr_type(fi.cls, recv.attr)
        if isinstance(recv, ast.Name):
            lt = self.index.local_types(fi).get(recv.id)
            if lt:
                return lt
            # parameter named after a project container class (sessionCache -> SessionCache)
            params = {a.arg for a in fi.node.args.args}
            if recv.id in params:
                for cname, clist in self.index.classes_by_name.items():
                    if cname.lower() == recv.id.lower():
                        return [c for c in clist if c.find_method("__getitem__")]
        return []


def _walk_no_lambda(node):
    todo = [node]
    while todo:
        n = todo.pop()
        yield n
        for c in ast.iter_child_nodes(n):
            if isinstance(c, (ast.Lambda, ast.FunctionDef, ast.ClassDef)):
                continue
            todo.append(c)
