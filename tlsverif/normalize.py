"""Source normalisations applied to every parsed module before any rule looks at it.

The rules were confirmed against one way of writing the code.  Maintainers rewrite code without
changing what it does; two such rewrites are common enough, and mechanical enough, to undo here so
that every rule sees the same program before and after them:

* **named sub-expressions** - `key_size = len(publicKey)` followed by `if key_size < limit`.  A local
  that is assigned exactly once, from a side-effect free expression none of whose operands is
  assigned anywhere in the function, is substituted into its uses (the assignment stays, marked
  `_tlsverif_expanded`).  Values that snapshot mutable state (`early = self.rl.early_data_ok` where
  the function also assigns that attribute; `h = self._handshake_hash.copy()`) are never substituted.
* **new small private helpers** - a block moved into `self._helper(args)`.  A call of a private
  function that did not exist when the rules were confirmed (`baseline_functions.json`), whose body
  is straight-line code with `if` / `raise` and at most one trailing `return`, is replaced by that
  body with the parameters substituted.

Neither changes which paths exist or what any test means; both are pure rewriting of the syntax
tree (nothing is evaluated).
"""
import ast
import copy
import json
import os

PURE_CALLS = {"len", "isinstance", "bool", "min", "max", "tuple", "set", "frozenset", "int", "str", "sorted",
              "bytes", "numBits", "numBytes"}
GETTER_PREFIXES = ("is", "has")


def _own_walk(fn):
    """nodes of a function body without nested function / class bodies."""
    todo = list(fn.body)
    while todo:
        n = todo.pop()
        yield n
        for c in ast.iter_child_nodes(n):
            if isinstance(c, (ast.FunctionDef, ast.AsyncFunctionDef, ast.ClassDef, ast.Lambda)):
                continue
            todo.append(c)


def _chain(e):
    parts = []
    while isinstance(e, ast.Attribute):
        parts.append(e.attr)
        e = e.value
    if isinstance(e, ast.Name):
        parts.append(e.id)
        return ".".join(reversed(parts))
    return None


def _is_getter(name):
    name = name.lstrip("_")
    for p in GETTER_PREFIXES:
        if name.startswith(p) and name[len(p):len(p) + 1] and (name[len(p)].isupper() or name[len(p)] == "_"):
            return True
    return False


def _pure(e, stored_names, stored_chains, params, after=0, own=None, until=10 ** 9):
    """side-effect free and reading nothing this function assigns between line `after` and line `until`
    (the last use), both included (`own`: the name being defined - its own single store does not count)."""
    for n in ast.walk(e):
        if isinstance(n, (ast.Yield, ast.YieldFrom, ast.Await, ast.Lambda, ast.NamedExpr, ast.Starred,
                          ast.ListComp, ast.SetComp, ast.DictComp, ast.GeneratorExp, ast.Dict, ast.JoinedStr)):
            return False
        if isinstance(n, ast.Call):
            if n.keywords:
                return False
            if isinstance(n.func, ast.Name) and n.func.id in PURE_CALLS:
                continue
            if isinstance(n.func, ast.Attribute) and not n.args and _is_getter(n.func.attr):
                continue
            return False
        if isinstance(n, ast.Name) and isinstance(n.ctx, ast.Load) and n.id != own:
            if any(after <= ln <= until for ln in stored_names.get(n.id, ())):
                return False
        if isinstance(n, ast.Attribute):
            c = _chain(n)
            if c is not None:
                for sc, lns in stored_chains.items():
                    if (c == sc or c.startswith(sc + ".") or sc.startswith(c + ".")) \
                            and any(after <= ln <= until for ln in lns):
                        return False
    return True


class _Subst(ast.NodeTransformer):
    def __init__(self, mapping, skip=None):
        self.mapping = mapping      # name -> expr
        self.skip = skip
        self.done = 0

    def visit_Name(self, node):
        if isinstance(node.ctx, ast.Load) and node.id in self.mapping:
            self.done += 1
            new = copy.deepcopy(self.mapping[node.id])
            return new
        return node

    def visit_FunctionDef(self, node):
        return node

    def visit_Lambda(self, node):
        return node

    def visit_ClassDef(self, node):
        return node


def expand_locals(fn, keep=()):
    params = {a.arg for a in fn.args.args + fn.args.kwonlyargs + getattr(fn.args, "posonlyargs", [])}
    if fn.args.vararg:
        params.add(fn.args.vararg.arg)
    if fn.args.kwarg:
        params.add(fn.args.kwarg.arg)
    stored_names, stored_chains = {}, {}
    for n in _own_walk(fn):
        ln = getattr(n, "lineno", 0)
        if isinstance(n, ast.Name) and isinstance(n.ctx, (ast.Store, ast.Del)):
            stored_names.setdefault(n.id, []).append(ln)
        elif isinstance(n, ast.Attribute) and isinstance(n.ctx, (ast.Store, ast.Del)):
            c = _chain(n)
            if c:
                stored_chains.setdefault(c, []).append(ln)
        elif isinstance(n, ast.Subscript) and isinstance(n.ctx, (ast.Store, ast.Del)):
            c = _chain(n.value)
            if c:
                stored_chains.setdefault(c, []).append(ln)
        elif isinstance(n, (ast.Global, ast.Nonlocal)):
            for nm in n.names:
                stored_names.setdefault(nm, []).extend([0, 10 ** 9])
        elif isinstance(n, ast.ExceptHandler) and n.name:
            stored_names.setdefault(n.name, []).extend([ln, 10 ** 9])
    def blocks(node):
        for field in ("body", "orelse", "finalbody"):
            b = getattr(node, field, None)
            if isinstance(b, list) and b and isinstance(b[0], ast.stmt):
                yield b
        for h in getattr(node, "handlers", []) or []:
            yield h.body

    last_use = {}
    in_loop_use = set()
    for n in _own_walk(fn):
        if isinstance(n, ast.Name) and isinstance(n.ctx, ast.Load):
            last_use[n.id] = max(last_use.get(n.id, 0), getattr(n, "end_lineno", None) or getattr(n, "lineno", 0))
    for lp in _own_walk(fn):
        if isinstance(lp, (ast.For, ast.While)):
            # a use inside a loop may run again after anything else in that loop
            end = getattr(lp, "end_lineno", None) or 10 ** 9
            for n in ast.walk(lp):
                if isinstance(n, ast.Name) and isinstance(n.ctx, ast.Load):
                    last_use[n.id] = max(last_use.get(n.id, 0), end)

    changed = 0

    def process(block):
        nonlocal changed
        i = 0
        while i < len(block):
            st = block[i]
            if isinstance(st, ast.Assign) and len(st.targets) == 1 and isinstance(st.targets[0], ast.Name) \
                    and len(stored_names.get(st.targets[0].id, ())) == 1 \
                    and st.targets[0].id not in params \
                    and st.targets[0].id not in keep \
                    and not isinstance(st.value, ast.Constant) \
                    and _pure(st.value, stored_names, stored_chains, params, after=st.lineno,
                              own=st.targets[0].id, until=last_use.get(st.targets[0].id, 10 ** 9)):
                name = st.targets[0].id
                sub = _Subst({name: st.value})
                for later in block[i + 1:]:
                    sub.visit(later)
                if sub.done:
                    st._tlsverif_expanded = True
                    changed += sub.done
            if not isinstance(st, (ast.FunctionDef, ast.AsyncFunctionDef, ast.ClassDef)):
                for b in blocks(st):
                    process(b)
            i += 1
    process(fn.body)
    if changed:
        ast.fix_missing_locations(fn)
    return changed


# ---------------------------------------------------------------------------- helper inlining
def _baseline():
    p = os.path.join(os.path.dirname(os.path.abspath(__file__)), "baseline_functions.json")
    if not os.path.exists(p):
        return None
    with open(p) as f:
        return json.load(f)


def _is_gen(fdef):
    return any(isinstance(n, (ast.Yield, ast.YieldFrom)) for n in _own_walk(fdef))


def _inlinable(fdef):
    """loop-free body (statements, if, try, raise, return, and - for generators - the package's own
    forwarding loops); returns may sit anywhere (the rest of the body is duplicated behind the
    branches that do not return)."""
    if fdef.args.vararg or fdef.args.kwarg or fdef.args.kwonlyargs or fdef.args.defaults:
        return False
    body = [s for s in fdef.body if not (isinstance(s, ast.Expr) and isinstance(s.value, ast.Constant))]
    if not body or len(body) > 25:
        return False
    gen = _is_gen(fdef)
    for n in ast.walk(fdef):
        if isinstance(n, (ast.With, ast.Lambda, ast.Global, ast.Nonlocal, ast.YieldFrom)) \
                or (isinstance(n, (ast.FunctionDef, ast.ClassDef)) and n is not fdef):
            return False
        if isinstance(n, ast.Return) and gen and n.value is not None:
            return False
    rets = [n for n in ast.walk(fdef) if isinstance(n, ast.Return)]
    if len(rets) > 20:
        return False
    # returns inside try blocks or loops cannot be re-threaded
    for n in ast.walk(fdef):
        if isinstance(n, (ast.Try, ast.For, ast.While)) and any(isinstance(x, ast.Return) for x in ast.walk(n)):
            if n is body[-1] and _tail_try(n):
                continue        # a try that ends the helper: returning from it is falling off its end
            return False
    return True


def _tail_try(n):
    """a try statement without else/finally whose returns are not nested in loops or inner tries"""
    if not isinstance(n, ast.Try) or n.orelse or n.finalbody:
        return False
    for part in [n.body] + [h.body for h in n.handlers]:
        for s in part:
            for x in ast.walk(s):
                if isinstance(x, (ast.For, ast.While, ast.Try)) and any(isinstance(y, ast.Return) for y in ast.walk(x)):
                    return False
    return True


def _always_leaves(stmts):
    if not stmts:
        return False
    last = stmts[-1]
    if isinstance(last, (ast.Return, ast.Raise)):
        return True
    if isinstance(last, ast.If):
        return _always_leaves(last.body) and _always_leaves(last.orelse)
    return False


def _thread_returns(stmts, emit):
    """rewrite a loop-free statement list so that `return e` becomes emit(e) and nothing after it runs:
    the statements following an `if` are moved into the branches that fall through."""
    out = []
    for i, st in enumerate(stmts):
        if isinstance(st, ast.Return):
            out += emit(st.value)
            return out
        if isinstance(st, ast.If) and any(isinstance(x, ast.Return) for x in ast.walk(st)):
            rest = stmts[i + 1:]
            body = _thread_returns(st.body + ([] if _always_leaves(st.body) else [copy.deepcopy(r) for r in rest]), emit)
            orelse = _thread_returns(st.orelse + ([] if _always_leaves(st.orelse) else [copy.deepcopy(r) for r in rest]), emit)
            new = ast.If(test=st.test, body=body or [ast.Pass()], orelse=orelse)
            out.append(ast.copy_location(new, st))
            return out
        if isinstance(st, ast.Try) and i == len(stmts) - 1 and _tail_try(st) \
                and any(isinstance(x, ast.Return) for x in ast.walk(st)):
            st.body = _thread_returns(st.body, emit) or [ast.copy_location(ast.Pass(), st)]
            for h in st.handlers:
                h.body = _thread_returns(h.body, emit) or [ast.copy_location(ast.Pass(), st)]
        out.append(st)
    return out


def _arg_ok(a):
    if isinstance(a, (ast.Name, ast.Constant)) or (isinstance(a, ast.Attribute) and _chain(a) is not None):
        return True
    if isinstance(a, ast.Call) and isinstance(a.func, ast.Name) and a.func.id in PURE_CALLS and not a.keywords:
        return all(_arg_ok(x) for x in a.args)
    if isinstance(a, ast.Subscript):
        return _arg_ok(a.value)
    return False


_INLINE_SEQ = [0]


def inline_new_helpers(tree, module_name, functions_of_class):
    """functions_of_class(class name or None) -> {name: FunctionDef}.  Rewrites call statements
    `self.h(args)`, `Cls.h(args)`, `h(args)`, `x = <such a call>`, `return <such a call>` and the
    forwarding loop `for r in self.h(args): yield r` whose target is a new helper."""
    base = _baseline()
    if base is None:
        return 0
    count = 0
    inlined = set()

    def target(call, cls_name):
        f = call.func
        if isinstance(f, ast.Attribute) and isinstance(f.value, ast.Name):
            if f.value.id in ("self", "cls") and cls_name:
                d = functions_of_class(cls_name).get(f.attr)
                if d is None:
                    return None
                static = any(isinstance(x, ast.Name) and x.id == "staticmethod" for x in d.decorator_list)
                return (d, 0 if static else 1, cls_name)
            d = functions_of_class(f.value.id).get(f.attr) if functions_of_class(f.value.id) else None
            if d is not None:
                static = any(isinstance(x, ast.Name) and x.id == "staticmethod" for x in d.decorator_list)
                return (d, 0 if static else 1, f.value.id)
            return None
        if isinstance(f, ast.Name):
            d = functions_of_class(None).get(f.id)
            return (d, 0, None) if d is not None else None
        return None

    def qname(cls_name, name):
        return "%s:%s.%s" % (module_name, cls_name, name) if cls_name else "%s:%s" % (module_name, name)

    def forwarding(st):
        """`for r in <call>: yield r` (optionally through the 0/1 filter idiom that yields everything)"""
        if not (isinstance(st, ast.For) and isinstance(st.iter, ast.Call) and isinstance(st.target, ast.Name)
                and not st.orelse and len(st.body) == 1):
            return None
        b = st.body[0]
        if isinstance(b, ast.Expr) and isinstance(b.value, ast.Yield) and isinstance(b.value.value, ast.Name) \
                and b.value.value.id == st.target.id:
            return st.iter
        return None

    def consuming(st):
        """`for r in <call>: if r in (0, 1): yield r / else: break` - the package's idiom for running a
        generator helper whose last yielded value is its result."""
        if not (isinstance(st, ast.For) and isinstance(st.iter, ast.Call) and isinstance(st.target, ast.Name)
                and not st.orelse and len(st.body) == 1 and isinstance(st.body[0], ast.If)):
            return None
        f = st.body[0]
        t = f.test
        if not (isinstance(t, ast.Compare) and len(t.ops) == 1 and isinstance(t.ops[0], ast.In)
                and isinstance(t.left, ast.Name) and t.left.id == st.target.id
                and isinstance(t.comparators[0], (ast.Tuple, ast.List))
                and [getattr(e, "value", None) for e in t.comparators[0].elts] == [0, 1]):
            return None
        if not (len(f.body) == 1 and isinstance(f.body[0], ast.Expr) and isinstance(f.body[0].value, ast.Yield)
                and isinstance(f.body[0].value.value, ast.Name) and f.body[0].value.value.id == st.target.id
                and len(f.orelse) == 1 and isinstance(f.orelse[0], ast.Break)):
            return None
        return st.iter

    def value_yields_to_returns(stmts, loopvars=frozenset(), nested=False):
        """in a copy of a generator helper's body: `yield <value>` (not the forwarding of a loop variable)
        ends the helper as far as a consuming caller is concerned -> Return(value).  None when such a
        yield sits inside a loop or try (cannot be re-threaded)."""
        out = []
        for s in stmts:
            if isinstance(s, ast.Expr) and isinstance(s.value, ast.Yield):
                v = s.value.value
                if isinstance(v, ast.Name) and v.id in loopvars:
                    out.append(s)
                    continue
                if nested:
                    return None
                out.append(ast.copy_location(ast.Return(value=v), s))
                continue
            if isinstance(s, ast.If):
                b = value_yields_to_returns(s.body, loopvars, nested)
                o = value_yields_to_returns(s.orelse, loopvars, nested)
                if b is None or o is None:
                    return None
                s.body, s.orelse = b or [ast.copy_location(ast.Pass(), s)], o
            elif isinstance(s, ast.For):
                lv = loopvars | ({s.target.id} if isinstance(s.target, ast.Name) else frozenset())
                b = value_yields_to_returns(s.body, lv, True)
                if b is None:
                    return None
                s.body = b
            elif isinstance(s, ast.Try):
                for part in [s.body, s.orelse, s.finalbody] + [h.body for h in s.handlers]:
                    r = value_yields_to_returns(part, loopvars, True)
                    if r is None:
                        return None
                    part[:] = r
            out.append(s)
        return out

    def rewrite_block(block, cls_name, depth=0, used=frozenset()):
        nonlocal count
        i = 0
        while i < len(block):
            st = block[i]
            call, tgt = None, None
            if isinstance(st, ast.Expr) and isinstance(st.value, ast.Call):
                call = st.value
            elif isinstance(st, ast.Assign) and len(st.targets) == 1 and isinstance(st.value, ast.Call):
                call, tgt = st.value, st.targets[0]
            elif isinstance(st, ast.Return) and isinstance(st.value, ast.Call):
                call, tgt = st.value, "return"
            elif isinstance(st, ast.Expr) and isinstance(st.value, ast.Yield) and isinstance(st.value.value, ast.Call):
                call, tgt = st.value.value, "yield"
            elif forwarding(st) is not None:
                call, tgt = forwarding(st), "forward"
            elif consuming(st) is not None:
                call, tgt = consuming(st), "consume"
            done = False
            if call is not None and not call.keywords:
                t = target(call, cls_name)
                if t is not None:
                    d, skip, owner = t
                    names = [a.arg for a in d.args.args][skip:]
                    # (an argument that is not a plain name / constant / untouched attribute chain is
                    # evaluated once, up front, into a local named after the parameter - see below)
                if t is not None:
                    gen = _is_gen(d)
                    if d.name.startswith("_") and not d.name.startswith("__") and qname(owner, d.name) not in base \
                            and _inlinable(d) and len(names) == len(call.args) and depth < 3 \
                            and gen == (tgt in ("forward", "consume")):
                        body = [copy.deepcopy(s) for s in d.body
                                if not (isinstance(s, ast.Expr) and isinstance(s.value, ast.Constant))]
                        consume_mode = tgt == "consume"
                        if consume_mode:
                            body = value_yields_to_returns(body)
                            if body is None:
                                i += 1
                                continue
                            tgt = ast.Name(id=st.target.id, ctx=ast.Store())
                            # `for r in self.h(..): ...` followed at once by `a, b = r` (or `x = r`): the
                            # helper's result goes straight into those variables
                            nxt = block[i + 1] if i + 1 < len(block) else None
                            if isinstance(nxt, ast.Assign) and len(nxt.targets) == 1 and isinstance(nxt.value, ast.Name) \
                                    and nxt.value.id == st.target.id and (
                                        isinstance(nxt.targets[0], ast.Name) or (
                                            isinstance(nxt.targets[0], ast.Tuple)
                                            and all(isinstance(x, ast.Name) for x in nxt.targets[0].elts))) \
                                    and not any(isinstance(x, ast.Name) and x.id == st.target.id and isinstance(x.ctx, ast.Load)
                                                for s_ in block[i + 2:i + 3] for x in ast.walk(s_)):
                                tgt = copy.deepcopy(nxt.targets[0])
                                del block[i + 1]
                        mapping = dict(zip(names, call.args))
                        _INLINE_SEQ[0] += 1
                        pre = "_%s%d_" % (d.name.strip("_"), _INLINE_SEQ[0])
                        # evaluation order: anything but a name, a constant or an attribute chain the helper
                        # does not store to is computed before the helper's first statement
                        stored_chains = {_chain(n) for s in body for n in ast.walk(s)
                                         if isinstance(n, ast.Attribute) and isinstance(n.ctx, ast.Store)}
                        early = []
                        for nm_ in names:
                            a_ = mapping[nm_]
                            if isinstance(a_, (ast.Name, ast.Constant)):
                                continue
                            ch_ = _chain(a_) if isinstance(a_, ast.Attribute) else None
                            if ch_ is not None and not any(sc and (ch_ == sc or ch_.startswith(sc + ".")) for sc in stored_chains):
                                continue
                            if _arg_ok(a_) and not isinstance(a_, ast.Attribute) and not stored_chains \
                                    and not any(isinstance(n, ast.Call) for s in body for n in ast.walk(s)):
                                continue        # a pure expression and a helper without effects
                            lname = nm_ if nm_ not in used else pre + nm_
                            early.append(ast.Assign(targets=[ast.Name(id=lname, ctx=ast.Store())], value=a_))
                            mapping[nm_] = ast.Name(id=lname, ctx=ast.Load())
                        loc = {n.id for s in body for n in ast.walk(s) if isinstance(n, ast.Name)
                               and isinstance(n.ctx, ast.Store)} - set(names)
                        # `a, b = self.h(..)` with `return x, y` at the end: the helper's x, y ARE a, b
                        keepname = {}
                        rets_ = [n for s in body for n in ast.walk(s) if isinstance(n, ast.Return)]
                        if tgt not in (None, "return", "forward", "yield") and len(rets_) == 1 and rets_[0].value is not None:
                            tv, rv = (tgt.elts if isinstance(tgt, ast.Tuple) else [tgt]), \
                                (rets_[0].value.elts if isinstance(rets_[0].value, ast.Tuple) else [rets_[0].value])
                            # (a returned element may also be a parameter the helper re-binds, when the
                            # caller passes and receives it under one name: `v = h(v)`)
                            def _same_var(r_, t_):
                                a_ = mapping.get(r_.id)
                                return isinstance(a_, ast.Name) and a_.id == t_.id
                            if len(tv) == len(rv) and all(isinstance(x, ast.Name) for x in list(tv) + list(rv)) \
                                    and len({x.id for x in rv}) == len(rv) \
                                    and all(x.id in loc or _same_var(x, t_) for x, t_ in zip(rv, tv)):
                                cand = {r.id: t_.id for r, t_ in zip(rv, tv)}
                                used_here = {n.id for s in body for n in ast.walk(s) if isinstance(n, ast.Name)}
                                argnames = {getattr(a_, "id", None): nm_ for nm_, a_ in mapping.items()}
                                if not any(t_ in used_here and t_ != r for r, t_ in cand.items()) \
                                        and not any(t_ in argnames and argnames[t_] != r for r, t_ in cand.items()):
                                    keepname = cand
                                    for r in cand:
                                        mapping.pop(r, None)     # a re-bound parameter now is the caller's variable
                        # a parameter the helper re-binds becomes a local of the caller: the caller's own
                        # variable when the call reads and overwrites the same name (`x = self.h(x)`),
                        # otherwise a fresh one initialised from the argument
                        rebound = {n.id for s in body for n in ast.walk(s) if isinstance(n, ast.Name)
                                   and isinstance(n.ctx, ast.Store) and n.id in mapping}
                        prologue = []
                        for p_ in sorted(rebound):
                            a_ = mapping.pop(p_)
                            if isinstance(a_, ast.Name) and isinstance(tgt, ast.Name) and tgt.id == a_.id:
                                keepname[p_] = a_.id
                            else:
                                keepname[p_] = pre + p_
                                prologue.append(ast.Assign(targets=[ast.Name(id=pre + p_, ctx=ast.Store())], value=a_))

                        # a helper local that has the name of the variable the call assigns needs no new
                        # name: the caller's old value is dead (unless an argument still reads it)
                        free_target = set()
                        if isinstance(tgt, ast.Name) and not any(
                                isinstance(x, ast.Name) and x.id == tgt.id for a_ in call.args for x in ast.walk(a_)):
                            free_target.add(tgt.id)

                        class R(ast.NodeTransformer):
                            def visit_Name(self, node):
                                if node.id in mapping and isinstance(node.ctx, ast.Load):
                                    return copy.deepcopy(mapping[node.id])
                                if node.id in keepname:
                                    node.id = keepname[node.id]
                                elif node.id in loc and node.id in used and node.id not in free_target:
                                    node.id = pre + node.id     # only names the caller already uses are renamed
                                return node
                        body = early + prologue + [R().visit(s) for s in body]

                        def emit(value):
                            if tgt == "return":
                                return [ast.Return(value=value)]
                            if tgt == "yield":
                                return [ast.Expr(value=ast.Yield(value=value))]
                            if tgt == "forward" or tgt is None:
                                return [ast.Expr(value=value)] if value is not None and not isinstance(value, ast.Constant) else []
                            if isinstance(tgt, ast.Tuple) and isinstance(value, ast.Tuple) \
                                    and len(tgt.elts) == len(value.elts) \
                                    and all(isinstance(a_, ast.Name) and isinstance(b_, ast.Name) and a_.id == b_.id
                                            for a_, b_ in zip(tgt.elts, value.elts)):
                                return []          # a, b = (a, b)
                            if isinstance(tgt, ast.Tuple) and isinstance(value, ast.Tuple) \
                                    and len(tgt.elts) == len(value.elts) \
                                    and all(isinstance(x, ast.Name) for x in tgt.elts) \
                                    and not ({x.id for x in tgt.elts} &
                                             {n.id for v_ in value.elts for n in ast.walk(v_) if isinstance(n, ast.Name)}):
                                # a, b = (x, y) with independent sides: one assignment per element
                                return [ast.Assign(targets=[copy.deepcopy(t_)], value=v_)
                                        for t_, v_ in zip(tgt.elts, value.elts)]
                            return [ast.Assign(targets=[copy.deepcopy(tgt)],
                                               value=value if value is not None else ast.Constant(value=None))]
                        new = _thread_returns(body, emit)
                        if tgt not in (None, "return", "forward", "yield") and not consume_mode and not _always_leaves(body):
                            # falling off the end returns None
                            if not any(isinstance(s, ast.Return) for s in body):
                                new.append(ast.Assign(targets=[copy.deepcopy(tgt)], value=ast.Constant(value=None)))
                        def _drop_identity(stmts_):
                            out_ = []
                            for s_ in stmts_:
                                if isinstance(s_, ast.Assign) and len(s_.targets) == 1 \
                                        and isinstance(s_.targets[0], ast.Name) and isinstance(s_.value, ast.Name) \
                                        and s_.targets[0].id == s_.value.id:
                                    continue
                                if isinstance(s_, ast.If):
                                    s_.body = _drop_identity(s_.body) or [ast.copy_location(ast.Pass(), s_)]
                                    s_.orelse = _drop_identity(s_.orelse)
                                out_.append(s_)
                            return out_
                        new = _drop_identity(new)
                        new = new or [ast.Pass()]
                        for s_ in new:
                            for n in ast.walk(s_):
                                if not hasattr(n, "lineno") or True:
                                    ast.copy_location(n, st)
                        block[i:i + 1] = new
                        count += 1
                        inlined.add((owner, d.name))
                        done = True
                        rewrite_block(new, cls_name, depth + 1, used | loc)
                        i += len(new)
            if not done:
                if isinstance(st, ast.ClassDef):
                    rewrite_block(st.body, st.name, depth)
                elif isinstance(st, (ast.FunctionDef, ast.AsyncFunctionDef)):
                    names_ = frozenset(n.id for n in ast.walk(st) if isinstance(n, ast.Name)) | \
                        frozenset(a.arg for a in st.args.args)
                    rewrite_block(st.body, cls_name, depth, names_)
                else:
                    for field in ("body", "orelse", "finalbody"):
                        b = getattr(st, field, None)
                        if isinstance(b, list) and b and isinstance(b[0], ast.stmt):
                            rewrite_block(b, cls_name, depth, used)
                    for h in getattr(st, "handlers", []) or []:
                        rewrite_block(h.body, cls_name, depth, used)
                i += 1
    rewrite_block(tree.body, None)
    # a helper every use of which was folded back no longer exists as far as the rules are concerned
    for owner, name in inlined:
        holder = tree.body
        if owner is not None:
            cl = [c for c in tree.body if isinstance(c, ast.ClassDef) and c.name == owner]
            if not cl:
                continue
            holder = cl[0].body
        fdefs = [f for f in holder if isinstance(f, ast.FunctionDef) and f.name == name]
        refs = 0
        for n in ast.walk(tree):
            if (isinstance(n, ast.Attribute) and n.attr == name) or (isinstance(n, ast.Name) and n.id == name):
                refs += 1
        inner = sum(1 for f in fdefs for n in ast.walk(f)
                    if (isinstance(n, ast.Attribute) and n.attr == name) or (isinstance(n, ast.Name) and n.id == name))
        if refs - inner <= 0:
            for f in fdefs:
                holder.remove(f)
    if count:
        ast.fix_missing_locations(tree)
    return count


def signatures(trees):
    """function name -> the one parameter-name tuple (without self/cls) shared by every definition of
    that name in the package, or None when definitions disagree; plus ("Cls", "method") -> tuple."""
    sigs = {}
    for tree in trees:
        for c in ast.walk(tree):
            if isinstance(c, ast.ClassDef):
                for n in c.body:
                    if isinstance(n, ast.FunctionDef) and not (n.args.vararg or n.args.kwarg or n.args.kwonlyargs):
                        names = [a.arg for a in n.args.args]
                        if names and names[0] in ("self", "cls"):
                            names = names[1:]
                        key = (c.name, n.name)
                        sigs[key] = tuple(names) if key not in sigs else None
    for tree in trees:
        for n in ast.walk(tree):
            if isinstance(n, ast.FunctionDef):
                if n.args.vararg or n.args.kwarg or n.args.kwonlyargs:
                    sigs[n.name] = None
                    continue
                names = [a.arg for a in n.args.args]
                if names and names[0] in ("self", "cls"):
                    names = names[1:]
                t = tuple(names)
                if n.name in sigs and sigs[n.name] != t:
                    sigs[n.name] = None
                elif n.name not in sigs:
                    sigs[n.name] = t
    return sigs


def positional_calls(tree, sigs):
    """`f(a, k2=b)` -> `f(a, b)` when every definition of `f` in the package has the same parameter
    order and the keywords continue the positional arguments without a gap."""
    n_done = 0
    for n in ast.walk(tree):
        if not isinstance(n, ast.Call) or not n.keywords or any(k.arg is None for k in n.keywords):
            continue
        if any(isinstance(a, ast.Starred) for a in n.args):
            continue
        name = n.func.attr if isinstance(n.func, ast.Attribute) else (n.func.id if isinstance(n.func, ast.Name) else None)
        sig = sigs.get(name)
        if not sig and isinstance(n.func, ast.Attribute) and isinstance(n.func.value, ast.Call) \
                and isinstance(n.func.value.func, ast.Name):
            sig = sigs.get((n.func.value.func.id, name))      # Cls().method(kw=..)
        if not sig:
            continue
        kw = {k.arg: k.value for k in n.keywords}
        if not set(kw) <= set(sig):
            continue
        want = list(sig[len(n.args):len(n.args) + len(kw)])
        if set(want) != set(kw):
            continue        # a gap: a defaulted parameter in between is skipped
        n.args = list(n.args) + [kw[w] for w in want]
        n.keywords = []
        n_done += 1
    return n_done


def new_module_constants(tree, module_name, base):
    """module-level `NAME = <side-effect free expression>` that did not exist at baseline is substituted
    into its uses in the module."""
    known = set(base.get(module_name + ":", ()))
    consts = {}
    counts = {}
    for n in ast.walk(tree):
        if isinstance(n, ast.Name) and isinstance(n.ctx, (ast.Store, ast.Del)):
            counts[n.id] = counts.get(n.id, 0) + 1
    # a container that is written to anywhere in the module is state, not a constant
    mutated = set()
    for n in ast.walk(tree):
        b = None
        if isinstance(n, (ast.Subscript, ast.Attribute)) and isinstance(n.ctx, (ast.Store, ast.Del)):
            b = n.value
            while isinstance(b, (ast.Subscript, ast.Attribute)):
                b = b.value
        elif isinstance(n, ast.Call) and isinstance(n.func, ast.Attribute) and n.func.attr in (
                "append", "extend", "update", "clear", "pop", "setdefault", "add", "insert", "remove", "popitem",
                "sort", "reverse", "discard"):
            b = n.func.value
        elif isinstance(n, ast.AugAssign):
            b = n.target
        if isinstance(b, ast.Name):
            mutated.add(b.id)
    for st in tree.body:
        if isinstance(st, ast.Assign) and len(st.targets) == 1 and isinstance(st.targets[0], ast.Name):
            nm = st.targets[0].id
            if nm in known or counts.get(nm, 0) != 1 or nm.startswith("__") or nm in mutated:
                continue
            if _pure(st.value, {}, {}, set()):
                consts[nm] = st.value
            elif isinstance(st.value, ast.Dict) and all(
                    k is not None and _pure(k, {}, {}, set()) and _pure(v, {}, {}, set())
                    for k, v in zip(st.value.keys, st.value.values)):
                consts[nm] = st.value        # a literal table
    if not consts:
        return 0
    sub = _Subst(consts)
    for st in tree.body:
        if isinstance(st, ast.Assign) and len(st.targets) == 1 and isinstance(st.targets[0], ast.Name) \
                and st.targets[0].id in consts:
            continue
        sub.generic_visit(st) if isinstance(st, (ast.FunctionDef, ast.ClassDef)) else sub.visit(st)
    # _Subst stops at function boundaries: descend explicitly
    for n in ast.walk(tree):
        if isinstance(n, ast.FunctionDef):
            shadow = {x.id for x in _own_walk(n) if isinstance(x, ast.Name) and isinstance(x.ctx, ast.Store)} | \
                {a.arg for a in n.args.args}
            inner = _Subst({k: v for k, v in consts.items() if k not in shadow})
            for st in n.body:
                inner.visit(st)
            sub.done += inner.done
    return sub.done


def _as_expression(fdef):
    """a helper made only of `if c: return a` ... `return b` (pure expressions) as one expression."""
    body = [s for s in fdef.body if not (isinstance(s, ast.Expr) and isinstance(s.value, ast.Constant))]

    def conv(stmts):
        if not stmts:
            return None
        st = stmts[0]
        if isinstance(st, ast.Return) and st.value is not None:
            return st.value
        if isinstance(st, ast.If):
            a = conv(st.body)
            b = conv(st.orelse) if st.orelse else conv(stmts[1:])
            if a is None or b is None:
                return None
            return ast.IfExp(test=st.test, body=a, orelse=b)
        return None
    e = conv(body)
    if e is None:
        return None
    for n in ast.walk(e):
        if isinstance(n, (ast.Yield, ast.YieldFrom, ast.Lambda, ast.NamedExpr)):
            return None
    return e


def inline_expression_helpers(tree, module_name, functions_of_class, base):
    """calls of NEW helpers that are a single (conditional) expression, wherever they occur."""
    done = 0
    for cls in [None] + [c for c in tree.body if isinstance(c, ast.ClassDef)]:
        holder = tree if cls is None else cls
        cname = None if cls is None else cls.name
        fns = functions_of_class(cname)

        class T(ast.NodeTransformer):
            def visit_Call(self, node):
                nonlocal done
                self.generic_visit(node)
                f = node.func
                d = None
                skip = 0
                if isinstance(f, ast.Attribute) and isinstance(f.value, ast.Name) and f.value.id in ("self", "cls") and cname:
                    d = fns.get(f.attr)
                    if d is not None and not any(isinstance(x, ast.Name) and x.id == "staticmethod" for x in d.decorator_list):
                        skip = 1
                elif isinstance(f, ast.Name) and cname is None:
                    d = fns.get(f.id)
                if d is None or node.keywords or not d.name.startswith("_") or d.name.startswith("__"):
                    return node
                q = "%s:%s.%s" % (module_name, cname, d.name) if cname else "%s:%s" % (module_name, d.name)
                if q in base or d.args.vararg or d.args.kwarg or d.args.defaults:
                    return node
                names = [a.arg for a in d.args.args][skip:]
                if len(names) != len(node.args) or not all(_arg_ok(a) for a in node.args):
                    return node
                e = _as_expression(d)
                if e is None:
                    return node
                mapping = dict(zip(names, node.args))
                e = copy.deepcopy(e)

                class R(ast.NodeTransformer):
                    def visit_Name(self, n_):
                        if n_.id in mapping and isinstance(n_.ctx, ast.Load):
                            return copy.deepcopy(mapping[n_.id])
                        return n_
                e = R().visit(e)
                done += 1
                return ast.copy_location(e, node)
        for st in (holder.body if cls is not None else [s_ for s_ in tree.body if not isinstance(s_, ast.ClassDef)]):
            T().visit(st)
    if done:
        ast.fix_missing_locations(tree)
    return done


def fold_constants(tree):
    """"brotli" + "_accepts_limit" -> "brotli_accepts_limit" (constants that met through inlining)."""
    class F(ast.NodeTransformer):
        def visit_BinOp(self, node):
            self.generic_visit(node)
            if isinstance(node.op, ast.Add) and isinstance(node.left, ast.Constant) and isinstance(node.right, ast.Constant) \
                    and type(node.left.value) is type(node.right.value) and isinstance(node.left.value, (str, bytes)):
                return ast.copy_location(ast.Constant(value=node.left.value + node.right.value), node)
            if isinstance(node.op, ast.Add) and isinstance(node.left, ast.Tuple) and isinstance(node.right, ast.Tuple) \
                    and isinstance(getattr(node.left, "ctx", ast.Load()), ast.Load):
                return ast.copy_location(ast.Tuple(elts=list(node.left.elts) + list(node.right.elts), ctx=ast.Load()), node)
            return node

        def visit_UnaryOp(self, node):
            self.generic_visit(node)
            if isinstance(node.op, ast.Not) and isinstance(node.operand, ast.Constant) \
                    and isinstance(node.operand.value, bool):
                return ast.copy_location(ast.Constant(value=not node.operand.value), node)
            return node

        def visit_BoolOp(self, node):
            self.generic_visit(node)
            is_and = isinstance(node.op, ast.And)
            vals = []
            for v in node.values:
                if isinstance(v, ast.Constant) and isinstance(v.value, bool):
                    if v.value == is_and:
                        continue                # neutral element
                    if v is node.values[0] or not vals:
                        return ast.copy_location(ast.Constant(value=v.value), node)     # decided by a leading constant
                    vals.append(v)
                    break                       # nothing after an absorbing constant is evaluated
                vals.append(v)
            if not vals:
                return ast.copy_location(ast.Constant(value=is_and), node)
            if len(vals) == 1:
                return vals[0]
            node.values = vals
            return node
    F().visit(tree)


def _row_ok(e):
    if isinstance(e, (ast.Constant, ast.Name)):
        return True
    if isinstance(e, ast.Attribute):
        return _chain(e) is not None
    if isinstance(e, (ast.Tuple, ast.List)):
        return all(_row_ok(x) for x in e.elts)
    return False


def unroll_new_table_loops(fn, keep=()):
    """`for a, b in ((x1, y1), (x2, y2), ..): body` over a literal table, with loop variables that did
    not exist at baseline, becomes the bodies in sequence with the variables replaced by the row's
    entries - the if-chain the table was made from.  The table may be written in place or be a local
    assigned once (a new one) just for the loop."""
    lits = {}
    stores = {}
    for n in _own_walk(fn):
        if isinstance(n, ast.Name) and isinstance(n.ctx, (ast.Store, ast.Del)):
            stores[n.id] = stores.get(n.id, 0) + 1
    for n in _own_walk(fn):
        if isinstance(n, ast.Assign) and len(n.targets) == 1 and isinstance(n.targets[0], ast.Name) \
                and isinstance(n.value, (ast.Tuple, ast.List)) and stores.get(n.targets[0].id) == 1 \
                and n.targets[0].id not in keep:
            lits[n.targets[0].id] = n.value
    done = 0

    def process(block):
        nonlocal done
        i = 0
        while i < len(block):
            st = block[i]
            if isinstance(st, ast.For) and not st.orelse:
                it = st.iter
                if isinstance(it, ast.Name) and it.id in lits:
                    it = lits[it.id]
                tg = st.target
                names = [tg.id] if isinstance(tg, ast.Name) else \
                    [x.id for x in tg.elts] if isinstance(tg, ast.Tuple) and all(isinstance(x, ast.Name) for x in tg.elts) else None
                ok = names is not None and isinstance(it, (ast.Tuple, ast.List)) and 0 < len(it.elts) <= 40 \
                    and not any(nm in keep for nm in names) and all(stores.get(nm) == 1 for nm in names) \
                    and not any(isinstance(x, (ast.Break, ast.Continue)) for b_ in st.body for x in ast.walk(b_)) \
                    and all(_row_ok(el) for el in it.elts) \
                    and (isinstance(tg, ast.Name) or all(isinstance(el, (ast.Tuple, ast.List)) and len(el.elts) == len(names)
                                                         for el in it.elts))
                if ok:
                    # the loop variables must not be read after the loop
                    later = [x for s_ in block[i + 1:] for x in ast.walk(s_)
                             if isinstance(x, ast.Name) and x.id in names]
                    if later:
                        ok = False
                if ok:
                    new = []
                    for el in it.elts:
                        mapping = {names[0]: el} if isinstance(tg, ast.Name) else dict(zip(names, el.elts))
                        for b_ in st.body:
                            c_ = copy.deepcopy(b_)
                            c_ = _Subst({k: v for k, v in mapping.items()}).visit(c_)
                            for x in ast.walk(c_):
                                ast.copy_location(x, st)
                            new.append(c_)
                    block[i:i + 1] = new
                    done += 1
                    i += len(new)
                    continue
            if not isinstance(st, (ast.FunctionDef, ast.AsyncFunctionDef, ast.ClassDef)):
                for field in ("body", "orelse", "finalbody"):
                    b = getattr(st, field, None)
                    if isinstance(b, list) and b and isinstance(b[0], ast.stmt):
                        process(b)
                for h in getattr(st, "handlers", []) or []:
                    process(h.body)
            i += 1
    process(fn.body)
    if done:
        # a table local that fed only the loop is gone with it
        for nm in list(lits):
            if not any(isinstance(x, ast.Name) and x.id == nm and isinstance(x.ctx, ast.Load) for x in _own_walk(fn)):
                fn.body[:] = [s for s in fn.body if not (isinstance(s, ast.Assign) and len(s.targets) == 1
                                                        and isinstance(s.targets[0], ast.Name) and s.targets[0].id == nm)]
        ast.fix_missing_locations(fn)
    return done


def canonical_tests(tree):
    """one spelling for tests that are written in several: in a boolean context `len(x) == 0` / `< 1` is
    `not x` and `len(x) != 0` / `> 0` / `>= 1` is `x`; `not a in b` is `a not in b`, `not a is b` is
    `a is not b`; comparison with None is by identity.  Applied to the whole tree (the rules' own texts
    use the canonical spelling); it is a matching key, not a claim that the two spellings agree for
    every type."""
    def is_len(e):
        return isinstance(e, ast.Call) and isinstance(e.func, ast.Name) and e.func.id == "len" \
            and len(e.args) == 1 and not e.keywords

    def const(e, v):
        return isinstance(e, ast.Constant) and type(e.value) is int and e.value == v

    def boolify(e):
        """rewrite of an expression whose value is only tested for truth"""
        if isinstance(e, ast.Compare) and len(e.ops) == 1:
            l, op, r = e.left, e.ops[0], e.comparators[0]
            if is_len(l):
                x = l.args[0]
                if (isinstance(op, ast.Eq) and const(r, 0)) or (isinstance(op, ast.Lt) and const(r, 1)) \
                        or (isinstance(op, ast.LtE) and const(r, 0)):
                    return ast.copy_location(ast.UnaryOp(op=ast.Not(), operand=x), e)
                if (isinstance(op, (ast.NotEq, ast.Gt)) and const(r, 0)) or (isinstance(op, ast.GtE) and const(r, 1)):
                    return x
        if isinstance(e, ast.UnaryOp) and isinstance(e.op, ast.Not):
            inner = boolify(e.operand)
            if isinstance(inner, ast.UnaryOp) and isinstance(inner.op, ast.Not):
                return inner.operand            # not not x
            e.operand = inner
            return e
        if isinstance(e, ast.BoolOp):
            e.values = [boolify(v) for v in e.values]
            return e
        return e

    class C(ast.NodeTransformer):
        def visit_Compare(self, node):
            self.generic_visit(node)
            if len(node.ops) == 1 and isinstance(node.comparators[0], ast.Constant) and node.comparators[0].value is None:
                if isinstance(node.ops[0], ast.Eq):
                    node.ops = [ast.Is()]
                elif isinstance(node.ops[0], ast.NotEq):
                    node.ops = [ast.IsNot()]
            return node

        def visit_UnaryOp(self, node):
            self.generic_visit(node)
            if isinstance(node.op, ast.Not) and isinstance(node.operand, ast.Compare) and len(node.operand.ops) == 1:
                op = node.operand.ops[0]
                if isinstance(op, ast.In):
                    node.operand.ops = [ast.NotIn()]
                    return node.operand
                if isinstance(op, ast.Is):
                    node.operand.ops = [ast.IsNot()]
                    return node.operand
            return node

        def visit_If(self, node):
            self.generic_visit(node)
            node.test = boolify(node.test)
            return node

        def visit_While(self, node):
            self.generic_visit(node)
            node.test = boolify(node.test)
            return node

        def visit_IfExp(self, node):
            self.generic_visit(node)
            node.test = boolify(node.test)
            return node

        def visit_Assert(self, node):
            self.generic_visit(node)
            node.test = boolify(node.test)
            return node

        def visit_comprehension(self, node):
            self.generic_visit(node)
            node.ifs = [boolify(i) for i in node.ifs]
            return node
    C().visit(tree)
    ast.fix_missing_locations(tree)


_BASE_SRC = [None]


def _baseline_sources():
    if _BASE_SRC[0] is None:
        p = os.path.join(os.path.dirname(os.path.abspath(__file__)), "baseline_sources.json")
        try:
            with open(p) as f:
                _BASE_SRC[0] = json.load(f)
        except (IOError, OSError, ValueError):
            _BASE_SRC[0] = {}
    return _BASE_SRC[0]


def _name_tokens(src):
    """token stream of a function's source with identifiers abstracted: ([abstract tokens], [names or None])"""
    import io
    import keyword
    import tokenize
    abstract, names = [], []
    try:
        for tok in tokenize.generate_tokens(io.StringIO(src).readline):
            if tok.type in (tokenize.NL, tokenize.NEWLINE, tokenize.INDENT, tokenize.DEDENT, tokenize.COMMENT,
                            tokenize.ENDMARKER):
                continue
            if tok.type == tokenize.NAME and not keyword.iskeyword(tok.string):
                if abstract and abstract[-1] == ".":
                    abstract.append("\x00ATTR " + tok.string)      # an attribute name is not a local
                    names.append(None)
                    continue
                abstract.append("\x00NAME")
                names.append(tok.string)
            else:
                abstract.append(tok.string)
                names.append(None)
    except (tokenize.TokenError, IndentationError):
        return [], []
    return abstract, names


def rename_back_locals(fn, qname, base_locals):
    """locals of the confirmed tree that are gone, and new locals that stand exactly where they stood:
    the function's tokens are aligned with the confirmed source (identifiers abstracted, difflib) and a
    new name that always faces one and the same vanished name - and vice versa - is given that name
    back.  Only plain renamings are undone; names that do not pair up one-to-one are left alone."""
    import difflib
    base_src = _baseline_sources().get(qname)
    if not base_src:
        return 0
    cur_locals = set(local_names(fn))
    base_locals = set(base_locals)
    new, gone = cur_locals - base_locals, base_locals - cur_locals
    if not new or not gone:
        return 0
    params = {a.arg for a in fn.args.args + fn.args.kwonlyargs}
    new -= params
    if not new:
        return 0
    a_abs, a_names = _name_tokens(base_src)
    b_abs, b_names = _name_tokens(ast.unparse(fn))
    if not a_abs or not b_abs:
        return 0
    sm = difflib.SequenceMatcher(a=a_abs, b=b_abs, autojunk=False)
    fwd, back = {}, {}
    for blk in sm.get_matching_blocks():
        for k in range(blk.size):
            bn, cn = a_names[blk.a + k], b_names[blk.b + k]
            if bn is None or cn is None:
                continue
            fwd.setdefault(cn, set()).add(bn)
            back.setdefault(bn, set()).add(cn)
    mapping = {}
    for cn in sorted(new):
        tg = fwd.get(cn, set())
        if len(tg) == 1:
            bn = next(iter(tg))
            if bn in gone and back.get(bn) == {cn}:
                mapping[cn] = bn
    if not mapping:
        return 0

    class R(ast.NodeTransformer):
        def visit_Name(self, node):
            if node.id in mapping:
                node.id = mapping[node.id]
            return node

        def visit_FunctionDef(self, node):
            return node if node is not fn else self.generic_visit(node)

        def visit_Lambda(self, node):
            return self.generic_visit(node)
    R().generic_visit(fn)
    return len(mapping)


_BASE_EXPRS = {}


def _base_exprs(qname):
    """normalised texts of the boolean / comparison expressions of a function as confirmed"""
    if qname in _BASE_EXPRS:
        return _BASE_EXPRS[qname]
    out = set()
    src = _baseline_sources().get(qname)
    if src:
        try:
            t = ast.parse(src)
            canonical_tests(t)
            for n in ast.walk(t):
                if isinstance(n, (ast.Compare, ast.BoolOp)) or (isinstance(n, ast.UnaryOp) and isinstance(n.op, ast.Not)):
                    out.add(" ".join(ast.unparse(n).split()))
        except SyntaxError:
            pass
    _BASE_EXPRS[qname] = out
    return out


_SWAP = {ast.Lt: ast.Gt, ast.Gt: ast.Lt, ast.LtE: ast.GtE, ast.GtE: ast.LtE, ast.Eq: ast.Eq, ast.NotEq: ast.NotEq}
_NEG = {ast.Lt: ast.GtE, ast.GtE: ast.Lt, ast.Gt: ast.LtE, ast.LtE: ast.Gt, ast.Eq: ast.NotEq, ast.NotEq: ast.Eq,
        ast.In: ast.NotIn, ast.NotIn: ast.In, ast.Is: ast.IsNot, ast.IsNot: ast.Is}


def restore_spelling(fn, qname):
    """a condition that was only re-spelled - operands of a comparison swapped (`a > b` / `b < a`), a
    negation pushed in or pulled out (De Morgan, `not a == b` / `a != b`), the operands of an and / or
    in another order - is put back into the spelling the confirmed source of the same function uses,
    when exactly that spelling occurs there.  Nothing else is touched."""
    base = _base_exprs(qname)
    if not base:
        return 0
    done = 0

    def txt(n):
        return " ".join(ast.unparse(n).split())

    def variants(n):
        """equivalent spellings of one expression (one step)"""
        out = []
        if isinstance(n, ast.Compare) and len(n.ops) == 1 and type(n.ops[0]) in _SWAP:
            out.append(ast.Compare(left=n.comparators[0], ops=[_SWAP[type(n.ops[0])]()], comparators=[n.left]))
        if isinstance(n, ast.Compare) and len(n.ops) == 1 and type(n.ops[0]) in _NEG:
            out.append(ast.UnaryOp(op=ast.Not(), operand=ast.Compare(left=n.left, ops=[_NEG[type(n.ops[0])]()],
                                                                     comparators=list(n.comparators))))
            if type(n.ops[0]) in _SWAP:
                out.append(ast.UnaryOp(op=ast.Not(), operand=ast.Compare(
                    left=n.comparators[0], ops=[_SWAP[_NEG[type(n.ops[0])]]()], comparators=[n.left])))
        if isinstance(n, ast.UnaryOp) and isinstance(n.op, ast.Not):
            o = n.operand
            if isinstance(o, ast.Compare) and len(o.ops) == 1 and type(o.ops[0]) in _NEG:
                out.append(ast.Compare(left=o.left, ops=[_NEG[type(o.ops[0])]()], comparators=list(o.comparators)))
                if _NEG[type(o.ops[0])] in _SWAP:
                    out.append(ast.Compare(left=o.comparators[0], ops=[_SWAP[_NEG[type(o.ops[0])]]()], comparators=[o.left]))
            if isinstance(o, ast.BoolOp):
                dual = ast.Or() if isinstance(o.op, ast.And) else ast.And()
                out.append(ast.BoolOp(op=dual, values=[_neg(v) for v in o.values]))
        if isinstance(n, ast.BoolOp):
            dual = ast.Or() if isinstance(n.op, ast.And) else ast.And()
            out.append(ast.UnaryOp(op=ast.Not(), operand=ast.BoolOp(op=dual, values=[_neg(v) for v in n.values])))
            # `not (a and b) or c` is `not a or not b or c`: a negated group of the dual kind is spliced in
            flat, changed = [], False
            for v in n.values:
                if isinstance(v, ast.UnaryOp) and isinstance(v.op, ast.Not) and isinstance(v.operand, ast.BoolOp) \
                        and type(v.operand.op) is type(dual):
                    flat += [_neg(x) for x in v.operand.values]
                    changed = True
                else:
                    flat.append(v)
            if changed:
                out.append(ast.BoolOp(op=n.op, values=flat))
            # operands may only be permuted when none of them guards another (`x and x.y`): the order of
            # such a pair is part of the meaning
            def guards(u, v):
                c = u.operand if isinstance(u, ast.UnaryOp) and isinstance(u.op, ast.Not) else u
                if isinstance(c, ast.Compare) and len(c.ops) == 1 and isinstance(c.ops[0], (ast.Is, ast.IsNot)):
                    c = c.left
                ch = _chain(c) if isinstance(c, ast.Attribute) else (c.id if isinstance(c, ast.Name) else None)
                if ch is None:
                    return False
                for x in ast.walk(v):
                    xc = _chain(x) if isinstance(x, ast.Attribute) else None
                    if xc and xc.startswith(ch + "."):
                        return True
                    if isinstance(x, (ast.Subscript, ast.Call)) and isinstance(getattr(x, "value", getattr(x, "func", None)), ast.Name) \
                            and getattr(x, "value", getattr(x, "func", None)).id == ch:
                        return True
                return False
            independent = not any(guards(u, v) for u in n.values for v in n.values if u is not v)
            if len(n.values) <= 4 and independent:
                import itertools
                for perm in itertools.permutations(n.values):
                    if list(perm) != list(n.values):
                        out.append(ast.BoolOp(op=n.op, values=list(perm)))
        return out

    def _neg(v):
        if isinstance(v, ast.UnaryOp) and isinstance(v.op, ast.Not):
            return v.operand
        if isinstance(v, ast.Compare) and len(v.ops) == 1 and type(v.ops[0]) in _NEG:
            return ast.Compare(left=v.left, ops=[_NEG[type(v.ops[0])]()], comparators=list(v.comparators))
        return ast.UnaryOp(op=ast.Not(), operand=v)

    class R(ast.NodeTransformer):
        def _fix(self, node):
            nonlocal done
            self.generic_visit(node)
            if txt(node) in base:
                return node
            for v in variants(node):
                ast.fix_missing_locations(ast.copy_location(v, node))
                try:
                    if txt(v) in base:
                        done += 1
                        return ast.copy_location(v, node)
                except Exception:
                    continue
            return node
        visit_Compare = _fix
        visit_BoolOp = _fix

        def visit_UnaryOp(self, node):
            if isinstance(node.op, ast.Not):
                return self._fix(node)
            return self.generic_visit(node)

        def visit_FunctionDef(self, node):
            return node if node is not fn else self.generic_visit(node)
    R().generic_visit(fn)
    if done:
        ast.fix_missing_locations(fn)
    return done


def local_names(fn):
    return sorted({n.id for n in _own_walk(fn) if isinstance(n, ast.Name) and isinstance(n.ctx, ast.Store)})


def normalize_module(tree, module_name, sigs=None):
    """Only what is NEW relative to the tree the rules were confirmed on is folded back: helpers that
    did not exist then are inlined, locals and module constants that did not exist then are
    substituted; keyword arguments are put back into positional order."""
    base = _baseline()
    if base is None:
        return 0, 0
    canonical_tests(tree)
    # plain renamings of locals are undone first: everything below is keyed on the confirmed names
    for n_ in tree.body:
        if isinstance(n_, ast.ClassDef):
            for c_ in n_.body:
                if isinstance(c_, ast.FunctionDef):
                    q_ = "%s:%s.%s" % (module_name, n_.name, c_.name)
                    if q_ in base:
                        rename_back_locals(c_, q_, base[q_])
                        restore_spelling(c_, q_)
        elif isinstance(n_, ast.FunctionDef):
            q_ = "%s:%s" % (module_name, n_.name)
            if q_ in base:
                rename_back_locals(n_, q_, base[q_])
                restore_spelling(n_, q_)
    if sigs:
        positional_calls(tree, sigs)
    new_module_constants(tree, module_name, base)
    classes = {}
    top = {}
    for n in tree.body:
        if isinstance(n, ast.ClassDef):
            classes[n.name] = {c.name: c for c in n.body if isinstance(c, ast.FunctionDef)}
        elif isinstance(n, ast.FunctionDef):
            top[n.name] = n

    def foc(name):
        if name is None:
            return top
        return classes.get(name, {})
    n_inl = inline_new_helpers(tree, module_name, foc)
    n_inl += inline_expression_helpers(tree, module_name, foc, base)
    n_exp = 0
    for n in tree.body:
        if isinstance(n, ast.ClassDef):
            classes[n.name] = {c.name: c for c in n.body if isinstance(c, ast.FunctionDef)}
    for cname, fns in list(classes.items()) + [(None, top)]:
        for name, fdef in fns.items():
            q = "%s:%s.%s" % (module_name, cname, name) if cname else "%s:%s" % (module_name, name)
            if q in base:
                n_inl += unroll_new_table_loops(fdef, keep=set(base.get(q, ())))
    for cname, fns in list(classes.items()) + [(None, top)]:
        for name, fdef in fns.items():
            q = "%s:%s.%s" % (module_name, cname, name) if cname else "%s:%s" % (module_name, name)
            n_exp += expand_locals(fdef, keep=set(base.get(q, ())) if q in base else ())
    if n_inl or n_exp:
        fold_constants(tree)      # constants that met through inlining / substitution
    return n_inl, n_exp
