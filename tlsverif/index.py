"""Source index: modules, classes, functions, hierarchy, attribute types, call resolution.

Everything is derived from the syntax trees of /repo/tlslite/**/*.py on every run.
"""
import ast
import os

REPO = os.environ.get("TLSVERIF_REPO", "/repo")
PKG = "tlslite"


class AnalysisError(Exception):
    """The checker cannot analyse (vanished anchor, syntax error, floor not met)."""


class Module(object):
    def __init__(self, name, path, src, tree):
        self.name = name          # e.g. 'tlsconnection', 'utils.codec'
        self.path = path          # absolute
        self.rel = os.path.relpath(path, REPO)
        self.src = src
        self.tree = tree
        self.classes = {}         # name -> ClassInfo (top-level and nested by dotted name)
        self.functions = {}       # name -> FuncInfo (module level)
        self.imports = {}         # local name -> (module name, original name or None)
        self.star_imports = []    # module names
        self.lines = src.splitlines()


class ClassInfo(object):
    def __init__(self, module, name, node, outer=None):
        self.module = module
        self.name = name          # dotted for nested
        self.node = node
        self.base_names = []
        self.bases = []           # resolved ClassInfo
        self.subclasses = []
        self.methods = {}         # name -> FuncInfo (own)
        self.outer = outer

    @property
    def qname(self):
        return "%s:%s" % (self.module.name, self.name)

    def mro(self):
        out, todo = [], [self]
        while todo:
            c = todo.pop(0)
            if c in out:
                continue
            out.append(c)
            todo.extend(c.bases)
        return out

    def descendants(self):
        out, todo = [], list(self.subclasses)
        while todo:
            c = todo.pop(0)
            if c in out:
                continue
            out.append(c)
            todo.extend(c.subclasses)
        return out

    def family(self):
        fam = self.mro()
        for c in self.descendants():
            if c not in fam:
                fam.append(c)
        return fam

    def find_method(self, name):
        for c in self.mro():
            if name in c.methods:
                return c.methods[name]
        return None

    def find_method_family(self, name):
        """method lookup through ancestors, then descendants (mixins call down)."""
        m = self.find_method(name)
        if m:
            return m
        for c in self.descendants():
            if name in c.methods:
                return c.methods[name]
        return None

    def is_subclass_of(self, other_name):
        return any(c.name == other_name for c in self.mro())


class FuncInfo(object):
    def __init__(self, module, cls, name, node):
        self.module = module
        self.cls = cls
        self.name = name
        self.node = node
        self.is_generator = _own_yield(node)
        self._cfg = None

    @property
    def qname(self):
        if self.cls:
            return "%s:%s.%s" % (self.module.name, self.cls.name, self.name)
        return "%s:%s" % (self.module.name, self.name)

    @property
    def short(self):
        if self.cls:
            return "%s.%s" % (self.cls.name, self.name)
        return self.name

    def loc(self, node=None):
        n = node if node is not None else self.node
        return "%s:%d" % (self.module.rel, getattr(n, "lineno", 0))

    def __repr__(self):
        return "<Func %s>" % self.qname


def own_nodes(fn_node):
    """walk the body of a def without descending into nested defs/lambdas/classes."""
    todo = list(fn_node.body)
    while todo:
        n = todo.pop()
        yield n
        for c in ast.iter_child_nodes(n):
            if isinstance(c, (ast.FunctionDef, ast.AsyncFunctionDef, ast.Lambda, ast.ClassDef)):
                continue
            todo.append(c)


def _own_yield(fn_node):
    for n in own_nodes(fn_node):
        if isinstance(n, (ast.Yield, ast.YieldFrom)):
            return True
    return False


def attr_chain(e):
    """'a.b.c' for Name/Attribute chains, else None."""
    parts = []
    while isinstance(e, ast.Attribute):
        parts.append(e.attr)
        e = e.value
    if isinstance(e, ast.Name):
        parts.append(e.id)
        return ".".join(reversed(parts))
    return None


def chains_in(node):
    """all maximal attribute chains / names mentioned in an expression."""
    out = set()

    def rec(n):
        c = attr_chain(n) if isinstance(n, (ast.Attribute, ast.Name)) else None
        if c is not None:
            out.add(c)
            return
        for ch in ast.iter_child_nodes(n):
            rec(ch)
    rec(node)
    return out


def chain_prefixes(node):
    """all chains and their prefixes mentioned ('a.b.c' -> a, a.b, a.b.c)."""
    out = set()
    for c in chains_in(node):
        parts = c.split(".")
        for i in range(1, len(parts) + 1):
            out.add(".".join(parts[:i]))
    return out


def norm(node):
    """normalised source text of a node (position independent)."""
    try:
        return " ".join(ast.unparse(node).split())
    except Exception:
        return "<?>"


def short(node, n=90):
    s = norm(node)
    return s if len(s) <= n else s[:n - 3] + "..."


class Index(object):
    def __init__(self, repo=None):
        self.repo = repo or REPO
        self.root = os.path.join(self.repo, PKG)
        self.modules = {}
        self.classes_by_name = {}   # simple name -> [ClassInfo]
        self.functions = {}         # qname -> FuncInfo
        self._attr_types = None
        self._load()
        self._link()

    # ------------------------------------------------------------------ load
    def _load(self):
        if not os.path.isdir(self.root):
            raise AnalysisError("package directory %s missing" % self.root)
        parsed = []
        for dirpath, dirnames, filenames in os.walk(self.root):
            dirnames.sort()
            for fn in sorted(filenames):
                if not fn.endswith(".py"):
                    continue
                path = os.path.join(dirpath, fn)
                rel = os.path.relpath(path, self.root)[:-3].replace(os.sep, ".")
                if rel.endswith("__init__"):
                    rel = rel[:-len("__init__")].rstrip(".") or "__init__"
                with open(path, "rb") as f:
                    raw = f.read()
                try:
                    src = raw.decode("utf-8")
                    tree = ast.parse(src, filename=path)
                except (SyntaxError, UnicodeDecodeError) as e:
                    raise AnalysisError("cannot parse %s: %s" % (path, e))
                parsed.append((rel, path, src, tree))
        if not os.environ.get("TLSVERIF_NO_NORMALIZE"):
            from .normalize import normalize_module, signatures
            sigs = signatures([t for _r, _p, _s, t in parsed])
            for rel, path, src, tree in parsed:
                normalize_module(tree, rel, sigs)
        for rel, path, src, tree in parsed:
            m = Module(rel, path, src, tree)
            self.modules[rel] = m
            self._index_module(m)

    def _index_module(self, m):
        def add_class(node, outer, prefix):
            ci = ClassInfo(m, prefix + node.name, node, outer)
            for b in node.bases:
                if isinstance(b, ast.Name):
                    ci.base_names.append(b.id)
                elif isinstance(b, ast.Attribute):
                    ci.base_names.append(b.attr)
            m.classes[ci.name] = ci
            self.classes_by_name.setdefault(node.name, []).append(ci)
            for c in node.body:
                if isinstance(c, ast.FunctionDef):
                    fi = FuncInfo(m, ci, c.name, c)
                    # keep the last definition of a name (python semantics), but
                    # remember property setters under name.setter
                    key = c.name
                    for d in c.decorator_list:
                        if isinstance(d, ast.Attribute) and d.attr in ("setter", "deleter"):
                            key = c.name + "." + d.attr
                    fi.name = key
                    ci.methods[key] = fi
                    self.functions[fi.qname] = fi
                elif isinstance(c, ast.ClassDef):
                    add_class(c, ci, ci.name + ".")
                elif isinstance(c, (ast.If, ast.Try)):
                    # conditional method definitions (python2/3 switches)
                    for sub in ast.walk(c):
                        if isinstance(sub, ast.FunctionDef) and sub.name not in ci.methods:
                            # only direct children of the if/try arms
                            pass
            return ci

        def scan(body):
            for node in body:
                if isinstance(node, ast.ClassDef):
                    add_class(node, None, "")
                elif isinstance(node, ast.FunctionDef):
                    fi = FuncInfo(m, None, node.name, node)
                    m.functions.setdefault(node.name, fi)
                    self.functions.setdefault(fi.qname, fi)
                elif isinstance(node, ast.ImportFrom):
                    mod = self._abs_module(m, node)
                    for a in node.names:
                        if a.name == "*":
                            m.star_imports.append(mod)
                        else:
                            m.imports[a.asname or a.name] = (mod, a.name)
                elif isinstance(node, ast.Import):
                    for a in node.names:
                        m.imports[(a.asname or a.name).split(".")[0]] = (a.name, None)
                elif isinstance(node, (ast.If, ast.Try)):
                    for fld in ("body", "orelse", "finalbody"):
                        scan(getattr(node, fld, []) or [])
                    for h in getattr(node, "handlers", []) or []:
                        scan(h.body)
        scan(m.tree.body)
        # conditional method definitions inside classes (codec.Writer uses them)
        for ci in list(m.classes.values()):
            for c in ci.node.body:
                if isinstance(c, (ast.If, ast.Try)):
                    self._scan_cond_methods(m, ci, c)

    def _scan_cond_methods(self, m, ci, node):
        for fld in ("body", "orelse", "finalbody"):
            for c in getattr(node, fld, []) or []:
                if isinstance(c, ast.FunctionDef):
                    fi = FuncInfo(m, ci, c.name, c)
                    variants = ci.__dict__.setdefault("cond_methods", {})
                    variants.setdefault(c.name, []).append(fi)
                    if c.name not in ci.methods:
                        ci.methods[c.name] = fi
                        self.functions[fi.qname] = fi
                elif isinstance(c, (ast.If, ast.Try)):
                    self._scan_cond_methods(m, ci, c)
        for h in getattr(node, "handlers", []) or []:
            for c in h.body:
                if isinstance(c, ast.FunctionDef):
                    fi = FuncInfo(m, ci, c.name, c)
                    ci.__dict__.setdefault("cond_methods", {}).setdefault(c.name, []).append(fi)
                    if c.name not in ci.methods:
                        ci.methods[c.name] = fi
                        self.functions[fi.qname] = fi

    def _abs_module(self, m, node):
        """absolute (package-relative) module name of an ImportFrom."""
        if node.level == 0:
            name = node.module or ""
            if name.startswith(PKG + "."):
                return name[len(PKG) + 1:]
            return "ext:" + name
        pkg_parts = m.name.split(".")
        is_pkg = os.path.basename(m.path) == "__init__.py"
        if not is_pkg:
            pkg_parts = pkg_parts[:-1]
        up = node.level - 1
        if up:
            pkg_parts = pkg_parts[:-up] if up <= len(pkg_parts) else []
        if m.name == "__init__" and is_pkg:
            pkg_parts = []
        parts = pkg_parts + ((node.module or "").split(".") if node.module else [])
        return ".".join(p for p in parts if p)

    # ------------------------------------------------------------------ link
    def _link(self):
        for m in self.modules.values():
            for ci in m.classes.values():
                for bn in ci.base_names:
                    b = self.lookup_class(m, bn)
                    if b is not None and b is not ci:
                        ci.bases.append(b)
                        b.subclasses.append(ci)

    def lookup_name(self, m, name, _seen=None):
        """resolve a bare name in module m to ('class', ClassInfo) / ('func', FuncInfo) /
        ('module', Module) / None."""
        _seen = _seen or set()
        if (m.name, name) in _seen:
            return None
        _seen.add((m.name, name))
        if name in m.classes:
            return ("class", m.classes[name])
        if name in m.functions:
            return ("func", m.functions[name])
        if name in m.imports:
            mod, orig = m.imports[name]
            if orig is None:
                tm = self.modules.get(mod[len(PKG) + 1:] if mod.startswith(PKG + ".") else mod)
                return ("module", tm) if tm else None
            tm = self.modules.get(mod)
            if tm is not None:
                r = self.lookup_name(tm, orig, _seen)
                if r:
                    return r
            # from .utils import tlshashlib -> module
            sub = self.modules.get((mod + "." + orig).strip("."))
            if sub is not None:
                return ("module", sub)
            return None
        for mod in m.star_imports:
            tm = self.modules.get(mod)
            if tm is not None:
                r = self.lookup_name(tm, name, _seen)
                if r:
                    return r
        return None

    def lookup_class(self, m, name):
        r = self.lookup_name(m, name)
        if r and r[0] == "class":
            return r[1]
        return None

    # --------------------------------------------------------------- anchors
    def module(self, name):
        if name not in self.modules:
            raise AnalysisError("anchor vanished: module %s" % name)
        return self.modules[name]

    def cls(self, qname):
        mod, _, cname = qname.partition(":")
        m = self.module(mod)
        if cname not in m.classes:
            raise AnalysisError("anchor vanished: class %s" % qname)
        return m.classes[cname]

    def func(self, qname):
        if qname not in self.functions:
            raise AnalysisError("anchor vanished: function %s" % qname)
        return self.functions[qname]

    def has_func(self, qname):
        return qname in self.functions

    def all_functions(self):
        return list(self.functions.values())

    # ---------------------------------------------------------- attr typing
    def attr_types(self):
        """class family attribute typing: (ClassInfo, attr) -> set of ClassInfo."""
        if self._attr_types is not None:
            return self._attr_types
        table = {}
        for fi in self.functions.values():
            if not fi.cls:
                continue
            for n in own_nodes(fi.node):
                if isinstance(n, ast.Assign) and isinstance(n.value, ast.Call):
                    tgt_cls = self._class_of_ctor(fi, n.value)
                    if tgt_cls is None:
                        continue
                    for t in n.targets:
                        if isinstance(t, ast.Attribute) and isinstance(t.value, ast.Name) \
                                and t.value.id == "self":
                            table.setdefault((fi.cls, t.attr), set()).add(tgt_cls)
        self._attr_types = table
        return table

    def _class_of_ctor(self, fi, call):
        f = call.func
        # Cls(...)  or  Cls(...).create(...)
        if isinstance(f, ast.Attribute) and isinstance(f.value, ast.Call):
            inner = self._class_of_ctor(fi, f.value)
            if inner is not None:
                meth = inner.find_method(f.attr)
                if meth is not None and returns_self(meth.node):
                    return inner
            return None
        if isinstance(f, ast.Name):
            r = self.lookup_name(fi.module, f.id)
            if r and r[0] == "class":
                return r[1]
        return None

    def attr_type(self, cls, attr):
        out = set()
        t = self.attr_types()
        for c in cls.family():
            out |= t.get((c, attr), set())
        return out

    # ------------------------------------------------------ call resolution
    def local_types(self, fi):
        """very small local type inference: name -> ClassInfo for x = Cls(...)[.create()]."""
        cache = fi.__dict__.setdefault("_local_types", None)
        if cache is not None:
            return cache
        out = {}
        for n in own_nodes(fi.node):
            if isinstance(n, ast.Assign) and len(n.targets) == 1 and \
                    isinstance(n.targets[0], ast.Name) and isinstance(n.value, ast.Call):
                c = self._class_of_ctor(fi, n.value)
                if c is not None:
                    out.setdefault(n.targets[0].id, set()).add(c)
        fi._local_types = out
        return out

    def resolve_call(self, fi, call):
        """list of FuncInfo a call may resolve to (empty if unresolved)."""
        f = call.func
        if isinstance(f, ast.Name):
            r = self.lookup_name(fi.module, f.id)
            if r is None:
                return []
            if r[0] == "func":
                return [r[1]]
            if r[0] == "class":
                init = r[1].find_method("__init__")
                return [init] if init else []
            return []
        if not isinstance(f, ast.Attribute):
            return []
        recv = f.value
        name = f.attr
        # self.m()
        if isinstance(recv, ast.Name) and recv.id in ("self", "cls") and fi.cls:
            m = fi.cls.find_method_family(name)
            return [m] if m else []
        # super().m()
        if isinstance(recv, ast.Call) and isinstance(recv.func, ast.Name) and \
                recv.func.id == "super" and fi.cls:
            for c in fi.cls.mro()[1:]:
                if name in c.methods:
                    return [c.methods[name]]
            return []
        # self.a.m()
        if isinstance(recv, ast.Attribute) and isinstance(recv.value, ast.Name) and \
                recv.value.id == "self" and fi.cls:
            out = []
            for c in self.attr_type(fi.cls, recv.attr):
                m = c.find_method(name)
                if m:
                    out.append(m)
            return out
        # Cls.m() / module.f() / local.m()
        if isinstance(recv, ast.Name):
            r = self.lookup_name(fi.module, recv.id)
            if r and r[0] == "class":
                m = r[1].find_method(name)
                return [m] if m else []
            if r and r[0] == "module" and r[1] is not None:
                if name in r[1].functions:
                    return [r[1].functions[name]]
                if name in r[1].classes:
                    init = r[1].classes[name].find_method("__init__")
                    return [init] if init else []
                return []
            lt = self.local_types(fi).get(recv.id)
            if lt:
                out = []
                for c in lt:
                    m = c.find_method(name)
                    if m:
                        out.append(m)
                return out
        # Cls(...).m()
        if isinstance(recv, ast.Call):
            c = self._class_of_ctor(fi, recv)
            if c is not None:
                m = c.find_method(name)
                return [m] if m else []
        return []

    def methods_named(self, name):
        return [f for f in self.functions.values() if f.name == name]


def returns_self(fn_node):
    rets = [n for n in own_nodes(fn_node) if isinstance(n, ast.Return)]
    if not rets:
        return False
    return all(isinstance(r.value, ast.Name) and r.value.id == "self" for r in rets)
