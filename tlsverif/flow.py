"""Interprocedural gate summaries over the handshake coroutines.

A *gate kind* is given by a predicate that recognises local gate nodes in a function
(e.g. `if finished.verify_data != expected:` with a non-returning failing edge).  From
it the summary derives, by memoised recursion over the (acyclic) flow call graph:

* `complete(F)`  - every path from entry of F to its normal exit or to a value-yield
                   passes a gate (a local one, or the consumption of a complete callee);
* `token_ok(F,t)`- every yield of token t in F is dominated by a gate;
* `validated_edges(F)` - edges of tests of a consumed result against tokens that are all
                   gate-dominated in the callee ("result == 'finished'").
"""
import ast

from .index import attr_chain, norm
from .query import is_value_yield, yield_value, calls_in, call_name


def reaching_defs(cfg, node, var):
    """definition nodes of local `var` that reach `node` (backward search)."""
    out, seen, todo = set(), set(), [p for p, l in node.pred]
    while todo:
        n = todo.pop()
        if n.id in seen:
            continue
        seen.add(n.id)
        if _defines(n, var):
            out.add(n.id)
            continue
        for p, l in n.pred:
            todo.append(p)
    return [cfg.nodes[i] for i in sorted(out)]


def _defines(n, var):
    if n.kind in ("consume", "loop") and n.var == var:
        return True
    if n.kind == "stmt" and isinstance(n.ast, (ast.Assign, ast.AugAssign, ast.AnnAssign)):
        tgts = n.ast.targets if isinstance(n.ast, ast.Assign) else [n.ast.target]
        for t in tgts:
            for x in ast.walk(t):
                if isinstance(x, ast.Name) and x.id == var and isinstance(x.ctx, ast.Store):
                    return True
    if n.kind == "handler" and getattr(n.ast, "name", None) == var:
        return True
    if n.kind == "with" and isinstance(n.ast, ast.With):
        for it in n.ast.items:
            if isinstance(it.optional_vars, ast.Name) and it.optional_vars.id == var:
                return True
    return False


def yield_tokens(node):
    """tokens a value-yield may produce: constants, or '<value>' for anything else."""
    v = yield_value(node)
    if v is None:
        return [None]
    if isinstance(v, ast.Constant):
        return [v.value]
    if isinstance(v, ast.IfExp) and isinstance(v.body, ast.Constant) and isinstance(v.orelse, ast.Constant):
        return [v.body.value, v.orelse.value]
    return ["<value>"]


def test_tokens(expr):
    """(var, tokens) when `expr` tests a name against constant token(s); else None.
    The tokens are those for which the test is TRUE."""
    if isinstance(expr, ast.Compare) and len(expr.ops) == 1 and isinstance(expr.left, ast.Name):
        op, c = expr.ops[0], expr.comparators[0]
        if isinstance(op, (ast.Eq, ast.Is)) and isinstance(c, ast.Constant):
            return expr.left.id, [c.value]
        if isinstance(op, ast.In) and isinstance(c, (ast.List, ast.Tuple, ast.Set)) and \
                all(isinstance(e, ast.Constant) for e in c.elts):
            toks = [e.value for e in c.elts]
            if sorted(map(repr, toks)) == ["0", "1"]:
                return None
            return expr.left.id, toks
    return None


class GateSummary(object):
    def __init__(self, an, local_gate, name, extra_sinks=("_handshakeDone",)):
        """local_gate(fi, cfg, node) -> tuple of failing edge labels, or None."""
        self.an = an
        self.local_gate = local_gate
        self.name = name
        self.extra_sinks = extra_sinks
        self._gates = {}
        self._complete = {}
        self._busy = set()

    # -- sinks of a function for effectiveness
    def sinks(self, g):
        out = [g.exit]
        for n in g.nodes:
            if is_value_yield(n):
                out.append(n)
            elif n.kind == "stmt" and any(call_name(c) in self.extra_sinks for c in calls_in(n.ast)):
                out.append(n)
        return out

    def local_gates(self, fi):
        g = self.an.cfg(fi)
        sinks = self.sinks(g)
        out = []
        for n in g.nodes:
            fl = self.local_gate(fi, g, n)
            if not fl:
                continue
            starts = [m for m, l in n.succ if l in fl]
            seen = g.reach(starts)
            if not any(s.id in seen for s in sinks):
                out.append(n)
        return out

    def gates(self, fi):
        if fi.qname in self._gates:
            return self._gates[fi.qname]
        g = self.an.cfg(fi)
        out = list(self.local_gates(fi))
        for n in g.nodes:
            if n.kind == "consume":
                tgts = self.an.index.resolve_call(fi, n.call)
                if tgts and all(self.complete(t) for t in tgts):
                    out.append(n)
        self._gates[fi.qname] = out
        return out

    def complete(self, fi):
        if fi.qname in self._complete:
            return self._complete[fi.qname]
        if fi.qname in self._busy:
            return False
        self._busy.add(fi.qname)
        try:
            g = self.an.cfg(fi)
            seen = g.reach([g.entry], blocked=self.gates(fi), cut=self.validated_edges(fi))
            ok = g.exit.id not in seen and not any(is_value_yield(n) and n.id in seen for n in g.nodes)
        finally:
            self._busy.discard(fi.qname)
        self._complete[fi.qname] = ok
        return ok

    def token_ok(self, fi, token):
        g = self.an.cfg(fi)
        if fi.qname in self._busy:
            return False
        self._busy.add(fi.qname)
        try:
            seen = g.reach([g.entry], blocked=self.gates(fi), cut=self.validated_edges(fi))
        finally:
            self._busy.discard(fi.qname)
        ys = [n for n in g.nodes if is_value_yield(n) and token in yield_tokens(n)]
        if not ys:
            return False
        return not any(y.id in seen for y in ys)

    def validated_edges(self, fi):
        """(node id, 'T') edges of tests `v == token` where v is the result of consuming a
        callee in which every such token is gate-dominated."""
        key = ("ve", fi.qname)
        if key in self._gates:
            return self._gates[key]
        self._gates[key] = set()      # recursion guard
        g = self.an.cfg(fi)
        out = set()
        for n in g.nodes:
            if n.kind != "test" or n.expr is None:
                continue
            tt = test_tokens(n.expr)
            if not tt:
                continue
            var, toks = tt
            defs = reaching_defs(g, n, var)
            if not defs:
                continue
            good = True
            for d in defs:
                if d.kind != "consume":
                    good = False
                    break
                tgts = self.an.index.resolve_call(fi, d.call)
                if not tgts:
                    good = False
                    break
                for t in tgts:
                    for tok in toks:
                        if not self.token_ok(t, tok):
                            good = False
            if good:
                out.add((n.id, "T"))
        self._gates[key] = out
        return out

    def dominated(self, fi, node):
        """is `node` of fi reachable from entry only through gates / validated tokens?
        returns (True, None) or (False, witness path)."""
        g = self.an.cfg(fi)
        seen = g.reach([g.entry], blocked=self.gates(fi), cut=self.validated_edges(fi))
        if node.id in seen:
            return False, g.path(seen, node.id)
        return True, None


def backward_slice_mentions(g, start_expr, needles, max_iter=6):
    """does the flow-insensitive backward slice of `start_expr` inside the function
    mention an attribute/name containing each needle?  returns dict needle -> bool."""
    names = {n.id for n in ast.walk(start_expr) if isinstance(n, ast.Name)}
    exprs = [start_expr]
    seen_names = set()
    for _ in range(max_iter):
        new = names - seen_names
        if not new:
            break
        seen_names |= new
        for nd in g.nodes:
            if nd.kind == "stmt" and isinstance(nd.ast, ast.Assign):
                tn = set()
                for t in nd.ast.targets:
                    for x in ast.walk(t):
                        if isinstance(x, ast.Name):
                            tn.add(x.id)
                if tn & new:
                    exprs.append(nd.ast.value)
                    names |= {n.id for n in ast.walk(nd.ast.value) if isinstance(n, ast.Name)}
    found = {k: False for k in needles}
    for e in exprs:
        for n in ast.walk(e):
            s = None
            if isinstance(n, ast.Attribute):
                s = n.attr
            elif isinstance(n, ast.Name):
                s = n.id
            elif isinstance(n, ast.arg):
                s = n.arg
            if s:
                for k in needles:
                    if k.lower() in s.lower():
                        found[k] = True
    return found
