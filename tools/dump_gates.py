"""developer aid: list effective gates (tests with a non-returning edge) of a function."""
import sys, os
sys.path.insert(0, os.path.dirname(os.path.dirname(os.path.abspath(__file__))))
from tlsverif.index import Index, norm
from tlsverif.cfg import Analysis
from tlsverif.query import is_value_yield
ix = Index(); an = Analysis(ix)
for q in sys.argv[1:]:
    fi = ix.func(q); g = an.cfg(fi)
    sinks = [g.exit] + [n for n in g.nodes if is_value_yield(n)]
    print("==", q, "nodes", len(g.nodes))
    for n in g.nodes:
        if n.kind == "test":
            dead = []
            for lbl in ("T", "F"):
                st = g.succ_on(n, lbl)
                if st:
                    seen = g.reach(st)
                    if not any(s.id in seen for s in sinks):
                        # which alert
                        al = [m.label for m in g.nodes if m.id in seen and m.kind in ("noreturn", "raise")][:1]
                        dead.append((lbl, al))
            if dead:
                print("  L%d %s  dead=%s" % (n.line, norm(n.expr)[:110], dead))
        elif n.kind in ("consume",):
            print("  L%d CONSUME %s var=%s" % (n.line, n.label[:80], n.var))
        elif is_value_yield(n):
            print("  L%d YIELD %s" % (n.line, n.label[:80]))
