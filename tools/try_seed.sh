#!/bin/sh
# usage: try_seed.sh <patch.diff> <PROP> [tier]   -- apply to /repo, run check, revert
P="$1"; PROP="$2"; TIER="${3:-quick}"
cd /repo || exit 3
if [ -n "$(git status --porcelain -- tlslite)" ]; then echo "repo dirty"; exit 3; fi
git apply --whitespace=nowarn "$P" 2>/dev/null || git apply --3way --whitespace=nowarn "$P" || { echo "APPLY-FAILED $P"; git checkout -- .; exit 3; }
cd /verif && ./check "$PROP" "$TIER"; rc=$?
git -C /repo checkout -- . ; git -C /repo reset -q
exit $rc
