"""Run every check against every seeded change (scratch worktrees, parallel) -> seeded/MATRIX.json

usage: seed_matrix.py [tier] [seed-id ...]
"""
import json, os, re, shutil, subprocess, sys, tempfile
from concurrent.futures import ThreadPoolExecutor
import threading
WT_LOCK = threading.Lock()

VERIF = os.path.dirname(os.path.dirname(os.path.abspath(__file__)))

def sh(cmd, cwd=None, env=None):
    p = subprocess.run(cmd, shell=True, cwd=cwd, env=env, stdout=subprocess.PIPE, stderr=subprocess.STDOUT, text=True)
    return p.returncode, p.stdout

def run(seed, tier):
    sd = os.path.join(os.environ.get("SEED_DIR") or os.path.join(VERIF, "seeded"), seed)
    wt = tempfile.mkdtemp(prefix="sm-", dir="/tmp"); os.rmdir(wt)
    evd = tempfile.mkdtemp(prefix="smev-", dir="/tmp")
    res = {"seed": seed, "fires": {}, "errors": {}}
    with WT_LOCK:
        rc, out = sh("git -C /repo worktree add -q --detach %s HEAD" % wt)
    if rc:
        res["apply_failed"] = "worktree add failed: " + out[-200:]
        return res
    try:
        rc, out = sh("git apply --whitespace=nowarn %s/patch.diff || git apply --3way --whitespace=nowarn %s/patch.diff" % (sd, sd), cwd=wt)
        if rc:
            res["apply_failed"] = out[-300:]
            return res
        env = dict(os.environ, TLSVERIF_REPO=wt, TLSVERIF_EVIDENCE_DIR=evd, TLSVERIF_REPLAY_DIR=evd)
        rc, out = sh("%s/check all %s" % (VERIF, tier), cwd=VERIF, env=env)
        cur = None
        for line in out.splitlines():
            m = re.match(r"property=(C\d+) .* new=(\d+)", line)
            if m:
                cur = m.group(1)
                continue
            m = re.match(r"VIOLATION property=(C\d+)", line)
            if m:
                res["fires"].setdefault(m.group(1), [])
            m = re.match(r"ANALYSIS-ERROR property=(C\d+) (.*)", line)
            if m:
                res["errors"][m.group(1)] = m.group(2)[:200]
            m = re.match(r"  (\S*) (\S+) (C\d+\.[\w.-]+) -- (.*)", line)
            if m:
                res["fires"].setdefault(m.group(3).split(".")[0], []).append("%s %s: %s" % (m.group(3), m.group(2), m.group(4)[:160]))
    finally:
        with WT_LOCK:
            sh("git -C /repo worktree remove --force %s" % wt)
        shutil.rmtree(wt, ignore_errors=True); shutil.rmtree(evd, ignore_errors=True)
    return res

if __name__ == "__main__":
    tier = sys.argv[1] if len(sys.argv) > 1 else "quick"
    sroot = os.environ.get("SEED_DIR") or os.path.join(VERIF, "seeded")
    seeds = sys.argv[2:] or sorted(d for d in os.listdir(sroot) if os.path.isdir(os.path.join(sroot, d)))
    with ThreadPoolExecutor(int(os.environ.get("MATRIX_JOBS", "8"))) as ex:
        results = list(ex.map(lambda s: run(s, tier), seeds))
    caught = 0
    for r in results:
        prop = ([x for x in r["seed"].split("-") if x.startswith("C") and x[1:].isdigit()] or [""])[0]
        own = prop in r["fires"]
        anyf = bool(r["fires"])
        caught += anyf
        rules = sorted({x.split(" ")[0] for v in r["fires"].values() for x in v})
        print("%-8s %-10s %s %s" % (r["seed"], "APPLY-FAILED" if r.get("apply_failed") else ("CAUGHT" if own else ("caught-by-other" if anyf else "MISSED")),
                                   ",".join(rules)[:110], ("ERR:" + str(r["errors"])) if r["errors"] else ""))
    print("%d/%d caught" % (caught, len(results)))
    if len(sys.argv) <= 2:
        json.dump({"tier": tier, "results": results}, open(os.path.join(VERIF, "seeded", "MATRIX.json"), "w"), indent=1)
    elif os.environ.get("MATRIX_OUT"):
        json.dump({"tier": tier, "results": results}, open(os.environ["MATRIX_OUT"], "w"), indent=1)
