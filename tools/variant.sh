#!/bin/sh
# usage: variant.sh PROP 'python-expr editing s (source text) for file F' F   -- quick manual variant test
# e.g. variant.sh C04 's.replace("a","b",1)' tlslite/tlsconnection.py
PROP="$1"; EXPR="$2"; F="$3"
D=$(mktemp -d /tmp/variant-XXXXXX)
cp -r /repo/tlslite "$D/tlslite"
python3 - "$D/$F" "$EXPR" <<'PY'
import sys
p, expr = sys.argv[1], sys.argv[2]
s = open(p).read()
t = eval(expr)
assert t != s, "variant made no change"
import ast; ast.parse(t)
open(p, "w").write(t)
PY
[ $? -eq 0 ] && TLSVERIF_REPO="$D" TLSVERIF_EVIDENCE_DIR="$D" TLSVERIF_REPLAY_DIR="$D" /verif/check "$PROP" quick | grep -v "^    construct" | cut -c1-260
rm -rf "$D"
