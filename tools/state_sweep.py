"""Developer tool: delete every state-changing statement of the protocol code (an assignment to an
attribute, a bare call on an attribute of self), one at a time, in a scratch copy and record which
checks notice.  For the ones nobody notices the project's test suite is run on the copy: a deletion
that survives the tests and no check is a candidate for a new rule (or is outside every property, or
equivalent).  Not registered in the manifest; writes seeded/STATE_SWEEP.json.

usage: state_sweep.py [jobs] [file ...]
"""
import ast, json, os, re, shutil, subprocess, sys, tempfile
from concurrent.futures import ThreadPoolExecutor

VERIF = os.path.dirname(os.path.dirname(os.path.abspath(__file__)))
REPO = "/repo"
FILES = ["tlslite/tlsconnection.py", "tlslite/tlsrecordlayer.py", "tlslite/recordlayer.py",
         "tlslite/session.py", "tlslite/sessioncache.py", "tlslite/messagesocket.py",
         "tlslite/bufferedsocket.py", "tlslite/defragmenter.py", "tlslite/handshakehashes.py"]


def _attr_target(t):
    while isinstance(t, (ast.Subscript,)):
        t = t.value
    return isinstance(t, ast.Attribute)


def sites(path):
    src = open(os.path.join(REPO, path)).read()
    tree = ast.parse(src)
    out = []
    for fn in ast.walk(tree):
        if not isinstance(fn, ast.FunctionDef) or fn.name == "__init__":
            continue
        for n in ast.walk(fn):
            kind = None
            if isinstance(n, ast.Assign) and all(_attr_target(t) for t in n.targets):
                kind = "assign"
            elif isinstance(n, ast.AugAssign) and _attr_target(n.target):
                kind = "augassign"
            elif isinstance(n, ast.Expr) and isinstance(n.value, ast.Call) \
                    and isinstance(n.value.func, ast.Attribute) \
                    and ast.unparse(n.value.func).startswith("self."):
                kind = "call"
            if kind:
                out.append({"file": path, "func": fn.name, "line": n.lineno, "kind": kind,
                            "text": " ".join(ast.unparse(n).split())[:120],
                            "span": (n.lineno, n.end_lineno, n.col_offset)})
    # nested defs are walked twice
    seen, uniq = set(), []
    for s in out:
        if (s["line"], s["kind"]) not in seen:
            seen.add((s["line"], s["kind"]))
            uniq.append(s)
    return uniq


def run(g):
    d = tempfile.mkdtemp(prefix="ss-", dir="/tmp")
    try:
        shutil.copytree(os.path.join(REPO, "tlslite"), os.path.join(d, "tlslite"))
        p = os.path.join(d, g["file"])
        lines = open(p).read().split("\n")
        a, b, col = g["span"]
        lines[a - 1:b] = [" " * col + "pass"]
        open(p, "w").write("\n".join(lines))
        env = dict(os.environ, TLSVERIF_REPO=d, TLSVERIF_EVIDENCE_DIR=d, TLSVERIF_REPLAY_DIR=d)
        out = subprocess.run([os.path.join(VERIF, "check"), "all", "quick"], cwd=VERIF, env=env,
                             stdout=subprocess.PIPE, stderr=subprocess.STDOUT, text=True).stdout
        g = dict(g)
        g["fires"] = sorted(set(re.findall(r"^VIOLATION property=(C\d+)", out, re.M)))
        g["errors"] = sorted(set(re.findall(r"^ANALYSIS-ERROR property=(C\d+)", out, re.M)))
        g["rules"] = sorted(set(re.findall(r" (C\d+\.[\w-]+) -- ", out)))
        return g
    finally:
        shutil.rmtree(d, ignore_errors=True)


def survives(g):
    """does the project's suite pass with the deletion?  (serial; the suite uses 8 workers)"""
    d = tempfile.mkdtemp(prefix="st-", dir="/tmp")
    try:
        subprocess.run(["git", "-C", REPO, "worktree", "add", "--detach", d, "HEAD"], check=True,
                       stdout=subprocess.DEVNULL, stderr=subprocess.DEVNULL)
        p = os.path.join(d, g["file"])
        lines = open(p).read().split("\n")
        a, b, col = g["span"]
        lines[a - 1:b] = [" " * col + "pass"]
        open(p, "w").write("\n".join(lines))
        r = subprocess.run(["/venv/bin/python", "-m", "pytest", "-q", "-x", "-p", "no:cacheprovider",
                            "--timeout=900", "-n", "8"], cwd=d, stdout=subprocess.PIPE,
                           stderr=subprocess.STDOUT, text=True)
        return r.returncode == 0
    finally:
        subprocess.run(["git", "-C", REPO, "worktree", "remove", "--force", d],
                       stdout=subprocess.DEVNULL, stderr=subprocess.DEVNULL)
        shutil.rmtree(d, ignore_errors=True)


if __name__ == "__main__":
    jobs = int(sys.argv[1]) if len(sys.argv) > 1 else 8
    files = sys.argv[2:] or FILES
    alls = []
    for f in files:
        alls += sites(f)
    print("sites:", len(alls), flush=True)
    with ThreadPoolExecutor(jobs) as ex:
        res = list(ex.map(run, alls))
    print("noticed: %d / %d" % (sum(1 for r in res if r["fires"]), len(res)), flush=True)
    for r in res:
        if not r["fires"]:
            r["survives_tests"] = survives(r)
            if r["survives_tests"]:
                print("UNNOTICED+SURVIVES %s:%d %s  [%s]%s" % (
                    r["file"].split("/")[-1], r["line"], r["func"], r["text"],
                    (" ERR " + ",".join(r["errors"])) if r["errors"] else ""), flush=True)
    json.dump(res, open(os.path.join(VERIF, "seeded", "STATE_SWEEP.json"), "w"), indent=1)
    surv = [r for r in res if r.get("survives_tests")]
    print("unnoticed and surviving the tests: %d" % len(surv))
