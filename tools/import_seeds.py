"""copy confirmed candidates from /tmp/seed/out into /verif/seeded/<PROP>-<k>/"""
import glob, json, os, shutil, sys
src = sys.argv[1] if len(sys.argv) > 1 else "/tmp/seed/out"
prefix = sys.argv[2] if len(sys.argv) > 2 else ""
for vf in sorted(glob.glob(src + "/C*/[0-9]*/verify.json")):
    d = os.path.dirname(vf)
    v = json.load(open(vf))
    if not v.get("confirmed"):
        print("skip (not confirmed)", d); continue
    prop, k = d.split("/")[-2], d.split("/")[-1]
    dst = "/verif/seeded/%s%s-%s" % (prefix, prop, k)
    if os.path.exists(dst):
        continue
    os.makedirs(dst)
    shutil.copy(os.path.join(d, "patch.diff"), dst)
    shutil.copy(os.path.join(d, "demo.py"), dst)
    try:
        meta = json.load(open(os.path.join(d, "meta.json")))
    except Exception as e:
        meta = {"property": prop, "note": "agent meta.json unreadable: %s" % e}
    meta["property"] = prop
    meta["round"] = prefix.rstrip("-") or "R1"
    meta["confirmed_by_main_session"] = {
        "how": "tools/verify_seed.py in a scratch worktree of /repo HEAD (removed afterwards): patch applies; "
               "baseline suite with the change; demo with and without the change",
        "suite_with_change": v["suite"], "demo_exit_without_change": v["demo_clean_rc"],
        "demo_exit_with_change": v["demo_mutant_rc"], "diffstat": v.get("diffstat", ""),
        "origin": "independent sub-agent given only the property record and a scratch worktree"}
    json.dump(meta, open(os.path.join(dst, "meta.json"), "w"), indent=1)
    print("imported", dst)
