#!/bin/sh
# usage: check_at.sh <commit> PROP [tier]  -- run a check against a scratch worktree of /repo at <commit>
C="$1"; PROP="$2"; TIER="${3:-quick}"
D=$(mktemp -d /tmp/checkat-XXXXXX); rmdir "$D"
git -C /repo worktree add -q --detach "$D" "$C" || exit 3
TLSVERIF_REPO="$D" TLSVERIF_EVIDENCE_DIR="$D" TLSVERIF_REPLAY_DIR="$D" /verif/check "$PROP" "$TIER"; rc=$?
git -C /repo worktree remove --force "$D"; rm -rf "$D"
exit $rc
