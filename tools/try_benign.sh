#!/bin/sh
# usage: try_benign.sh B-CNN-k PROP [PROP...]  -- apply a negative control to /repo, run checks, revert
B="$1"; shift
cd /repo || exit 3
if [ -n "$(git status --porcelain -- tlslite)" ]; then echo "repo dirty"; exit 3; fi
git apply --whitespace=nowarn /verif/benign/$B/patch.diff || { echo APPLY-FAILED; git checkout -- .; exit 3; }
for P in "$@"; do /verif/check $P quick | grep -E "^  tlslite|^VIOL|^ANALYSIS|^property" | cut -c1-330; done
git -C /repo checkout -- . ; git -C /repo reset -q
