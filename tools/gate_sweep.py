"""Developer tool: neutralise every abort-gate of the protocol code, one at a time, in a scratch
copy and record which checks notice.  Gates nobody notices are candidates for new rules (or are
outside every property).  Not registered in the manifest; writes seeded/GATE_SWEEP.json.

usage: gate_sweep.py [jobs] [file ...]
"""
import ast, json, os, re, shutil, subprocess, sys, tempfile
from concurrent.futures import ThreadPoolExecutor

VERIF = os.path.dirname(os.path.dirname(os.path.abspath(__file__)))
REPO = "/repo"
FILES = ["tlslite/tlsconnection.py", "tlslite/tlsrecordlayer.py", "tlslite/recordlayer.py",
         "tlslite/keyexchange.py", "tlslite/handshakehelpers.py", "tlslite/x509.py",
         "tlslite/sessioncache.py", "tlslite/session.py", "tlslite/defragmenter.py"]


def abort_body(body):
    """the if-body only aborts: a _sendError loop or a raise."""
    if len(body) != 1:
        return False
    s = body[0]
    if isinstance(s, ast.Raise):
        return True
    if isinstance(s, ast.For) and isinstance(s.iter, ast.Call) and isinstance(s.iter.func, ast.Attribute) \
            and s.iter.func.attr == "_sendError":
        return True
    return False


def gates(path):
    src = open(os.path.join(REPO, path)).read()
    tree = ast.parse(src)
    out = []
    funcs = {}
    for n in ast.walk(tree):
        if isinstance(n, ast.FunctionDef):
            for x in ast.walk(n):
                funcs.setdefault(id(x), n.name)
    for n in ast.walk(tree):
        if isinstance(n, ast.If) and abort_body(n.body):
            out.append({"file": path, "func": funcs.get(id(n), "?"), "line": n.lineno,
                        "test": " ".join(ast.unparse(n.test).split())[:110],
                        "body": (n.body[0].lineno, n.body[0].end_lineno, n.body[0].col_offset)})
    return out


def run(g):
    d = tempfile.mkdtemp(prefix="gs-", dir="/tmp")
    try:
        shutil.copytree(os.path.join(REPO, "tlslite"), os.path.join(d, "tlslite"))
        p = os.path.join(d, g["file"])
        lines = open(p).read().split("\n")
        a, b, col = g["body"]
        lines[a - 1:b] = [" " * col + "pass"]
        open(p, "w").write("\n".join(lines))
        env = dict(os.environ, TLSVERIF_REPO=d, TLSVERIF_EVIDENCE_DIR=d, TLSVERIF_REPLAY_DIR=d)
        out = subprocess.run([os.path.join(VERIF, "check"), "all", "quick"], cwd=VERIF, env=env,
                             stdout=subprocess.PIPE, stderr=subprocess.STDOUT, text=True).stdout
        fires = sorted(set(re.findall(r"^VIOLATION property=(C\d+)", out, re.M)))
        errs = sorted(set(re.findall(r"^ANALYSIS-ERROR property=(C\d+)", out, re.M)))
        rules = sorted(set(re.findall(r" (C\d+\.[\w-]+) -- ", out)))
        g = dict(g)
        g.update({"fires": fires, "errors": errs, "rules": rules})
        return g
    finally:
        shutil.rmtree(d, ignore_errors=True)


if __name__ == "__main__":
    jobs = int(sys.argv[1]) if len(sys.argv) > 1 else 12
    files = sys.argv[2:] or FILES
    allg = []
    for f in files:
        allg += gates(f)
    print("gates:", len(allg))
    with ThreadPoolExecutor(jobs) as ex:
        res = list(ex.map(run, allg))
    caught = [r for r in res if r["fires"]]
    print("noticed: %d / %d" % (len(caught), len(res)))
    for r in res:
        if not r["fires"]:
            print("UNNOTICED %s:%d %s  [%s]%s" % (r["file"].split("/")[-1], r["line"], r["func"], r["test"],
                                                 (" ERR " + ",".join(r["errors"])) if r["errors"] else ""))
    json.dump(res, open(os.path.join(VERIF, "seeded", "GATE_SWEEP.json"), "w"), indent=1)
